(** Proofs about the sentinel model (Sentinel.v).  Statements are collected in
    Properties/C03_sentinel.v. *)
From incr Require Import Base Sentinel.
Local Open Scope nat_scope.

(** * Access lemmas *)

Lemma nd_ge l m : length l <= m -> nd l m = node0.
Proof. intros H. unfold nd. rewrite (proj2 (lookup_ge_None l m)); auto. Qed.

Lemma nd_imap g l m :
  nd (imap g l) m = if decide (m < length l) then g m (nd l m) else node0.
Proof.
  unfold nd. rewrite list_lookup_imap. case_decide as H.
  - apply lookup_lt_is_Some in H as [x Hx]. rewrite Hx. reflexivity.
  - rewrite (proj2 (lookup_ge_None l m)); [reflexivity|lia].
Qed.

Lemma nd_upd l n f m :
  nd (upd l n f) m = if decide (m = n /\ m < length l) then f (nd l m) else nd l m.
Proof.
  unfold upd. rewrite nd_imap.
  destruct (decide (m < length l)) as [Hl|Hl]; destruct (Nat.eqb_spec m n) as [He|He];
    destruct (decide (m = n /\ m < length l)) as [Hd|Hd]; try reflexivity; try (exfalso; tauto);
    symmetry; apply nd_ge; lia.
Qed.

Lemma upd_length l n f : length (upd l n f) = length l.
Proof. apply imap_length. Qed.

Lemma nd_app l x m :
  nd (l ++ [x]) m = if decide (m < length l) then nd l m else if decide (m = length l) then x else node0.
Proof.
  unfold nd. repeat case_decide.
  - rewrite lookup_app_l; auto.
  - subst. rewrite lookup_app_r, Nat.sub_diag; auto.
  - rewrite (proj2 (lookup_ge_None _ m)); auto. rewrite app_length; simpl; lia.
Qed.

Lemma nd_lt_of_ne0 l m : nd l m <> node0 -> m < length l.
Proof. intros H. destruct (decide (m < length l)); auto. exfalso; apply H, nd_ge; lia. Qed.

Lemma hasChild_true l n :
  hasChild l n = true <-> exists m, reg (nd l m) = true /\ isMapOf (nd l m) n = true.
Proof.
  unfold hasChild. rewrite existsb_exists. split.
  - intros (x & Hin & Hx). apply elem_of_list_In, elem_of_list_lookup in Hin as [m Hm].
    exists m. unfold nd. rewrite Hm. simpl. apply andb_true_iff in Hx. auto.
  - intros (m & H1 & H2). destruct (decide (m < length l)) as [Hl|Hl].
    + apply lookup_lt_is_Some in Hl as [x Hx]. exists x. unfold nd in *. rewrite Hx in *. simpl in *.
      split; [apply elem_of_list_In, elem_of_list_lookup; eauto|]. rewrite H1, H2; auto.
    + rewrite nd_ge in H1 by lia. discriminate.
Qed.

Lemma hasChild_false l n :
  hasChild l n = false <-> forall m, reg (nd l m) = true -> isMapOf (nd l m) n = false.
Proof.
  split.
  - intros H m Hr. destruct (isMapOf (nd l m) n) eqn:E; auto.
    assert (hasChild l n = true) by (apply hasChild_true; eauto). congruence.
  - intros H. destruct (hasChild l n) eqn:E; auto. apply hasChild_true in E as (m & H1 & H2).
    rewrite H in H2; auto.
Qed.

Lemma isMapOf_spec x n : isMapOf x n = true <-> exists f, kind_ x = KMap f n.
Proof.
  unfold isMapOf. destruct (kind_ x); split; try discriminate; try (intros [? ?]; discriminate).
  - intros H. apply Nat.eqb_eq in H. subst. eauto.
  - intros [f' H]. inversion H. apply Nat.eqb_refl.
Qed.

Lemma watches_spec x n : watches x n = true <-> watched x = Some n.
Proof.
  unfold watches. destruct (watched x); split; try discriminate.
  - intros H. apply Nat.eqb_eq in H. subst; auto.
  - intros H. inversion H. apply Nat.eqb_refl.
Qed.

(** * The watch-edge invariant

    [N] is the number of the pass (running or next). *)
Record Static (l : list node) : Prop := {
  i_kmap : forall m f a, kind_ (nd l m) = KMap f a -> a < m /\ isSent (nd l a) = false;
  i_plain : forall x, isSent (nd l x) = false -> watched (nd l x) = None;
  i_wk : forall x w, watched (nd l x) = Some w -> w < x /\ isSent (nd l w) = false
}.

Definition watch_ok (N : nat) (l : list node) (x w : nid) : Prop :=
  reg (nd l x) = true /\ height (nd l x) = 0 /\ lchild (nd l x) = lparent (nd l x) /\
  (reg (nd l w) = true ->
   lparent (nd l x) = true /\ height (nd l x) < height (nd l w) /\
   (queued (nd l x) = true \/ rAt (nd l x) = N)).

Definition unwatched_ok (l : list node) (x : nid) : Prop :=
  lchild (nd l x) = false /\ lparent (nd l x) = false /\
  (isSent (nd l x) = true -> reg (nd l x) = false /\ queued (nd l x) = false).

Record InvW (N : nat) (l : list node) : Prop := {
  i_static : Static l;
  i_sent : forall x w, watched (nd l x) = Some w -> watch_ok N l x w;
  i_unw : forall x, watched (nd l x) = None -> unwatched_ok l x
}.

Lemma static_frame l l' :
  (forall m, kind_ (nd l' m) = kind_ (nd l m) /\ watched (nd l' m) = watched (nd l m)) ->
  Static l -> Static l'.
Proof.
  intros H [H1 H2 H3]. constructor.
  - intros m f a. unfold isSent. rewrite (proj1 (H m)), (proj1 (H a)). apply H1.
  - intros x. unfold isSent. rewrite (proj1 (H x)), (proj2 (H x)). apply H2.
  - intros x w. unfold isSent. rewrite (proj2 (H x)), (proj1 (H w)). apply H3.
Qed.

Lemma static_init : Static [].
Proof.
  constructor; intros *; rewrite ?nd_ge by (simpl; lia); simpl; intros; try discriminate; auto.
Qed.

Lemma invW_init : InvW 1 [].
Proof.
  constructor; [apply static_init|..]; intros *; unfold watch_ok, unwatched_ok;
    rewrite ?nd_ge by (simpl; lia); simpl; intros; try discriminate; auto.
Qed.

Lemma invW_pw N N' l l' :
  InvW N l ->
  (forall m, kind_ (nd l' m) = kind_ (nd l m) /\ watched (nd l' m) = watched (nd l m)) ->
  (forall x w, watched (nd l x) = Some w -> watch_ok N l x w -> watch_ok N' l' x w) ->
  (forall x, watched (nd l x) = None -> unwatched_ok l x -> unwatched_ok l' x) ->
  InvW N' l'.
Proof.
  intros [Hs H1 H2] He Ha Hb. constructor.
  - eapply static_frame; eauto.
  - intros x w Hw. rewrite (proj2 (He x)) in Hw. eauto.
  - intros x Hw. rewrite (proj2 (He x)) in Hw. eauto.
Qed.

(** a transformer that leaves sentinels alone and, on the other nodes, keeps registration
    and only raises heights *)
Lemma invW_nonsent N l l' :
  InvW N l ->
  (forall m, isSent (nd l m) = true -> nd l' m = nd l m) ->
  (forall m, kind_ (nd l' m) = kind_ (nd l m) /\ watched (nd l' m) = watched (nd l m) /\
             reg (nd l' m) = reg (nd l m) /\ lchild (nd l' m) = lchild (nd l m) /\
             lparent (nd l' m) = lparent (nd l m) /\ height (nd l m) <= height (nd l' m)) ->
  InvW N l'.
Proof.
  intros HI Hsent Hm. apply (invW_pw N N l l' HI).
  - intros m. destruct (Hm m) as (?&?&_). auto.
  - intros x w Hw (H1 & H2 & H3 & H4).
    assert (Hx : isSent (nd l x) = true).
    { destruct (isSent (nd l x)) eqn:E; auto. rewrite (i_plain _ (i_static _ _ HI) x E) in Hw. discriminate. }
    unfold watch_ok. rewrite (Hsent x Hx). destruct (Hm w) as (_&_&Hr&_&_&Hh). rewrite Hr.
    split; [auto|]. split; [auto|]. split; [auto|]. intros Hrw. destruct (H4 Hrw) as (?&?&?).
    split; [auto|]. split; [lia|auto].
  - intros x Hw (H1 & H2 & H3). destruct (Hm x) as (Hk&_&Hr&Hc&Hp&_).
    unfold unwatched_ok, isSent. rewrite Hk, Hc, Hp. split; [auto|]. split; [auto|].
    intros Hx. rewrite (Hsent x Hx). auto.
Qed.

(** [lia] on the arithmetic hypotheses only (Base.v loads ZifyBool, which makes [lia] scan
    every boolean hypothesis) *)
Ltac keep_arith :=
  repeat match goal with
  | H : ?T |- _ =>
    lazymatch T with
    | (_ < _) => fail
    | (_ <= _) => fail
    | (@eq nat _ _) => fail
    | (not (@eq nat _ _)) => fail
    | (not (_ < _)) => fail
    | (not (_ <= _)) => fail
    | (@eq nat _ _ -> False) => fail
    | nat => fail
    | list _ => fail
    | _ => clear H
    end
  end.
Ltac flia := keep_arith; lia.

Lemma watched_lt l x w : watched (nd l x) = Some w -> x < length l.
Proof. intros H. apply nd_lt_of_ne0. intros E. rewrite E in H. discriminate. Qed.

Lemma watches_false_of l x k w : watched (nd l x) = w -> w <> Some k -> watches (nd l x) k = false.
Proof.
  intros H Hne. destruct (watches (nd l x) k) eqn:E; auto. apply watches_spec in E. congruence.
Qed.
Definition enter1 (h : nat) (l : list node) (k : nid) : list node :=
  imap (fun i x =>
          if i =? k then entered x h
          else if watches x k then
            set_queued (if true && negb (lparent x) then set_links x true true else x) true
          else x) l.

Lemma invW_enter1 N l k h :
  InvW N l -> isSent (nd l k) = false ->
  (forall i, watched (nd l i) = Some k -> height (nd l i) < h) ->
  InvW N (enter1 h l k).
Proof.
  intros HI Hs Hh. pose proof (i_static _ _ HI) as HS.
  pose proof (i_plain _ HS k Hs) as Hk.
  apply (invW_pw N N l _ HI); unfold enter1.
  - intros m. rewrite nd_imap. case_decide; [|rewrite nd_ge by flia; auto].
    destruct (m =? k); [simpl; auto|]. destruct (watches (nd l m) k); [|auto].
    destruct (negb (lparent (nd l m))); simpl; auto.
  - intros x w Hw (H1 & H2 & H3 & H4). pose proof (watched_lt _ _ _ Hw) as Hx.
    destruct (i_wk _ HS x w Hw) as [Hwx Hws].
    assert (x <> k) by congruence.
    unfold watch_ok. rewrite (nd_imap _ _ x), (nd_imap _ _ w).
    destruct (decide (x < length l)); [|flia]. destruct (decide (w < length l)); [|flia].
    destruct (Nat.eqb_spec x k); [congruence|].
    destruct (watches (nd l x) k) eqn:Ew.
    + apply watches_spec in Ew. assert (w = k) by congruence. subst w. rewrite Nat.eqb_refl.
      destruct (lparent (nd l x)) eqn:El; simpl; rewrite ?El; (split; [auto|]; split; [auto|]; split; [auto|]);
        intros _; (split; [auto|]; split; [rewrite H2 in *; apply Hh in Hw; flia|auto]).
    + assert (w <> k) by (intros ->; apply watches_spec in Hw; congruence).
      destruct (Nat.eqb_spec w k); [congruence|].
      rewrite (watches_false_of l w k None); [|apply (i_plain _ HS w Hws)|discriminate].
      (split; [auto|]; split; [auto|]; split; auto).
  - intros x Hw (H1 & H2 & H3). unfold unwatched_ok. rewrite nd_imap.
    (case_decide; [|simpl; auto]). (rewrite (watches_false_of l x k None); auto).
    (destruct (Nat.eqb_spec x k); [subst; simpl|auto]).
    (split; [auto|]). (split; [auto|]). (unfold isSent in *; simpl). congruence.
Qed.
(* zeroNode of a Var or Map *)
Lemma invW_zero N l k :
  InvW N l -> isSent (nd l k) = false -> InvW N (zero head l k).
Proof.
  intros HI Hs. pose proof (i_static _ _ HI) as HS.
  pose proof (i_plain _ HS k Hs) as Hk.
  apply (invW_pw N N l _ HI); unfold zero.
  - intros m. rewrite nd_imap. case_decide; [|rewrite nd_ge by flia; auto].
    destruct (m =? k); [simpl; auto|]. destruct (watches (nd l m) k); simpl; auto.
  - intros x w Hw Hok. pose proof (watched_lt _ _ _ Hw) as Hx.
    destruct (i_wk _ HS x w Hw) as [Hwx Hws].
    assert (x <> k) by congruence.
    unfold watch_ok in *. rewrite (nd_imap _ _ x), (nd_imap _ _ w).
    destruct (decide (x < length l)); [|flia]. destruct (decide (w < length l)); [|flia].
    destruct (Nat.eqb_spec x k); [congruence|].
    destruct (watches (nd l x) k) eqn:Ew.
    + apply watches_spec in Ew. assert (w = k) by congruence. subst w. rewrite Nat.eqb_refl. simpl.
      destruct_and?. repeat split; auto; discriminate.
    + assert (w <> k) by (intros ->; apply watches_spec in Hw; congruence).
      destruct (Nat.eqb_spec w k); [congruence|].
      rewrite (watches_false_of l w k None); [|apply (i_plain _ HS w Hws)|discriminate]. auto.
  - intros x Hw (H1 & H2 & H3). unfold unwatched_ok. rewrite nd_imap.
    case_decide; [|simpl; auto]. rewrite (watches_false_of l x k None); auto.
    destruct (Nat.eqb_spec x k); [subst; simpl|auto].
    split; [auto|]. split; [auto|]. unfold isSent in *; simpl. congruence.
Qed.

(* Unwatch *)
Lemma invW_Unwatch N l k : InvW N l -> InvW N (Unwatch l k).
Proof.
  intros HI. pose proof (i_static _ _ HI) as HS. unfold Unwatch.
  destruct (isSent (nd l k)) eqn:Hs; simpl; auto. case_bool_decide as Hw; simpl; auto.
  destruct (watched (nd l k)) as [w0|] eqn:Hw0; [clear Hw|congruence].
  pose proof (watched_lt _ _ _ Hw0) as Hk.
  constructor.
  - destruct HS as [H1 H2 H3]. constructor.
    + intros m f a. rewrite !nd_upd. repeat case_decide; simpl; intros E; try discriminate.
      * destruct (H1 m f a E) as [? ?]. split; auto. destruct_and?; subst; congruence.
      * apply H1 in E. auto.
    + intros x. rewrite !nd_upd. case_decide; simpl; auto.
    + intros x w. rewrite !nd_upd. repeat case_decide; simpl; intros E; try discriminate.
      * destruct (H3 x w E). destruct_and?; subst. unfold isSent in *. congruence.
      * apply H3 in E; auto.
  - intros x w. rewrite (nd_upd _ _ _ x). case_decide; simpl; [discriminate|]. intros E.
    destruct (i_wk _ HS x w E) as [? Hws].
    assert (w <> k) by (intros ->; congruence).
    unfold watch_ok. rewrite !nd_upd. repeat case_decide; destruct_and?; try congruence; try tauto.
    apply (i_sent _ _ HI x w E).
  - intros x. rewrite (nd_upd _ _ _ x). unfold unwatched_ok. rewrite !nd_upd. case_decide; simpl.
    + intros _. auto.
    + apply (i_unw _ _ HI).
Qed.

(* a sentinel is taken off the heap and its predicate evaluated in pass N *)
Lemma invW_ran_sent N l k fire :
  InvW N l -> isSent (nd l k) = true -> InvW N (upd l k (fun x => ran x N fire (val x))).
Proof.
  intros HI Hs. pose proof (i_static _ _ HI) as HS.
  apply (invW_pw N N l _ HI).
  - intros m. rewrite nd_upd. case_decide; simpl; auto.
  - intros x w Hw Hok. destruct (i_wk _ HS x w Hw) as [? Hws].
    assert (w <> k) by (intros ->; congruence).
    unfold watch_ok in *. rewrite !nd_upd. repeat case_decide; destruct_and?; try congruence; simpl; auto.
    subst. destruct_and?. repeat split; auto; destruct (H8 H3) as (?&?&?); auto.
  - intros x Hw Hok. unfold unwatched_ok in *. rewrite !nd_upd. case_decide; simpl; auto.
    destruct_and?. subst. repeat split; auto; apply H4; auto.
Qed.

(* the end of pass N *)
Lemma invW_requeue N l : InvW N l -> InvW (S N) (requeue N l).
Proof.
  intros HI. pose proof (i_static _ _ HI) as HS. unfold requeue.
  apply (invW_pw N (S N) l _ HI).
  - intros m. rewrite nd_imap. case_decide; [|rewrite nd_ge by flia; auto]. case_match; simpl; auto.
  - intros x w Hw Hok. destruct (i_wk _ HS x w Hw) as [? Hws]. pose proof (watched_lt _ _ _ Hw).
    assert (Hsx : isSent (nd l x) = true).
    { destruct (isSent (nd l x)) eqn:E2; auto. rewrite (i_plain _ HS x E2) in Hw. discriminate. }
    unfold watch_ok in *. rewrite !nd_imap. repeat case_decide; try flia.
    rewrite Hws, Hsx. simpl. destruct Hok as (H3 & H5 & H4 & H7). rewrite H3, andb_true_r.
    destruct (Nat.eqb_spec (rAt (nd l x)) N) as [Hq|Hq]; simpl;
      (split; [auto|]; split; [auto|]; split; [auto|]); intros Hr; destruct (H7 Hr) as (?&?&[?|?]);
      (split; [auto|]; split; [auto|]); auto; congruence.
  - intros x Hw Hok. unfold unwatched_ok in *. rewrite !nd_imap. case_decide; simpl; auto.
    destruct_and?. destruct (isSent (nd l x)) eqn:E; simpl.
    + destruct (H3 eq_refl) as [Hr ?]. rewrite Hr, andb_false_r. rewrite E. auto.
    + rewrite E. repeat split; auto; discriminate.
Qed.

Definition new_ok (l : list node) (y : node) : Prop :=
  match kind_ y with KMap f a => a < length l /\ isSent (nd l a) = false | _ => True end /\
  match watched y with
  | Some w => isSent y = true /\ w < length l /\ isSent (nd l w) = false /\ reg y = true /\ height y = 0 /\
              lchild y = true /\ lparent y = true /\
              (reg (nd l w) = true -> 0 < height (nd l w) /\ queued y = true)
  | None => isSent y = false /\ lchild y = false /\ lparent y = false
  end.

Lemma nd_app_lt l y m : m < length l -> nd (l ++ [y]) m = nd l m.
Proof. intros. rewrite nd_app. case_decide; auto. flia. Qed.
Lemma nd_app_eq l y : nd (l ++ [y]) (length l) = y.
Proof. rewrite nd_app. case_decide; [flia|]. case_decide; auto. congruence. Qed.
Lemma nd_app_gt l y m : length l < m -> nd (l ++ [y]) m = node0.
Proof. intros. rewrite nd_app. repeat case_decide; auto; flia. Qed.

Lemma kmap_lt l m f a : kind_ (nd l m) = KMap f a -> m < length l.
Proof. intros H. apply nd_lt_of_ne0. intros E. rewrite E in H. discriminate. Qed.

Lemma invW_app N l y : InvW N l -> new_ok l y -> InvW N (l ++ [y]).
Proof.
  intros HI [Hk Hy]. pose proof (i_static _ _ HI) as HS. destruct HS as [H1 H2 H3].
  assert (Hcase : forall m, m < length l \/ m = length l \/ length l < m) by (intros; flia).
  constructor; [constructor|..].
  - intros m f a. destruct (Hcase m) as [Hm|[->|Hm]].
    + rewrite nd_app_lt by auto. intros E. destruct (H1 m f a E). rewrite nd_app_lt by flia. auto.
    + rewrite nd_app_eq. intros E. rewrite E in Hk. destruct Hk. rewrite nd_app_lt by auto. auto.
    + rewrite nd_app_gt by auto. discriminate.
  - intros x. destruct (Hcase x) as [Hm|[->|Hm]].
    + rewrite nd_app_lt by auto. auto.
    + rewrite nd_app_eq. intros E. destruct (watched y); auto. destruct_and?. congruence.
    + rewrite nd_app_gt by auto. auto.
  - intros x w. destruct (Hcase x) as [Hm|[->|Hm]].
    + rewrite nd_app_lt by auto. intros E. destruct (H3 x w E). rewrite nd_app_lt by flia. auto.
    + rewrite nd_app_eq. intros E. rewrite E in Hy. destruct_and?. rewrite nd_app_lt by auto. auto.
    + rewrite nd_app_gt by auto. discriminate.
  - intros x w. unfold watch_ok. destruct (Hcase x) as [Hm|[->|Hm]].
    + rewrite nd_app_lt by auto. intros E. destruct (H3 x w E). rewrite nd_app_lt by flia.
      apply (i_sent _ _ HI x w E).
    + rewrite nd_app_eq. intros E. rewrite E in Hy. destruct_and?. rewrite nd_app_lt by auto.
      repeat split; auto; try congruence; destruct (H10 H9); [flia|auto].
    + rewrite nd_app_gt by auto. discriminate.
  - intros x. unfold unwatched_ok. destruct (Hcase x) as [Hm|[->|Hm]].
    + rewrite nd_app_lt by auto. apply (i_unw _ _ HI).
    + rewrite nd_app_eq. intros E. rewrite E in Hy. destruct_and?. repeat split; auto; congruence.
    + rewrite nd_app_gt by auto. simpl. repeat split; auto; discriminate.
Qed.

(** heights only *)
Definition hrel (x y : node) : Prop := y = set_height x (height y) /\ height x <= height y.

Lemma hrel_refl x : hrel x x.
Proof. split; [destruct x; reflexivity|auto]. Qed.
Lemma hrel_trans x y z : hrel x y -> hrel y z -> hrel x z.
Proof. intros [H1 H2] [H3 H4]. split; [|flia]. rewrite H3. rewrite H1 at 1. reflexivity. Qed.

Lemma bump_hrel l i m : hrel (nd l m) (nd (bump l i) m) /\ (isMap (nd l m) = false -> nd (bump l i) m = nd l m).
Proof.
  unfold bump. destruct (kind_ (nd l i)) eqn:Ek; try (split; [apply hrel_refl|auto]).
  destruct (reg (nd l i) && (height (nd l i) <=? height (nd l a))) eqn:E; try (split; [apply hrel_refl|auto]).
  apply andb_true_iff in E as [_ E]. apply Nat.leb_le in E.
  rewrite nd_upd. case_decide as Hd; try (split; [apply hrel_refl|auto]).
  destruct Hd as [-> _]. split.
  - split; simpl; [reflexivity|flia].
  - unfold isMap. rewrite Ek. discriminate.
Qed.

Lemma sweep_hrel l m : hrel (nd l m) (nd (sweep l) m) /\ (isMap (nd l m) = false -> nd (sweep l) m = nd l m).
Proof.
  unfold sweep. generalize (seq 0 (length l)). intros is. revert l.
  induction is as [|i is IH]; intros l; simpl; [split; [apply hrel_refl|auto]|].
  destruct (IH (bump l i)) as [H1 H2]. destruct (bump_hrel l i m) as [H3 H4]. split.
  - eapply hrel_trans; eauto.
  - intros Hm. rewrite H2, H4; auto. rewrite H4; auto.
Qed.

Lemma hrel_fields x y : hrel x y ->
  kind_ y = kind_ x /\ watched y = watched x /\ reg y = reg x /\ lchild y = lchild x /\ lparent y = lparent x /\
  height x <= height y.
Proof. intros [-> H]. simpl. auto 10. Qed.

Lemma sent_notMap x : isSent x = true -> isMap x = false.
Proof. unfold isSent, isMap. destruct (kind_ x); auto; discriminate. Qed.

Lemma invW_sweep N l : InvW N l -> InvW N (sweep l).
Proof.
  intros HI. apply (invW_nonsent N l _ HI).
  - intros m Hs. apply sweep_hrel, sent_notMap, Hs.
  - intros m. apply hrel_fields, sweep_hrel.
Qed.

(** updates of a Var or Map that keep its registration and links and do not lower it *)
Lemma invW_upd_plain N l k g :
  InvW N l -> isSent (nd l k) = false ->
  (let x := nd l k in
   kind_ (g x) = kind_ x /\ watched (g x) = watched x /\ reg (g x) = reg x /\
   lchild (g x) = lchild x /\ lparent (g x) = lparent x /\ height x <= height (g x)) ->
  InvW N (upd l k g).
Proof.
  intros HI Hs Hg. apply (invW_nonsent N l _ HI).
  - intros m Hm. rewrite nd_upd. case_decide as Hd; auto. destruct Hd as [-> _]. congruence.
  - intros m. rewrite nd_upd. case_decide as Hd; auto 10. destruct Hd as [-> _]. apply Hg.
Qed.

Lemma nd_cons x t i : nd (x :: t) (S i) = nd t i.
Proof. reflexivity. Qed.

Lemma sentHeight_ge l k h0 : h0 <= sentHeight l k h0.
Proof.
  unfold sentHeight. revert h0. induction l as [|x t IH]; intros h0; simpl; [flia|].
  etransitivity; [|apply IH]. destruct (watches x k && (h0 <=? height x)) eqn:E; [|flia].
  apply andb_true_iff in E as [_ E]. apply Nat.leb_le in E. flia.
Qed.

Lemma sentHeight_gt l k h0 i :
  watches (nd l i) k = true -> height (nd l i) < sentHeight l k h0.
Proof.
  unfold sentHeight. revert h0 i. induction l as [|x t IH]; intros h0 i Hw.
  - rewrite nd_ge in Hw by (simpl; flia). discriminate.
  - simpl. destruct i as [|i].
    + change (nd (x :: t) 0) with x in *. rewrite Hw. simpl.
      eapply Nat.lt_le_trans; [|apply (sentHeight_ge t k)].
      destruct (h0 <=? height x) eqn:E; [flia|]. apply Nat.leb_gt in E. flia.
    + rewrite nd_cons in *. apply IH; auto.
Qed.

Lemma enter_eq l k hpar :
  enter head l k hpar =
  let l1 := enter1 (sentHeight l k hpar) l k in
  if isStale l1 k then upd l1 k (fun x => set_queued x true) else l1.
Proof. reflexivity. Qed.

Lemma enter1_static h l k m :
  kind_ (nd (enter1 h l k) m) = kind_ (nd l m) /\ watched (nd (enter1 h l k) m) = watched (nd l m).
Proof.
  unfold enter1. rewrite nd_imap. case_decide; [|rewrite nd_ge by flia; auto].
  destruct (m =? k); [simpl; auto|]. destruct (watches (nd l m) k); [|auto].
  destruct (negb (lparent (nd l m))); simpl; auto.
Qed.

Lemma enter_static l k hpar m :
  kind_ (nd (enter head l k hpar) m) = kind_ (nd l m) /\ watched (nd (enter head l k hpar) m) = watched (nd l m).
Proof.
  rewrite enter_eq. simpl. destruct (isStale _ k); [|apply enter1_static].
  rewrite nd_upd. case_decide; simpl; apply enter1_static.
Qed.

Lemma invW_enter N l k hpar :
  InvW N l -> isSent (nd l k) = false -> InvW N (enter head l k hpar).
Proof.
  intros HI Hs. rewrite enter_eq. simpl.
  assert (H1 : InvW N (enter1 (sentHeight l k hpar) l k)).
  { apply invW_enter1; auto. intros i Hi. apply sentHeight_gt, watches_spec, Hi. }
  destruct (isStale _ k); auto.
  apply invW_upd_plain; auto.
  - unfold isSent in *. rewrite (proj1 (enter1_static _ _ _ _)). auto.
  - simpl. auto 10.
Qed.

Lemma bnr_static fuel : forall l k m,
  kind_ (nd (bnr head fuel l k) m) = kind_ (nd l m) /\ watched (nd (bnr head fuel l k) m) = watched (nd l m).
Proof.
  induction fuel as [|fuel IH]; intros l k m; simpl; auto.
  destruct (kind_ (nd l k)); auto; [apply enter_static|].
  destruct (isNecessary l a); [apply enter_static|].
  destruct (enter_static (bnr head fuel l a) k (S (height (nd (bnr head fuel l a) a))) m) as [-> ->]. apply IH.
Qed.

Lemma invW_bnr N fuel : forall l k,
  InvW N l -> isSent (nd l k) = false -> InvW N (bnr head fuel l k).
Proof.
  induction fuel as [|fuel IH]; intros l k HI Hs; simpl; auto.
  destruct (kind_ (nd l k)) eqn:Ek; auto; [apply invW_enter; auto|].
  destruct (i_kmap _ (i_static _ _ HI) k f a Ek) as [_ Ha].
  destruct (isNecessary l a); [apply invW_enter; auto|].
  apply invW_enter; auto. unfold isSent in *. rewrite (proj1 (bnr_static _ _ _ _)). auto.
Qed.

Lemma zero_static l k m :
  kind_ (nd (zero head l k) m) = kind_ (nd l m) /\ watched (nd (zero head l k) m) = watched (nd l m).
Proof.
  unfold zero. rewrite nd_imap. case_decide; [|rewrite nd_ge by flia; auto].
  destruct (m =? k); [simpl; auto|]. destruct (watches (nd l m) k); simpl; auto.
Qed.

Lemma invW_bun N fuel : forall l k,
  InvW N l -> isSent (nd l k) = false -> InvW N (bun head fuel l k).
Proof.
  induction fuel as [|fuel IH]; intros l k HI Hs; simpl; auto.
  destruct (negb (reg (nd l k))); auto.
  pose proof (invW_zero N l k HI Hs) as H1.
  destruct (kind_ (nd l k)) eqn:Ek; auto.
  destruct (i_kmap _ (i_static _ _ HI) k f a Ek) as [_ Ha].
  destruct (isNecessary _ a); auto. apply IH; auto.
  unfold isSent in *. rewrite (proj1 (zero_static _ _ _)). auto.
Qed.

Lemma invW_Observe N l k : InvW N l -> InvW N (Observe head l k).
Proof.
  intros HI. unfold Observe. destruct (k <? length l); cbn [andb]; auto.
  destruct (isSent (nd l k)) eqn:Hs; cbn [negb]; auto.
  generalize (S k). intros fuel.
  assert (H1 : InvW N (if isNecessary l k then l else bnr head fuel l k)).
  { destruct (isNecessary l k); auto. apply invW_bnr; auto. }
  apply invW_upd_plain; auto; [|simpl; auto 10].
  destruct (isNecessary l k); auto. unfold isSent in *. rewrite (proj1 (bnr_static _ _ _ _)). auto.
Qed.

Lemma invW_Unobserve N l k : InvW N l -> InvW N (Unobserve head l k).
Proof.
  intros HI. unfold Unobserve. destruct (isSent (nd l k)) eqn:Hs; auto.
  destruct (obs (nd l k)); auto.
  assert (H1 : InvW N (upd l k (fun x => set_obs x n))) by (apply invW_upd_plain; simpl; auto 10).
  destruct (isNecessary _ k); auto. apply invW_bun; auto.
  rewrite nd_upd. case_decide; auto.
Qed.

Lemma invW_SetVar s k v : InvW (num s) (nodes s) -> InvW (num s) (SetVar s k v).
Proof.
  intros HI. unfold SetVar. destruct (kind_ (nd (nodes s) k)) eqn:Ek; auto.
  assert (Hs : isSent (nd (nodes s) k) = false) by (unfold isSent; rewrite Ek; auto).
  assert (H1 : InvW (num s) (upd (nodes s) k (fun x => set_val x v))) by (apply invW_upd_plain; simpl; auto 10).
  destruct (isNecessary _ k && reg _); auto.
  apply invW_upd_plain; simpl; auto 10. rewrite nd_upd. case_decide; auto.
Qed.

Lemma bump_length l i : length (bump l i) = length l.
Proof.
  unfold bump. destruct (kind_ (nd l i)); auto. destruct (_ && _); auto. apply upd_length.
Qed.
Lemma sweep_length l : length (sweep l) = length l.
Proof.
  unfold sweep. generalize (seq 0 (length l)). intros is. revert l.
  induction is as [|i is IH]; intros l; simpl; auto. rewrite IH. apply bump_length.
Qed.

Lemma invW_NewSentinel N l w : InvW N l -> InvW N (NewSentinel head l w).
Proof.
  intros HI. unfold NewSentinel. destruct (w <? length l) eqn:Hw; simpl; auto.
  destruct (isSent (nd l w)) eqn:Hs; simpl; auto. apply Nat.ltb_lt in Hw.
  destruct (reg (nd l w)) eqn:Hr; simpl.
  - destruct (height (nd l w) <=? 0) eqn:Hh.
    + set (l1 := upd l w (fun y => set_height y 1)).
      assert (H1 : InvW N l1).
      { apply invW_upd_plain; auto. simpl. apply Nat.leb_le in Hh. repeat split; auto; flia. }
      assert (H2 : InvW N (sweep l1)) by (apply invW_sweep; auto).
      destruct (sweep_hrel l1 w) as [Hrel _]. apply hrel_fields in Hrel as (Hk&_&Hr'&_&_&Hh').
      assert (nd l1 w = set_height (nd l w) 1) as Hl1.
      { unfold l1. rewrite nd_upd. case_decide; auto. tauto. }
      rewrite Hl1 in *. simpl in *.
      assert (length (sweep l1) = length l) as Hlen.
      { rewrite sweep_length. apply upd_length. }
      apply invW_app; auto. split; simpl; auto. rewrite Hlen. unfold isSent. rewrite Hk, Hr'.
      simpl. repeat split; auto; flia.
    + apply Nat.leb_gt in Hh. apply invW_app; auto. split; simpl; auto. repeat split; auto; flia.
  - apply invW_app; auto. split; simpl; auto. repeat split; auto; congruence.
Qed.

Lemma invW_NewVar N l v : InvW N l -> InvW N (NewVar l v).
Proof. intros HI. apply invW_app; auto. split; simpl; auto. Qed.

Lemma invW_NewMap N l g k : InvW N l -> InvW N (NewMap l g k).
Proof.
  intros HI. unfold NewMap. destruct (k <? length l) eqn:E1; simpl; auto.
  destruct (isSent (nd l k)) eqn:E2; simpl; auto. apply Nat.ltb_lt in E1.
  apply invW_app; auto. split; simpl; auto.
Qed.

Lemma invW_queueKids N M l k : InvW N l -> InvW N (queueKids M k l).
Proof.
  intros HI. apply (invW_nonsent N l _ HI); unfold queueKids.
  - intros m Hs. rewrite nd_imap. case_decide; [|rewrite nd_ge by flia; auto].
    unfold isSent, isMapOf in *. destruct (kind_ (nd l m)); try discriminate. auto.
  - intros m. rewrite nd_imap. case_decide; [|rewrite nd_ge by flia; simpl; auto 10].
    destruct (_ && _); simpl; auto 10.
Qed.

Lemma invW_stepNode N fires l k g : InvW N l -> InvW N (fst (stepNode N fires l k g)).
Proof.
  intros HI. unfold stepNode. destruct (kind_ (nd l k)) eqn:Ek; simpl.
  - apply invW_queueKids, invW_upd_plain; auto; [unfold isSent; rewrite Ek; auto|simpl; auto 10].
  - apply invW_queueKids, invW_upd_plain; auto; [unfold isSent; rewrite Ek; auto|simpl; auto 10].
  - assert (H1 : InvW N (upd l k (fun x => ran x N (inb k fires) (val x)))).
    { apply invW_ran_sent; auto. unfold isSent; rewrite Ek; auto. }
    destruct (inb k fires && lchild (nd l k)); simpl; auto.
    destruct (watched (nd l k)) as [w|]; simpl; auto.
    match goal with |- context [if ?c then _ else _] => destruct c eqn:E end; simpl; auto.
    apply invW_upd_plain; auto; [|simpl; auto 10].
    apply andb_true_iff in E as [E _]. apply andb_true_iff in E as [E _]. apply andb_true_iff in E as [E _].
    unfold isMap, isSent in *. destruct (kind_ (nd _ w)); auto; discriminate.
Qed.

Lemma invW_stabLoop N fires fuel : forall l g,
  InvW N l -> InvW N (fst (stabLoop fuel N fires l g)).
Proof.
  induction fuel as [|fuel IH]; intros l g HI; simpl; auto.
  destruct (pick l) as [k|]; simpl; auto.
  pose proof (invW_stepNode N fires l k g HI) as H1.
  destruct (stepNode N fires l k g) as [l' g']. simpl in *. apply IH; auto.
Qed.

(** a pass stopped by failing predicates *)
Lemma invW_panicked N l k :
  InvW N l -> queued (nd l k) = true -> InvW N (upd l k panicked_).
Proof.
  intros HI Hq. apply (invW_pw N N l _ HI).
  - intros m. rewrite nd_upd. case_decide; simpl; auto.
  - intros x w Hw (H1 & H2 & H3 & H4). unfold watch_ok. rewrite !nd_upd.
    destruct (decide (x = k /\ x < length l)) as [[-> _]|_]; simpl;
      (destruct (decide (w = k /\ w < length l)) as [[-> _]|_]; simpl);
      (split; [auto|]; split; [auto|]; split; [auto|]); intros Hr; destruct (H4 Hr) as (?&?&?); auto.
  - intros x Hw (H1 & H2 & H3). unfold unwatched_ok. rewrite !nd_upd. case_decide; simpl; auto.
Qed.

Lemma invW_runListed N fires skip lg k :
  InvW N (fst lg) -> InvW N (fst (runListed N fires skip lg k)).
Proof. intros HI. unfold runListed. destruct (_ && _); auto. apply invW_stepNode; auto. Qed.

Lemma invW_failStep N pan lg x : InvW N (fst lg) -> InvW N (fst (failStep head pan lg x)).
Proof.
  intros HI. unfold failStep. destruct (queued (nd (fst lg) x)) eqn:Eq; simpl; auto.
  destruct (isSent _); simpl; auto. destruct pan; auto. apply invW_panicked; auto.
Qed.

Lemma fold_inv {A B} (P : A -> Prop) (f : A -> B -> A) (bs : list B) :
  (forall a b, P a -> P (f a b)) -> forall a, P a -> P (fold_left f bs a).
Proof. intros H. induction bs as [|b bs IH]; intros a Ha; simpl; auto. Qed.

Lemma invW_stoppedLoop N fires ran failed panicked l :
  InvW N l -> InvW N (fst (stoppedLoop head N fires ran failed panicked l)).
Proof.
  intros HI. unfold stoppedLoop.
  apply (fold_inv (fun lg => InvW N (fst lg))); [intros; apply invW_failStep; auto|].
  apply (fold_inv (fun lg => InvW N (fst lg))); [intros; apply invW_failStep; auto|].
  apply (fold_inv (fun lg => InvW N (fst lg))); [intros; apply invW_runListed; auto|]. auto.
Qed.

Lemma invW_step s o :
  InvW (num s) (nodes s) ->
  InvW (num (fst (step head s o))) (nodes (fst (step head s o))).
Proof.
  intros HI. destruct o; simpl.
  - apply invW_NewVar; auto.
  - apply invW_NewMap; auto.
  - apply invW_NewSentinel; auto.
  - apply invW_Observe; auto.
  - apply invW_Unobserve; auto.
  - apply invW_SetVar; auto.
  - apply invW_Unwatch; auto.
  - unfold Stabilize. pose proof (invW_stabLoop (num s) fires (length (nodes s)) (nodes s) plog0 HI) as H1.
    destruct (stabLoop _ _ _ _ _) as [l g]. simpl in *. apply invW_requeue; auto.
  - apply invW_requeue, invW_stoppedLoop; auto.
Qed.

Lemma invW_run ops : forall s,
  InvW (num s) (nodes s) -> InvW (num (run head s ops)) (nodes (run head s ops)).
Proof.
  induction ops as [|o ops IH]; intros s HI; simpl; auto.
  apply IH, invW_step, HI.
Qed.


(** * Stamps stay below the pass number *)
Definition slt (B : nat) (x : node) : Prop := rAt x < B /\ cAt x < B.
Definition Stamps (B : nat) (l : list node) : Prop := forall m, slt B (nd l m).

Lemma stamps_imap B g l :
  0 < B -> (forall i x, slt B x -> slt B (g i x)) -> Stamps B l -> Stamps B (imap g l).
Proof.
  intros HB Hg H m. rewrite nd_imap. case_decide; auto. split; simpl; auto.
Qed.

Lemma stamps_app B l y : 0 < B -> slt B y -> Stamps B l -> Stamps B (l ++ [y]).
Proof.
  intros HB Hy H m. rewrite nd_app. repeat case_decide; auto. split; simpl; auto.
Qed.

Lemma stamps_mono B B' l : B <= B' -> Stamps B l -> Stamps B' l.
Proof. intros HB H m. destruct (H m). split; flia. Qed.

Ltac st_imap := apply stamps_imap; [first [assumption|flia] | intros i x [? ?]; repeat case_match; split; simpl; repeat case_match; auto; flia | auto].

Lemma stamps_enter B l k hpar : 0 < B -> Stamps B l -> Stamps B (enter head l k hpar).
Proof.
  intros HB H. rewrite enter_eq. simpl.
  assert (H1 : Stamps B (enter1 (sentHeight l k hpar) l k)) by (unfold enter1; st_imap).
  destruct (isStale _ k); auto. unfold upd. st_imap.
Qed.

Lemma stamps_bnr B fuel : forall l k, 0 < B -> Stamps B l -> Stamps B (bnr head fuel l k).
Proof.
  induction fuel as [|fuel IH]; intros l k HB H; simpl; auto.
  destruct (kind_ (nd l k)); auto; [apply stamps_enter; auto|].
  destruct (isNecessary l a); apply stamps_enter; auto.
Qed.

Lemma stamps_bun B fuel : forall l k, 0 < B -> Stamps B l -> Stamps B (bun head fuel l k).
Proof.
  induction fuel as [|fuel IH]; intros l k HB H; simpl; auto.
  destruct (negb (reg (nd l k))); auto.
  assert (H1 : Stamps B (zero head l k)) by (unfold zero; st_imap).
  destruct (kind_ (nd l k)); auto. destruct (isNecessary _ a); auto.
Qed.

Lemma stamps_sweep B l : 0 < B -> Stamps B l -> Stamps B (sweep l).
Proof.
  intros HB H m. destruct (sweep_hrel l m) as [[Hr _] _]. rewrite Hr. apply H.
Qed.

Lemma stamps_stepNode N fires l k g : Stamps (S N) l -> Stamps (S N) (fst (stepNode N fires l k g)).
Proof.
  intros H. unfold stepNode. destruct (kind_ (nd l k)); simpl.
  - unfold queueKids, upd. st_imap. st_imap.
  - unfold queueKids, upd. st_imap. st_imap.
  - assert (H1 : Stamps (S N) (upd l k (fun x => ran x N (inb k fires) (val x)))) by (unfold upd; st_imap).
    destruct (inb k fires && lchild (nd l k)); simpl; auto.
    destruct (watched (nd l k)) as [w|]; simpl; auto.
    match goal with |- context [if ?c then _ else _] => destruct c eqn:E end; simpl; auto.
    unfold upd. st_imap.
Qed.

Lemma stamps_stabLoop N fires fuel : forall l g,
  Stamps (S N) l -> Stamps (S N) (fst (stabLoop fuel N fires l g)).
Proof.
  induction fuel as [|fuel IH]; intros l g HI; simpl; auto.
  destruct (pick l) as [k|]; simpl; auto.
  pose proof (stamps_stepNode N fires l k g HI) as H1.
  destruct (stepNode N fires l k g) as [l' g']. simpl in *. apply IH; auto.
Qed.

Lemma stamps_stoppedLoop N fires ran failed panicked l :
  Stamps (S N) l -> Stamps (S N) (fst (stoppedLoop head N fires ran failed panicked l)).
Proof.
  intros HS. unfold stoppedLoop.
  assert (Hf : forall pan lg k, Stamps (S N) (fst lg) -> Stamps (S N) (fst (failStep head pan lg k))).
  { intros pan lg k H. unfold failStep. destruct (_ && _); simpl; auto. destruct pan; auto. unfold upd. st_imap. }
  apply (fold_inv (fun lg => Stamps (S N) (fst lg))); [intros; apply Hf; auto|].
  apply (fold_inv (fun lg => Stamps (S N) (fst lg))); [intros; apply Hf; auto|].
  apply (fold_inv (fun lg => Stamps (S N) (fst lg))); [|auto].
  intros lg k H. unfold runListed. destruct (_ && _); auto. apply stamps_stepNode; auto.
Qed.

Lemma stamps_step s o :
  0 < num s -> Stamps (num s) (nodes s) ->
  0 < num (fst (step head s o)) /\ Stamps (num (fst (step head s o))) (nodes (fst (step head s o))).
Proof.
  intros HB HI. destruct o as [v|f a|w|n|n|n v|xx|fires|fires ran failed panicked]; simpl; [split; [assumption|]..| |].
  - apply stamps_app; auto. split; simpl; auto.
  - unfold NewMap. destruct (_ && _); auto. apply stamps_app; auto. split; simpl; auto.
  - unfold NewSentinel. destruct (_ && _); auto. apply stamps_app; auto; [split; simpl; auto|].
    destruct (_ && _); auto. apply stamps_sweep; auto. unfold upd. st_imap.
  - unfold Observe. destruct (_ && _); auto. unfold upd. apply stamps_imap; auto.
    + intros i x [? ?]; repeat case_match; split; simpl; auto.
    + destruct (isNecessary _ n); auto. apply stamps_bnr; auto.
  - unfold Unobserve. destruct (isSent _); auto. destruct (obs _); auto.
    assert (Stamps (num s) (upd (nodes s) n (fun x => set_obs x n0))) by (unfold upd; st_imap).
    destruct (isNecessary _ n); auto. apply stamps_bun; auto.
  - unfold SetVar. destruct (kind_ _); auto.
    assert (Stamps (num s) (upd (nodes s) n (fun x => set_val x v))) by (unfold upd; st_imap).
    destruct (_ && _); auto. unfold upd. st_imap.
  - unfold Unwatch. destruct (_ && _); auto. unfold upd. st_imap.
  - unfold Stabilize. pose proof (stamps_stabLoop (num s) fires (length (nodes s)) (nodes s) plog0) as H1.
    destruct (stabLoop _ _ _ _ _) as [l g]. simpl in *. split; [flia|]. unfold requeue. apply stamps_imap; [flia| |].
    + intros i x [? ?]; repeat case_match; split; simpl; auto.
    + apply H1. eapply stamps_mono; [|eauto]. flia.
  - split; [flia|]. unfold requeue. apply stamps_imap; [flia| |].
    + intros i x [? ?]; repeat case_match; split; simpl; auto.
    + apply stamps_stoppedLoop. eapply stamps_mono; [|eauto]. flia.
Qed.

Lemma stamps_run ops : forall s,
  0 < num s -> Stamps (num s) (nodes s) ->
  0 < num (run head s ops) /\ Stamps (num (run head s ops)) (nodes (run head s ops)).
Proof.
  induction ops as [|o ops IH]; intros s HB HI; simpl; auto.
  destruct (stamps_step s o HB HI). apply IH; auto.
Qed.

Lemma stamps_init : Stamps 1 [].
Proof. intros m. rewrite nd_ge by (simpl; flia). split; simpl; flia. Qed.

(** * Theorem 1: the watch edge at every operation boundary *)
Theorem watch_edge_invariant ops x : watch_stmt head ops x.
Proof.
  unfold watch_stmt. set (l := nodes (run head init ops)). pose proof (invW_run ops init invW_init) as HI.
  destruct (stamps_run ops init) as [_ HS]; [simpl; flia|apply stamps_init|].
  fold l in HI, HS. destruct (watched (nd l x)) as [w|] eqn:Hw.
  - destruct (i_sent _ _ HI x w Hw) as (H1 & H2 & H3 & H4).
    destruct (i_wk _ (i_static _ _ HI) x w Hw) as [H5 H6].
    split; [auto|]. split.
    { destruct (isSent (nd l x)) eqn:E; auto. rewrite (i_plain _ (i_static _ _ HI) x E) in Hw. discriminate. }
    split; [auto|]. split; [auto|]. split; [auto|]. split; [auto|].
    intros Hr. destruct (H4 Hr) as (H7 & H8 & H9).
    split; [congruence|]. split; [auto|]. split; [auto|].
    destruct H9 as [?|H9]; auto. destruct (HS x) as [Hlt _]. exfalso. flia.
  - apply (i_unw _ _ HI x Hw).
Qed.

(** * The pass *)

Lemma pick_from_None l : forall i, pick_from l i = None -> forall m, queued (nd l m) = false.
Proof.
  induction l as [|x t IH]; intros i E m.
  - rewrite nd_ge by (simpl; flia). auto.
  - simpl in E. destruct (pick_from t (S i)) as [[? ?]|] eqn:E2.
    + destruct (queued x); [destruct (_ <=? _)|]; discriminate.
    + destruct (queued x) eqn:Ex; [discriminate|]. destruct m as [|m]; [auto|]. rewrite nd_cons. eauto.
Qed.

Lemma pick_from_spec l : forall i k h,
  pick_from l i = Some (k, h) ->
  i <= k /\ k - i < length l /\ queued (nd l (k - i)) = true /\ h = height (nd l (k - i)) /\
  (forall m, queued (nd l m) = true -> h <= height (nd l m)).
Proof.
  induction l as [|x t IH]; intros i k h; simpl; [discriminate|].
  destruct (pick_from t (S i)) as [[j hj]|] eqn:E.
  - destruct (IH _ _ _ E) as (H1 & H2 & H3 & H4 & H5).
    assert (Hj : j - i = S (j - S i)) by flia.
    destruct (queued x) eqn:Eq.
    + destruct (height x <=? hj) eqn:El; intros Heq; inversion Heq; subst.
      * apply Nat.leb_le in El. rewrite Nat.sub_diag. change (nd (x :: t) 0) with x.
        repeat split; auto; try flia. intros [|m]; [auto|]. rewrite nd_cons. intros Hm.
        apply H5 in Hm. flia.
      * apply Nat.leb_gt in El. rewrite Hj, nd_cons. repeat split; auto; try flia.
        intros [|m]; [change (nd (x :: t) 0) with x; flia|]. rewrite nd_cons. auto.
    + intros Heq; inversion Heq; subst. rewrite Hj, nd_cons. repeat split; auto; try flia.
      intros [|m]; [change (nd (x :: t) 0) with x; congruence|]. rewrite nd_cons. auto.
  - destruct (queued x) eqn:Eq; [|discriminate]. intros Heq; inversion Heq; subst.
    rewrite Nat.sub_diag. change (nd (x :: t) 0) with x. repeat split; auto; try flia.
    intros [|m]; [auto|]. rewrite nd_cons. intros Hm. rewrite (pick_from_None _ _ E m) in Hm. discriminate.
Qed.

Lemma pick_Some l k :
  pick l = Some k ->
  k < length l /\ queued (nd l k) = true /\
  (forall m, queued (nd l m) = true -> height (nd l k) <= height (nd l m)).
Proof.
  unfold pick. destruct (pick_from l 0) as [[j h]|] eqn:E; simpl; [|discriminate].
  intros Heq; inversion Heq; subst. destruct (pick_from_spec _ _ _ _ E) as (H1 & H2 & H3 & H4 & H5).
  rewrite Nat.sub_0_r in *. subst. auto.
Qed.

Lemma pick_None l : pick l = None -> forall m, queued (nd l m) = false.
Proof.
  unfold pick. destruct (pick_from l 0) as [[j h]|] eqn:E; simpl; [discriminate|]. intros _.
  eapply pick_from_None; eauto.
Qed.

(** what one step of the pass does to node [m] *)
Definition same_frame (x y : node) : Prop :=
  kind_ y = kind_ x /\ watched y = watched x /\ reg y = reg x /\ lchild y = lchild x /\
  lparent y = lparent x /\ height y = height x /\ obs y = obs x.

Definition stepped (N : nat) (k : nid) (l l' : list node) : Prop :=
  length l' = length l /\
  forall m,
    same_frame (nd l m) (nd l' m) /\
    rAt (nd l' m) = (if decide (m = k) then N else rAt (nd l m)) /\
    (queued (nd l' m) = true ->
       m <> k /\ (queued (nd l m) = true \/
                  (rAt (nd l m) < N /\ isMap (nd l m) = true /\ reg (nd l m) = true))) /\
    (m <> k -> queued (nd l m) = true -> queued (nd l' m) = true) /\
    (m <> k -> val (nd l' m) = val (nd l m) /\ cAt (nd l' m) = cAt (nd l m)).

Lemma same_frame_refl x : same_frame x x.
Proof. unfold same_frame; auto 10. Qed.

Lemma ran_stepped N k l c v :
  k < length l -> stepped N k l (upd l k (fun x => ran x N c (v x))).
Proof.
  intros Hk. split; [apply upd_length|]. intros m. rewrite nd_upd.
  destruct (decide (m = k)) as [->|Hne].
  - case_decide; [|tauto]. simpl. unfold same_frame; simpl. repeat split; auto; try discriminate; tauto.
  - case_decide; [tauto|]. repeat split; auto; try apply same_frame_refl.
Qed.

(** queueing Maps that have not run in this pass, after the step *)
Lemma queue_stepped N k l l1 (cond : nat -> node -> bool) :
  stepped N k l l1 ->
  (forall i, cond i (nd l1 i) = true -> i <> k /\ isMap (nd l1 i) = true /\ reg (nd l1 i) = true /\ rAt (nd l1 i) < N) ->
  stepped N k l (imap (fun i x => if cond i x then set_queued x true else x) l1).
Proof.
  intros [Hl H] Hc. split; [rewrite imap_length; auto|]. intros m.
  destruct (H m) as (Hf & Hr & Hq1 & Hq2 & Hv). rewrite nd_imap.
  destruct (decide (m < length l1)) as [Hm|Hm]; [|pose proof (nd_ge l1 m ltac:(flia)) as E0; rewrite E0 in Hf, Hr, Hq1, Hq2, Hv; exact (conj Hf (conj Hr (conj Hq1 (conj Hq2 Hv))))].
  destruct (cond m (nd l1 m)) eqn:E; [|exact (conj Hf (conj Hr (conj Hq1 (conj Hq2 Hv))))].
  destruct (Hc m E) as (Hne & Hmap & Hreg & Hlt). simpl.
  destruct Hf as (F1&F2&F3&F4&F5&F6&F7). destruct (decide (m = k)); [congruence|].
  split; [unfold same_frame; simpl; auto 10|]. split; [auto|]. split; [|split; auto].
  intros _. split; auto. right. unfold isMap in *. rewrite <- F1, <- F3, <- Hr. auto.
Qed.

Lemma isMapOf_isMap x k : isMapOf x k = true -> isMap x = true.
Proof. unfold isMap, isMapOf. destruct (kind_ x); auto. Qed.

Lemma stepNode_stepped N fires l k g :
  k < length l -> stepped N k l (fst (stepNode N fires l k g)).
Proof.
  intros Hk. unfold stepNode. destruct (kind_ (nd l k)) eqn:Ek; simpl.
  - unfold queueKids. apply (queue_stepped N k l _ (fun _ x => isMapOf x k && reg x && negb (queued x) && (rAt x <? N))).
    + apply (ran_stepped N k l true val); auto.
    + intros i E. repeat (apply andb_true_iff in E as [E ?]). apply Nat.ltb_lt in H.
      split; [|split; [|split]]; auto.
      * intros ->. rewrite nd_upd in H. case_decide; [simpl in H; flia|tauto].
      * eapply isMapOf_isMap; eauto.
  - unfold queueKids. apply (queue_stepped N k l _ (fun _ x => isMapOf x k && reg x && negb (queued x) && (rAt x <? N))).
    + apply (ran_stepped N k l true (fun _ => apply f (val (nd l a)))); auto.
    + intros i E. repeat (apply andb_true_iff in E as [E ?]). apply Nat.ltb_lt in H.
      split; [|split; [|split]]; auto.
      * intros ->. rewrite nd_upd in H. case_decide; [simpl in H; flia|tauto].
      * eapply isMapOf_isMap; eauto.
  - pose proof (ran_stepped N k l (inb k fires) val Hk) as H1.
    destruct (inb k fires && lchild (nd l k)); simpl; auto.
    destruct (watched (nd l k)) as [w|]; simpl; auto.
    match goal with |- context [if ?c then _ else _] => destruct c eqn:E end; simpl; auto.
    unfold upd. apply (queue_stepped N k l _ (fun i _ => i =? w)); auto.
    intros i Ei. apply Nat.eqb_eq in Ei. subst i.
    repeat (apply andb_true_iff in E as [E ?]). apply Nat.ltb_lt in H.
    split; [|split; [|split]]; auto.
    intros ->. rewrite nd_upd in H. case_decide; [simpl in H; flia|tauto].
Qed.

Lemma pigeon (xs : list nat) n : NoDup xs -> (forall x, x ∈ xs -> x < n) -> length xs <= n.
Proof.
  intros Hnd Hlt. rewrite <- (seq_length n 0). apply submseteq_length, NoDup_submseteq; auto.
  intros x Hx. apply elem_of_seq. apply Hlt in Hx. flia.
Qed.

(** the loop runs until nothing is queued: every node is taken at most once per pass, so
    [length l] rounds are enough *)
Lemma loop_generic (P : list node -> plog -> Prop) N fires :
  (forall l g k, P l g -> pick l = Some k ->
     P (fst (stepNode N fires l k g)) (snd (stepNode N fires l k g))) ->
  (forall l g m, P l g -> queued (nd l m) = true -> rAt (nd l m) < N) ->
  forall fuel l g popped,
    P l g -> NoDup popped -> (forall p, p ∈ popped -> p < length l /\ rAt (nd l p) = N) ->
    length l <= length popped + fuel ->
    P (fst (stabLoop fuel N fires l g)) (snd (stabLoop fuel N fires l g)) /\
    pick (fst (stabLoop fuel N fires l g)) = None.
Proof.
  intros Hstep Hq. induction fuel as [|fuel IH]; intros l g popped HP Hnd Hpop Hlen.
  - simpl. split; auto. destruct (pick l) as [k|] eqn:Ek; auto. exfalso.
    destruct (pick_Some _ _ Ek) as (Hk & Hqk & _). pose proof (Hq _ _ _ HP Hqk) as Hr.
    assert (Hnot : k ∉ popped). { intros Hin. destruct (Hpop _ Hin). flia. }
    assert (length (k :: popped) <= length l).
    { apply pigeon; [constructor; auto|]. intros x Hx. apply elem_of_cons in Hx as [->|Hx]; auto. apply Hpop; auto. }
    simpl in *. flia.
  - simpl. destruct (pick l) as [k|] eqn:Ek; [|simpl; auto].
    destruct (pick_Some _ _ Ek) as (Hk & Hqk & _). pose proof (Hq _ _ _ HP Hqk) as Hr.
    pose proof (Hstep _ _ _ HP Ek) as HP'. pose proof (stepNode_stepped N fires l k g Hk) as [Hl Hs].
    destruct (stepNode N fires l k g) as [l' g']. simpl in *.
    assert (Hnot : k ∉ popped). { intros Hin. destruct (Hpop _ Hin). flia. }
    apply (IH l' g' (k :: popped)); auto.
    + constructor; auto.
    + intros p Hp. rewrite Hl. destruct (Hs p) as (_ & Hrp & _). rewrite Hrp.
      apply elem_of_cons in Hp as [->|Hp].
      * split; auto. case_decide; auto. congruence.
      * destruct (Hpop _ Hp). split; auto. case_decide; auto.
    + rewrite Hl. simpl. flia.
Qed.

(** the log of one step *)
Lemma stepNode_log N fires l k g :
  exists arg,
    runs (snd (stepNode N fires l k g)) = runs g ++ (if isMap (nd l k) then [(k, arg)] else []) /\
    evals (snd (stepNode N fires l k g)) = evals g ++ (if isSent (nd l k) then [k] else []).
Proof.
  unfold stepNode, isMap, isSent. destruct (kind_ (nd l k)) eqn:Ek; simpl.
  - exists 0%Z. rewrite !app_nil_r. auto.
  - exists (val (nd l a)). rewrite !app_nil_r. auto.
  - exists 0%Z. rewrite !app_nil_r.
    destruct (inb k fires && lchild (nd l k)); simpl; auto.
    destruct (watched (nd l k)); simpl; auto.
    match goal with |- context [if ?c then _ else _] => destruct c end; simpl; auto.
Qed.

Lemma count_runs_app m g arg k (b : bool) :
  length (filter (fun r : nid * Z => fst r = m) (runs g ++ (if b then [(k, arg)] else []))) =
  count_runs m g + (if b && (k =? m) then 1 else 0).
Proof.
  unfold count_runs. rewrite list.filter_app, app_length. f_equal.
  destruct b; simpl; auto. rewrite list.filter_cons, list.filter_nil. simpl.
  destruct (Nat.eqb_spec k m); case_decide; simpl; auto; congruence.
Qed.

Lemma count_evals_app m g k (b : bool) :
  length (filter (fun e : nid => e = m) (evals g ++ (if b then [k] else []))) =
  count_evals m g + (if b && (k =? m) then 1 else 0).
Proof.
  unfold count_evals. rewrite list.filter_app, app_length. f_equal.
  destruct b; simpl; auto. rewrite list.filter_cons, list.filter_nil. simpl.
  destruct (Nat.eqb_spec k m); case_decide; simpl; auto; congruence.
Qed.

(** the loop invariant of pass [N] *)
Record P0 (N : nat) (l : list node) (g : plog) : Prop := {
  p_stamps : Stamps (S N) l;
  p_invW : InvW N l;
  p_queued : forall m, queued (nd l m) = true -> rAt (nd l m) < N;
  p_runs : forall m, count_runs m g = if isMap (nd l m) && (rAt (nd l m) =? N) then 1 else 0;
  p_evals : forall m, count_evals m g = if isSent (nd l m) && (rAt (nd l m) =? N) then 1 else 0
}.

Lemma P0_start N l : Stamps N l -> InvW N l -> P0 N l plog0.
Proof.
  intros HS HI. constructor; auto.
  - eapply stamps_mono; [|eauto]. flia.
  - intros m _. apply HS.
  - intros m. destruct (HS m) as [Hr _]. destruct (Nat.eqb_spec (rAt (nd l m)) N); [flia|].
    rewrite andb_false_r. reflexivity.
  - intros m. destruct (HS m) as [Hr _]. destruct (Nat.eqb_spec (rAt (nd l m)) N); [flia|].
    rewrite andb_false_r. reflexivity.
Qed.

Lemma P0_step N fires l g k :
  P0 N l g -> pick l = Some k ->
  P0 N (fst (stepNode N fires l k g)) (snd (stepNode N fires l k g)).
Proof.
  intros [HS HI Hq Hr He] Ek. destruct (pick_Some _ _ Ek) as (Hk & Hqk & _).
  pose proof (Hq _ Hqk) as Hrk.
  pose proof (stepNode_stepped N fires l k g Hk) as [Hl Hs].
  destruct (stepNode_log N fires l k g) as (arg & Hruns & Hevals).
  constructor.
  - apply stamps_stepNode; auto.
  - apply invW_stepNode; auto.
  - intros m Hm. destruct (Hs m) as (_ & Hrm & Hq1 & _). destruct (Hq1 Hm) as [Hne [H|[H _]]].
    + rewrite Hrm. case_decide; [congruence|]. auto.
    + rewrite Hrm. case_decide; [congruence|]. auto.
  - intros m. unfold count_runs. rewrite Hruns, count_runs_app, Hr.
    destruct (Hs m) as ((Hkind & _) & Hrm & _). unfold isMap at 3. rewrite Hkind, Hrm. fold (isMap (nd l m)).
    destruct (Nat.eqb_spec k m) as [->|Hne].
    + case_decide; [|congruence]. rewrite Nat.eqb_refl.
      destruct (Nat.eqb_spec (rAt (nd l m)) N); [flia|]. rewrite !andb_false_r, !andb_true_r.
      destruct (isMap (nd l m)); auto.
    + case_decide; [congruence|]. rewrite andb_false_r. flia.
  - intros m. unfold count_evals. rewrite Hevals, count_evals_app, He.
    destruct (Hs m) as ((Hkind & _) & Hrm & _). unfold isSent at 3. rewrite Hkind, Hrm. fold (isSent (nd l m)).
    destruct (Nat.eqb_spec k m) as [->|Hne].
    + case_decide; [|congruence]. rewrite Nat.eqb_refl.
      destruct (Nat.eqb_spec (rAt (nd l m)) N); [flia|]. rewrite !andb_false_r, !andb_true_r.
      destruct (isSent (nd l m)); auto.
    + case_decide; [congruence|]. rewrite andb_false_r. flia.
Qed.

Lemma inb_true k l : inb k l = true <-> k ∈ l.
Proof.
  unfold inb. rewrite existsb_exists. split.
  - intros (y & Hin & Hy). apply Nat.eqb_eq in Hy. subst. apply elem_of_list_In; auto.
  - intros Hin. exists k. split; [apply elem_of_list_In; auto|apply Nat.eqb_refl].
Qed.

(** a firing sentinel wakes the Map it watches *)
Lemma stepNode_wake N fires l x w g :
  kind_ (nd l x) = KSent -> inb x fires = true -> lchild (nd l x) = true ->
  watched (nd l x) = Some w -> w <> x -> isMap (nd l w) = true -> reg (nd l w) = true ->
  rAt (nd l w) <= N ->
  let l' := fst (stepNode N fires l x g) in
  queued (nd l' w) = true \/ rAt (nd l' w) = N.
Proof.
  intros Hk Hf Hc Hw Hne Hm Hr Hle. unfold stepNode. rewrite Hk, Hf, Hc, Hw. simpl.
  assert (E : nd (upd l x (fun y => ran y N true (val y))) w = nd l w).
  { rewrite nd_upd. case_decide as Hd; [destruct Hd; congruence|auto]. }
  rewrite E, Hm, Hr. simpl.
  destruct (queued (nd l w)) eqn:Eq; simpl.
  - left. rewrite E. auto.
  - destruct (Nat.ltb_spec (rAt (nd l w)) N); simpl.
    + left. rewrite nd_upd. destruct (decide (w < length l)).
      * case_decide as Hd; [simpl; auto|]. rewrite upd_length in Hd. tauto.
      * rewrite (nd_ge l w) in Hr by flia. discriminate.
    + right. rewrite E. flia.
Qed.

(** the pass, for one watching sentinel *)
Definition Q (N : nat) (x w : nid) (l : list node) : Prop :=
  (queued (nd l x) = true \/ rAt (nd l x) = N) /\
  (rAt (nd l x) = N -> queued (nd l w) = true \/ rAt (nd l w) = N).

Lemma Q_step N fires l g k x w :
  P0 N l g -> pick l = Some k ->
  watched (nd l x) = Some w -> reg (nd l w) = true -> isMap (nd l w) = true -> inb x fires = true ->
  Q N x w l -> Q N x w (fst (stepNode N fires l k g)).
Proof.
  intros HP Ek Hw Hr Hm Hf [Q1 Q2]. destruct (pick_Some _ _ Ek) as (Hk & Hqk & _).
  pose proof (p_queued _ _ _ HP _ Hqk) as Hrk.
  pose proof (stepNode_stepped N fires l k g Hk) as [Hl Hs].
  pose proof (p_invW _ _ _ HP) as HI.
  destruct (i_wk _ (i_static _ _ HI) x w Hw) as [Hwx Hws].
  destruct (i_sent _ _ HI x w Hw) as (H1 & H2 & H3 & H4). destruct (H4 Hr) as (H5 & H6 & H7).
  assert (Hkx : kind_ (nd l x) = KSent).
  { destruct (isSent (nd l x)) eqn:E; [unfold isSent in E; destruct (kind_ (nd l x)); auto; discriminate|].
    rewrite (i_plain _ (i_static _ _ HI) x E) in Hw. discriminate. }
  destruct (Hs x) as (_ & Hrx & _ & Hqx & _). destruct (Hs w) as (_ & Hrw & _ & Hqw & _).
  destruct (decide (k = x)) as [->|Hnx].
  - split.
    + right. rewrite Hrx. destruct (decide (x = x)); auto. congruence.
    + intros _. apply stepNode_wake; auto; try congruence; try flia.
      destruct (p_stamps _ _ _ HP w). flia.
  - destruct (decide (x = k)) as [|_]; [congruence|]. split.
    + rewrite Hrx. destruct Q1 as [Q1|Q1]; auto.
    + rewrite Hrx, Hrw. intros Hx. destruct (decide (w = k)) as [|Hnw]; auto.
      destruct (Q2 Hx) as [Hq|Hq]; auto.
Qed.

Lemma Stabilize_log s fires :
  snd (Stabilize s fires) = snd (stabLoop (length (nodes s)) (num s) fires (nodes s) plog0).
Proof. unfold Stabilize. destruct (stabLoop _ _ _ _ _); reflexivity. Qed.

Lemma Stabilize_nodes s fires :
  nodes (fst (Stabilize s fires)) =
  requeue (num s) (fst (stabLoop (length (nodes s)) (num s) fires (nodes s) plog0)).
Proof. unfold Stabilize. destruct (stabLoop _ _ _ _ _); reflexivity. Qed.

Lemma boundary ops :
  let s := run head init ops in
  0 < num s /\ Stamps (num s) (nodes s) /\ InvW (num s) (nodes s).
Proof.
  intros s. destruct (stamps_run ops init) as [H1 H2]; [simpl; flia|apply stamps_init|].
  split; [auto|]. split; [auto|]. apply (invW_run ops init invW_init).
Qed.

(** Theorem 2 (c-clause of C03): in the pass, a watching sentinel whose node is in the graph
    is evaluated exactly once; if it fires and the node is a Map, the Map's function runs
    exactly once *)
Theorem sentinel_pass ops fires x w : pass_stmt head ops fires x w.
Proof.
  unfold pass_stmt, last_pass. set (s := run head init ops). set (l := nodes s).
  set (g := snd (Stabilize s fires)). intros Hw Hr. destruct (boundary ops) as (HN & HS & HI). fold s in HN, HS, HI. fold l in HS, HI.
  set (N := num s) in *.
  set (fire := bool_decide (x ∈ fires /\ isMap (nd l w) = true)).
  set (P := fun (l' : list node) (g' : plog) =>
              P0 N l' g' /\ watched (nd l' x) = Some w /\ reg (nd l' w) = true /\
              isMap (nd l' w) = isMap (nd l w) /\ isSent (nd l' x) = true /\
              (queued (nd l' x) = true \/ rAt (nd l' x) = N) /\
              (fire = true -> Q N x w l')).
  assert (Hsx : isSent (nd l x) = true).
  { destruct (isSent (nd l x)) eqn:E; auto. rewrite (i_plain _ (i_static _ _ HI) x E) in Hw. discriminate. }
  destruct (i_sent _ _ HI x w Hw) as (H1 & H2 & H3 & H4). destruct (H4 Hr) as (H5 & H6 & H7).
  assert (Hqx : queued (nd l x) = true).
  { destruct H7 as [|H7]; auto. destruct (HS x). flia. }
  destruct (loop_generic P N fires) with (fuel := length l) (l := l) (g := plog0) (popped := @nil nat)
    as [HP Hend].
  - (* a step *)
    intros l' g' k (HP0 & Fw & Fr & Fm & Fs & Fq & FQ) Ek.
    destruct (pick_Some _ _ Ek) as (Hk & _).
    pose proof (stepNode_stepped N fires l' k g' Hk) as [_ Hst].
    destruct (Hst x) as ((Kx & Wx & _) & Rx & _ & Qx & _). destruct (Hst w) as ((Kw & _ & Rw & _) & _).
    split; [apply P0_step; auto|]. split; [congruence|]. split; [congruence|].
    split; [unfold isMap in *; rewrite Kw; auto|]. split; [unfold isSent in *; rewrite Kx; auto|].
    split.
    + rewrite Rx. destruct (decide (x = k)); auto. destruct Fq; auto.
    + intros Hf. unfold fire in Hf. apply bool_decide_eq_true in Hf as [Hf1 Hf2].
      apply (Q_step N fires l' g' k x w); auto.
      * congruence.
      * apply inb_true; auto.
      * apply FQ. unfold fire. apply bool_decide_eq_true. auto.
  - intros l' g' m (HP0 & _). apply (p_queued _ _ _ HP0).
  - split; [apply P0_start; auto|]. split; [auto|]. split; [auto|]. split; [auto|]. split; [auto|].
    split; [auto|]. intros _. split; [auto|]. intros E. destruct (HS x). flia.
  - constructor.
  - intros p Hp. inversion Hp.
  - simpl. flia.
  - unfold g. rewrite Stabilize_log. fold l. fold N.
    set (l' := fst (stabLoop (length l) N fires l plog0)) in *.
    set (g' := snd (stabLoop (length l) N fires l plog0)) in *.
    destruct HP as (HP0 & Fw & Fr & Fm & Fs & Fq & FQ).
    pose proof (pick_None _ Hend) as Hnq.
    assert (Hrx : rAt (nd l' x) = N). { destruct Fq as [Fq|]; auto. rewrite Hnq in Fq. discriminate. }
    split.
    + rewrite (p_evals _ _ _ HP0 x), Fs, Hrx, Nat.eqb_refl. reflexivity.
    + intros Hf Hm. destruct FQ as [_ Q2]. { unfold fire. apply bool_decide_eq_true. auto. }
      destruct (Q2 Hrx) as [Hq|Hq]; [rewrite Hnq in Hq; discriminate|].
      rewrite (p_runs _ _ _ HP0 w), Fm, Hm, Hq, Nat.eqb_refl. reflexivity.
Qed.

(** * A pass with nothing marked runs no Map function *)

(** only sentinels are queued *)
Definition OSQ (l : list node) : Prop := forall m, queued (nd l m) = true -> isSent (nd l m) = true.

Definition qsub (l l' : list node) : Prop :=
  forall m, kind_ (nd l' m) = kind_ (nd l m) /\ (queued (nd l' m) = true -> queued (nd l m) = true).

Lemma OSQ_qsub l l' : OSQ l -> qsub l l' -> OSQ l'.
Proof. intros H Hs m Hq. destruct (Hs m) as [Hk Hq']. unfold isSent. rewrite Hk. apply H, Hq', Hq. Qed.

Lemma qsub_refl l : qsub l l.
Proof. intros m; auto. Qed.
Lemma qsub_trans l1 l2 l3 : qsub l1 l2 -> qsub l2 l3 -> qsub l1 l3.
Proof. intros H1 H2 m. destruct (H1 m), (H2 m). split; [congruence|auto]. Qed.

Lemma qsub_imap g l :
  (forall i x, kind_ (g i x) = kind_ x /\ (queued (g i x) = true -> queued x = true)) ->
  qsub l (imap g l).
Proof.
  intros Hg m. rewrite nd_imap. case_decide; [apply Hg|]. rewrite nd_ge by flia. simpl. auto.
Qed.

Ltac qs_imap := apply qsub_imap; intros i y; repeat case_match; simpl; auto; split; auto; discriminate.

Lemma qsub_bun fuel : forall l k, qsub l (bun head fuel l k).
Proof.
  induction fuel as [|fuel IH]; intros l k; simpl; [apply qsub_refl|].
  destruct (negb (reg (nd l k))); [apply qsub_refl|].
  assert (H1 : qsub l (zero head l k)) by (unfold zero; qs_imap).
  destruct (kind_ (nd l k)); auto. destruct (isNecessary _ a); auto.
  eapply qsub_trans; eauto.
Qed.

Lemma qsub_sweep l : qsub l (sweep l).
Proof. intros m. destruct (sweep_hrel l m) as [[Hr _] _]. rewrite Hr. simpl. auto. Qed.

Lemma OSQ_app l y : OSQ l -> (queued y = true -> isSent y = true) -> OSQ (l ++ [y]).
Proof.
  intros H Hy m. rewrite nd_app. repeat case_decide; auto; simpl; discriminate.
Qed.

Lemma stepNode_quiet N l k g :
  isSent (nd l k) = true ->
  stepNode N [] l k g = (upd l k (fun x => ran x N false (val x)), PLog (runs g) (evals g ++ [k])).
Proof. unfold stepNode, isSent. destruct (kind_ (nd l k)); try discriminate. reflexivity. Qed.

Lemma loop_quiet N fuel : forall l g,
  OSQ l ->
  runs (snd (stabLoop fuel N [] l g)) = runs g /\ OSQ (fst (stabLoop fuel N [] l g)).
Proof.
  induction fuel as [|fuel IH]; intros l g H; simpl; auto.
  destruct (pick l) as [k|] eqn:Ek; simpl; auto.
  destruct (pick_Some _ _ Ek) as (_ & Hq & _). rewrite (stepNode_quiet N l k g (H k Hq)).
  destruct (IH (upd l k (fun x => ran x N false (val x))) (PLog (runs g) (evals g ++ [k]))) as [H1 H2]; auto.
  eapply OSQ_qsub; eauto. unfold upd. qs_imap.
Qed.

Lemma OSQ_requeue N l : OSQ l -> OSQ (requeue N l).
Proof.
  intros H m. unfold requeue. rewrite nd_imap. case_decide; [|simpl; discriminate].
  destruct (isSent (nd l m) && (rAt (nd l m) =? N) && reg (nd l m)) eqn:E; auto.
  intros _. apply andb_true_iff in E as [E _]. apply andb_true_iff in E as [E _].
  unfold isSent in *. simpl. auto.
Qed.

(** after a pass nothing but the sentinels is queued *)
Lemma OSQ_after_pass ops fires :
  OSQ (nodes (fst (Stabilize (run head init ops) fires))).
Proof.
  destruct (boundary ops) as (HN & HS & HI). set (s := run head init ops) in *.
  rewrite Stabilize_nodes. apply OSQ_requeue.
  destruct (loop_generic (P0 (num s)) (num s) fires) with (fuel := length (nodes s)) (l := nodes s)
    (g := plog0) (popped := @nil nat) as [_ Hend].
  - intros. apply P0_step; auto.
  - intros l g m HP. apply (p_queued _ _ _ HP).
  - apply P0_start; auto.
  - constructor.
  - intros p Hp. inversion Hp.
  - simpl. flia.
  - intros m Hq. rewrite (pick_None _ Hend m) in Hq. discriminate.
Qed.

Lemma OSQ_quiet s o : quiet o -> OSQ (nodes s) -> OSQ (nodes (fst (step head s o))).
Proof.
  intros Hq H. destruct o as [v|f a|w|n|n|n v|xx|fires|fires ran failed panicked]; simpl in *; try tauto.
  - apply OSQ_app; auto; simpl; discriminate.
  - unfold NewMap. destruct (_ && _); auto. apply OSQ_app; auto; simpl; discriminate.
  - unfold NewSentinel. destruct (_ && _); auto. apply OSQ_app; auto.
    destruct (_ && _); auto. eapply OSQ_qsub; [|apply qsub_sweep]. eapply OSQ_qsub; eauto. unfold upd. qs_imap.
  - unfold Unobserve. destruct (isSent _); auto. destruct (obs _); auto.
    assert (OSQ (upd (nodes s) n (fun x => set_obs x n0))) by (eapply OSQ_qsub; eauto; unfold upd; qs_imap).
    destruct (isNecessary _ n); auto. eapply OSQ_qsub; eauto. apply qsub_bun.
  - unfold Unwatch. destruct (_ && _) eqn:E; auto. apply andb_true_iff in E as [E _].
    intros m. rewrite nd_upd. case_decide; [simpl; discriminate|auto].
  - destruct fires; [|tauto]. rewrite Stabilize_nodes. apply OSQ_requeue, loop_quiet; auto.
Qed.

Lemma run_app c s a b : run c s (a ++ b) = run c (run c s a) b.
Proof. unfold run. apply fold_left_app. Qed.

(** Theorem 2, second half: after a pass, operations that neither write a var nor make
    anything necessary leave nothing for a pass in which no sentinel fires to compute *)
Theorem quiet_pass_runs_nothing ops fires1 qs :
  Forall quiet qs ->
  runs (snd (last_pass head (ops ++ [OStabilize fires1] ++ qs) [])) = [].
Proof.
  intros Hqs. unfold last_pass. rewrite app_assoc, run_app.
  assert (H : OSQ (nodes (run head init (ops ++ [OStabilize fires1])))).
  { rewrite run_app. simpl. apply OSQ_after_pass. }
  revert H. generalize (run head init (ops ++ [OStabilize fires1])). intros s H.
  revert s H. induction Hqs as [|o qs Ho Hqs IH]; intros s H; simpl.
  - rewrite Stabilize_log. apply (loop_quiet (num s) (length (nodes s)) (nodes s) plog0 H).
  - apply IH. apply OSQ_quiet; auto.
Qed.

(** * The three repaired lines are exactly what the statements depend on *)

Definition f1 : fn := Aff 2 1.

(** 640a5e6 off: the watched Map leaves the graph and returns; the sentinel keeps its child
    entry, the node no longer lists the sentinel among its inputs *)
Definition hist_relink : list op :=
  [ONewVar 5; ONewMap f1 0; ONewSentinel 1; OObserve 1; OStabilize []; OUnobserve 1; OObserve 1].

Lemma relink_refuted : ~ watch_stmt (Cfg false true true true) hist_relink 2.
Proof. unfold watch_stmt. vm_compute. intros (_ & _ & _ & _ & _ & H & _). discriminate. Qed.

(** 2d28149 off: a sentinel attached to an observed var shares height 0 with it *)
Definition hist_order : list op := [ONewVar 5; OObserve 0; ONewSentinel 0].

Lemma order_refuted : ~ watch_stmt (Cfg true false true true) hist_order 1.
Proof.
  unfold watch_stmt. vm_compute. intros (_ & _ & _ & _ & _ & _ & H).
  destruct (H eq_refl) as (_ & _ & H1 & _). inversion H1.
Qed.

(** 8b0f30c off: a sentinel attached to a Map that is already in the graph is never queued:
    the invariant fails, its predicate is not evaluated, and the Map is not woken *)
Definition hist_start : list op :=
  [ONewVar 5; ONewMap f1 0; OObserve 1; OStabilize []; ONewSentinel 1].

Lemma start_refuted : ~ watch_stmt (Cfg true true false true) hist_start 2.
Proof.
  unfold watch_stmt. vm_compute. intros (_ & _ & _ & _ & _ & _ & H).
  destruct (H eq_refl) as (_ & _ & _ & H1). discriminate.
Qed.

Lemma start_pass_refuted : ~ pass_stmt (Cfg true true false true) hist_start [2] 2 1.
Proof.
  unfold pass_stmt. vm_compute. intros H. destruct (H eq_refl eq_refl) as [H1 _]. discriminate.
Qed.

(** * Values *)

Definition dirty (l : list node) (m : nid) : Prop := exists b, anc l m b /\ queued (nd l b) = true.

Record InvG (l : list node) : Prop := {
  g_edge : forall m f a, kind_ (nd l m) = KMap f a -> reg (nd l m) = true ->
           reg (nd l a) = true /\ height (nd l a) < height (nd l m);
  g_obs : forall n, 0 < obs (nd l n) -> reg (nd l n) = true;
  g_unreg : forall n, reg (nd l n) = false -> queued (nd l n) = false /\ rAt (nd l n) = 0;
  g_cons : forall m f a, kind_ (nd l m) = KMap f a -> reg (nd l m) = true ->
           dirty l m \/ val (nd l m) = apply f (val (nd l a))
}.

Lemma anc_mono l l' m b :
  (forall x f a, kind_ (nd l x) = KMap f a -> kind_ (nd l' x) = KMap f a) ->
  anc l m b -> anc l' m b.
Proof. intros H Ha. induction Ha; [constructor|]. econstructor; eauto. Qed.

Lemma anc_trans l x y z : anc l x y -> anc l y z -> anc l x z.
Proof. intros H1 H2. induction H1; auto. econstructor; eauto. Qed.

(** a strict ancestor is reached through one of its dependents *)
Lemma anc_child l m k : anc l m k -> m <> k -> exists c f, anc l m c /\ kind_ (nd l c) = KMap f k.
Proof.
  intros Ha. induction Ha as [x|x f a b Hk Ha IH]; intros Hne; [congruence|].
  destruct (decide (a = b)) as [->|Hab].
  - exists x, f. split; [constructor|auto].
  - destruct (IH Hab) as (c & f' & Hc & Hkc). exists c, f'. split; auto. econstructor; eauto.
Qed.

Lemma anc_reg l m b :
  (forall m f a, kind_ (nd l m) = KMap f a -> reg (nd l m) = true ->
                 reg (nd l a) = true /\ height (nd l a) < height (nd l m)) ->
  anc l m b -> reg (nd l m) = true ->
  reg (nd l b) = true /\ height (nd l b) <= height (nd l m).
Proof.
  intros He Ha. induction Ha as [x|x f a b Hk Ha IH]; intros Hr; [auto|].
  destruct (He _ _ _ Hk Hr) as [Hra Hh]. destruct (IH Hra). split; auto. flia.
Qed.

Lemma anc_sent l m b : Static l -> anc l m b -> isSent (nd l b) = true -> m = b.
Proof.
  intros HS Ha. induction Ha as [x|x f a b Hk Ha IH]; intros Hs; auto.
  specialize (IH Hs). subst. destruct (i_kmap _ HS _ _ _ Hk). congruence.
Qed.

Lemma dirty_mono l l' m :
  (forall x f a, kind_ (nd l x) = KMap f a -> kind_ (nd l' x) = KMap f a) ->
  (forall b, queued (nd l b) = true -> queued (nd l' b) = true) ->
  dirty l m -> dirty l' m.
Proof. intros Hk Hq (b & Ha & Hb). exists b. split; [eapply anc_mono; eauto|auto]. Qed.

(** transformers that keep kind, registration, height, observers, value and recomputedAt,
    and only add registered nodes to the queue *)
Lemma invG_frame l l' :
  InvG l ->
  (forall m, kind_ (nd l' m) = kind_ (nd l m) /\ reg (nd l' m) = reg (nd l m) /\
             height (nd l' m) = height (nd l m) /\ obs (nd l' m) = obs (nd l m) /\
             val (nd l' m) = val (nd l m) /\ rAt (nd l' m) = rAt (nd l m) /\
             (queued (nd l m) = true -> queued (nd l' m) = true) /\
             (queued (nd l' m) = true -> queued (nd l m) = true \/ reg (nd l m) = true)) ->
  InvG l'.
Proof.
  intros [He Ho Hu Hc] H. constructor.
  - intros m f a. destruct (H m) as (K1&R1&H1&_), (H a) as (_&R2&H2&_). rewrite K1, R1, R2, H1, H2. apply He.
  - intros n. destruct (H n) as (_&R1&_&O1&_). rewrite R1, O1. apply Ho.
  - intros n. destruct (H n) as (_&R1&_&_&_&A1&_&Q2). rewrite R1, A1. intros Hr.
    destruct (Hu n Hr) as [Hq Ha]. split; auto. destruct (queued (nd l' n)) eqn:E; auto.
    destruct (Q2 eq_refl); congruence.
  - intros m f a. destruct (H m) as (K1&R1&_&_&V1&_), (H a) as (_&_&_&_&V2&_). rewrite K1, R1, V1, V2.
    intros Hk Hr. destruct (Hc m f a Hk Hr) as [Hd|]; auto. left.
    apply (dirty_mono l l'); [| |exact Hd].
    + intros x f' a' Hx. destruct (H x) as (K&_). congruence.
    + intros b. destruct (H b) as (_&_&_&_&_&_&Q1&_). auto.
Qed.

Lemma noChild l k m f : hasChild l k = false -> kind_ (nd l m) = KMap f k -> reg (nd l m) = true -> False.
Proof.
  intros H Hk Hr. rewrite hasChild_false in H. specialize (H m Hr). unfold isMapOf in H. rewrite Hk in H.
  rewrite Nat.eqb_refl in H. discriminate.
Qed.

Lemma enter1_view h l k m :
  watched (nd l k) = None -> k < length l ->
  let l1 := enter1 h l k in
  (m = k -> nd l1 m = entered (nd l k) h) /\
  (m <> k ->
     kind_ (nd l1 m) = kind_ (nd l m) /\ reg (nd l1 m) = reg (nd l m) /\ height (nd l1 m) = height (nd l m) /\
     obs (nd l1 m) = obs (nd l m) /\ val (nd l1 m) = val (nd l m) /\ rAt (nd l1 m) = rAt (nd l m) /\
     (queued (nd l m) = true -> queued (nd l1 m) = true) /\
     (queued (nd l1 m) = true -> queued (nd l m) = true \/ watched (nd l m) = Some k)).
Proof.
  intros Hw Hk l1. unfold l1, enter1. rewrite nd_imap. split.
  - intros ->. destruct (decide (k < length l)); [|tauto]. rewrite Nat.eqb_refl. auto.
  - intros Hne. destruct (decide (m < length l)); [|rewrite nd_ge by flia; simpl; auto 10].
    destruct (Nat.eqb_spec m k); [congruence|]. destruct (watches (nd l m) k) eqn:Ew; [|auto 10].
    apply watches_spec in Ew. destruct (negb (lparent (nd l m))); simpl; auto 10.
Qed.

Lemma enter_length l k hpar : length (enter head l k hpar) = length l.
Proof.
  rewrite enter_eq. simpl. destruct (isStale _ _); rewrite ?upd_length; unfold enter1; apply imap_length.
Qed.

Definition hpar_ok (l : list node) (k hpar : nat) : Prop :=
  forall f a, kind_ (nd l k) = KMap f a -> reg (nd l a) = true /\ height (nd l a) < hpar.

Lemma invG_enter N l k hpar :
  InvG l -> InvW N l -> k < length l -> isSent (nd l k) = false -> hasChild l k = false ->
  hpar_ok l k hpar ->
  InvG (enter head l k hpar) /\ reg (nd (enter head l k hpar) k) = true /\
  (forall m, m <> k -> reg (nd (enter head l k hpar) m) = reg (nd l m)).
Proof.
  intros HG HI Hk Hs Hc Hp. pose proof (i_static _ _ HI) as HS.
  pose proof (i_plain _ HS k Hs) as Hwk.
  set (h := sentHeight l k hpar). assert (Hh : hpar <= h) by apply sentHeight_ge.
  pose proof (fun m => enter1_view h l k m Hwk Hk) as V. simpl in V.
  set (l1 := enter1 h l k) in *.
  assert (V1 : nd l1 k = entered (nd l k) h) by (apply (V k); auto).
  assert (Hkind : forall m, kind_ (nd l1 m) = kind_ (nd l m)).
  { intros m. destruct (decide (m = k)) as [->|Hne]; [rewrite V1; auto|apply (V m); auto]. }
  assert (Hq : forall b, queued (nd l b) = true -> queued (nd l1 b) = true).
  { intros b. destruct (decide (b = k)) as [->|Hne]; [rewrite V1; auto|apply (V b); auto]. }
  assert (Hval : forall m, val (nd l1 m) = val (nd l m)).
  { intros m. destruct (decide (m = k)) as [->|Hne]; [rewrite V1; auto|apply (V m); auto]. }
  (* everything but the consistency of k itself *)
  assert (G1 : (forall m f a, kind_ (nd l1 m) = KMap f a -> reg (nd l1 m) = true ->
                   reg (nd l1 a) = true /\ height (nd l1 a) < height (nd l1 m)) /\
               (forall n, 0 < obs (nd l1 n) -> reg (nd l1 n) = true) /\
               (forall n, reg (nd l1 n) = false -> queued (nd l1 n) = false /\ rAt (nd l1 n) = 0) /\
               (forall m f a, m <> k -> kind_ (nd l1 m) = KMap f a -> reg (nd l1 m) = true ->
                   dirty l1 m \/ val (nd l1 m) = apply f (val (nd l1 a)))).
  { split; [|split; [|split]].
    - intros m f a. rewrite Hkind. intros Hkm.
      destruct (i_kmap _ HS _ _ _ Hkm) as [Ham _].
      destruct (decide (m = k)) as [->|Hne].
      + rewrite V1. simpl. intros _. destruct (V a) as [_ Va]. destruct Va as (_&R&H&_); [flia|].
        rewrite R, H. destruct (Hp _ _ Hkm). split; auto. flia.
      + destruct (V m) as [_ Vm]. destruct (Vm Hne) as (_&R&H&_). rewrite R, H. intros Hr.
        destruct (g_edge _ HG _ _ _ Hkm Hr) as [Hra Hha].
        destruct (decide (a = k)) as [->|Hna]; [exfalso; eapply noChild; eauto|].
        destruct (V a) as [_ Va]. destruct (Va Hna) as (_&R'&H'&_). rewrite R', H'. auto.
    - intros n. destruct (decide (n = k)) as [->|Hne]; [rewrite V1; auto|].
      destruct (V n) as [_ Vn]. destruct (Vn Hne) as (_&R&_&O&_). rewrite R, O. apply (g_obs _ HG).
    - intros n. destruct (decide (n = k)) as [->|Hne]; [rewrite V1; simpl; discriminate|].
      destruct (V n) as [_ Vn]. destruct (Vn Hne) as (_&R&_&_&_&A&_&Q2). rewrite R, A. intros Hr.
      destruct (g_unreg _ HG n Hr) as [Hqn Han]. split; auto.
      destruct (queued (nd l1 n)) eqn:E; auto. destruct (Q2 eq_refl) as [|Hwn]; [congruence|].
      destruct (i_sent _ _ HI _ _ Hwn) as (Hrn & _). congruence.
    - intros m f a Hne. rewrite Hkind, !Hval. destruct (V m) as [_ Vm]. destruct (Vm Hne) as (_&R&_). rewrite R.
      intros Hkm Hr. destruct (g_cons _ HG _ _ _ Hkm Hr) as [Hd|]; auto. left.
      apply (dirty_mono l l1); auto. intros x f' a'. rewrite Hkind. auto. }
  destruct G1 as (E1 & E2 & E3 & E4).
  rewrite enter_eq. simpl. fold h. fold l1.
  assert (Hregk : reg (nd l1 k) = true) by (rewrite V1; auto).
  destruct (isStale l1 k) eqn:Est.
  - set (l2 := upd l1 k (fun x => set_queued x true)).
    assert (F : forall m, kind_ (nd l2 m) = kind_ (nd l1 m) /\ reg (nd l2 m) = reg (nd l1 m) /\
             height (nd l2 m) = height (nd l1 m) /\ obs (nd l2 m) = obs (nd l1 m) /\
             val (nd l2 m) = val (nd l1 m) /\ rAt (nd l2 m) = rAt (nd l1 m) /\
             (queued (nd l1 m) = true -> queued (nd l2 m) = true) /\
             (queued (nd l2 m) = true -> queued (nd l1 m) = true \/ reg (nd l1 m) = true)).
    { intros m. unfold l2. rewrite nd_upd. case_decide as Hd; [|auto 10]. destruct Hd as [-> _]. simpl. auto 10. }
    assert (Hqk : queued (nd l2 k) = true).
    { unfold l2. rewrite nd_upd. case_decide as Hd; [auto|]. exfalso. apply Hd. split; auto.
      unfold l1, enter1. rewrite imap_length. auto. }
    split; [|split].
    + constructor.
      * intros m f a. destruct (F m) as (K&R&H&_), (F a) as (_&R'&H'&_). rewrite K, R, H, R', H'. apply E1.
      * intros n. destruct (F n) as (_&R&_&O&_). rewrite R, O. apply E2.
      * intros n. destruct (F n) as (_&R&_&_&_&A&_&Q2). rewrite R, A. intros Hr. destruct (E3 n Hr). split; auto.
        destruct (queued (nd l2 n)) eqn:E; auto. destruct (Q2 eq_refl); congruence.
      * intros m f a. destruct (F m) as (K&R&_&_&Vm&_), (F a) as (_&_&_&_&Va&_). rewrite K, R, Vm, Va.
        intros Hkm Hr. destruct (decide (m = k)) as [->|Hne].
        -- left. exists k. split; [constructor|auto].
        -- destruct (E4 m f a Hne Hkm Hr) as [Hd|]; auto. left. apply (dirty_mono l1 l2); auto.
           ++ intros x f' a'. destruct (F x) as (K'&_). rewrite K'. auto.
           ++ intros b. apply (F b).
    + destruct (F k) as (_&R&_). rewrite R. auto.
    + intros m Hne. destruct (F m) as (_&R&_). rewrite R. apply (V m); auto.
  - split; [|split]; auto; [|intros m Hne; apply (V m); auto].
    constructor; auto.
    intros m f a Hkm Hr. destruct (decide (m = k)) as [->|Hne]; [|apply E4; auto].
    (* k was in the graph already: nothing it depends on changed *)
    rewrite Hkind in Hkm. unfold isStale in Est. rewrite V1 in Est. simpl in Est. rewrite Hkm in Est.
    apply orb_false_iff in Est as [Est _]. apply orb_false_iff in Est as [Est _].
    destruct (reg (nd l k)) eqn:Erk.
    + rewrite !Hval. destruct (g_cons _ HG _ _ _ Hkm Erk) as [Hd|]; auto. left.
      apply (dirty_mono l l1); auto. intros x f' a'. rewrite Hkind. auto.
    + destruct (g_unreg _ HG k Erk) as [_ H0]. rewrite H0 in Est. discriminate.
Qed.

Lemma bnr_length fuel : forall l k, length (bnr head fuel l k) = length l.
Proof.
  induction fuel as [|fuel IH]; intros l k; simpl; auto.
  destruct (kind_ (nd l k)); auto; [apply enter_length|].
  destruct (isNecessary l a); rewrite enter_length; auto.
Qed.

Lemma necessary_reg l k : InvG l -> isNecessary l k = true -> reg (nd l k) = true.
Proof.
  intros HG H. unfold isNecessary in H. apply orb_true_iff in H as [H|H].
  - apply Nat.ltb_lt in H. apply (g_obs _ HG); auto.
  - apply hasChild_true in H as (m & Hr & Hm). apply isMapOf_spec in Hm as [f Hm].
    apply (g_edge _ HG _ _ _ Hm Hr).
Qed.

Lemma not_necessary l k : isNecessary l k = false -> hasChild l k = false.
Proof. unfold isNecessary. intros H. apply orb_false_iff in H. tauto. Qed.

Lemma invG_bnr N fuel : forall l k,
  k < fuel -> InvG l -> InvW N l -> k < length l -> isSent (nd l k) = false -> hasChild l k = false ->
  InvG (bnr head fuel l k) /\ reg (nd (bnr head fuel l k) k) = true /\
  (forall m, reg (nd (bnr head fuel l k) m) = true -> reg (nd l m) = true \/ m <= k).
Proof.
  induction fuel as [|fuel IH]; intros l k Hf HG HI Hk Hs Hc; [flia|]. simpl.
  pose proof (i_static _ _ HI) as HS.
  destruct (kind_ (nd l k)) eqn:Ek.
  - destruct (invG_enter N l k 0 HG HI Hk Hs Hc) as (H1 & H2 & H3).
    { intros f a E. congruence. }
    split; [auto|]. split; [auto|]. intros m Hm. destruct (decide (m = k)); [right; flia|]. left. rewrite <- H3; auto.
  - destruct (i_kmap _ HS _ _ _ Ek) as [Hak Has].
    set (l1 := if isNecessary l a then l else bnr head fuel l a).
    assert (H1 : InvG l1 /\ InvW N l1 /\ reg (nd l1 a) = true /\ length l1 = length l /\
                 (forall m, kind_ (nd l1 m) = kind_ (nd l m)) /\
                 (forall m, reg (nd l1 m) = true -> reg (nd l m) = true \/ m <= a)).
    { unfold l1. destruct (isNecessary l a) eqn:En.
      - split; [auto|]. split; [auto|]. split; [apply necessary_reg; auto|]. auto.
      - destruct (IH l a) as (G1 & G2 & G3); auto; try flia. { apply not_necessary; auto. }
        split; [auto|]. split; [apply invW_bnr; auto|]. split; [auto|]. split; [apply bnr_length|].
        split; auto. intros m. apply bnr_static. }
    destruct H1 as (G1 & W1 & Ra & Hl & Hkd & Hfr).
    destruct (invG_enter N l1 k (S (height (nd l1 a))) G1 W1) as (H1 & H2 & H3).
    + rewrite Hl; auto.
    + unfold isSent in *. rewrite Hkd. auto.
    + apply hasChild_false. intros c Hrc. destruct (Hfr c Hrc) as [Hold|Hle].
      * unfold isMapOf. rewrite Hkd. rewrite hasChild_false in Hc. apply (Hc c Hold).
      * unfold isMapOf. rewrite Hkd. destruct (kind_ (nd l c)) eqn:Ec; auto.
        destruct (i_kmap _ HS _ _ _ Ec). apply Nat.eqb_neq. flia.
    + intros f' a' E. rewrite Hkd, Ek in E. inversion E; subst. split; auto.
    + split; [auto|]. split; [auto|]. intros m Hm. destruct (decide (m = k)); [right; flia|].
      rewrite H3 in Hm by auto. destruct (Hfr m Hm); auto. right. flia.
  - unfold isSent in Hs. rewrite Ek in Hs. discriminate.
Qed.

(** zeroNode of a Var or Map without dependents in the graph *)
Lemma zero_view l k m :
  watched (nd l k) = None ->
  let l1 := zero head l k in
  (m = k -> k < length l -> nd l1 m = zeroed (nd l k)) /\
  (m <> k ->
     kind_ (nd l1 m) = kind_ (nd l m) /\ reg (nd l1 m) = reg (nd l m) /\ height (nd l1 m) = height (nd l m) /\
     obs (nd l1 m) = obs (nd l m) /\ val (nd l1 m) = val (nd l m) /\ rAt (nd l1 m) = rAt (nd l m) /\
     queued (nd l1 m) = queued (nd l m)).
Proof.
  intros Hw l1. unfold l1, zero. rewrite nd_imap. split.
  - intros -> Hk. destruct (decide (k < length l)); [|tauto]. rewrite Nat.eqb_refl. auto.
  - intros Hne. destruct (decide (m < length l)); [|rewrite nd_ge by flia; simpl; auto 10].
    destruct (Nat.eqb_spec m k); [congruence|]. destruct (watches (nd l m) k) eqn:Ew; simpl; auto 10.
Qed.

Lemma invG_zero N l k :
  InvG l -> InvW N l -> isSent (nd l k) = false -> hasChild l k = false ->
  InvG (zero head l k) /\ (forall m, reg (nd (zero head l k) m) = true -> reg (nd l m) = true) /\
  (forall m, kind_ (nd (zero head l k) m) = kind_ (nd l m)) /\
  (forall m, m <> k -> obs (nd (zero head l k) m) = obs (nd l m)).
Proof.
  intros HG HI Hs Hc. pose proof (i_static _ _ HI) as HS. pose proof (i_plain _ HS k Hs) as Hwk.
  pose proof (fun m => zero_view l k m Hwk) as V. simpl in V. set (l1 := zero head l k) in *.
  destruct (decide (k < length l)) as [Hk|Hk].
  2:{ assert (V0 : nd l1 k = nd l k).
      { unfold l1, zero. rewrite nd_imap. destruct (decide (k < length l)); [tauto|]. rewrite nd_ge by flia. auto. }
      assert (F : forall m, kind_ (nd l1 m) = kind_ (nd l m) /\ reg (nd l1 m) = reg (nd l m) /\
             height (nd l1 m) = height (nd l m) /\ obs (nd l1 m) = obs (nd l m) /\
             val (nd l1 m) = val (nd l m) /\ rAt (nd l1 m) = rAt (nd l m) /\
             queued (nd l1 m) = queued (nd l m)).
      { intros m. destruct (decide (m = k)) as [->|Hne]; [rewrite V0; auto 10|apply (V m); auto]. }
      split; [|split; [|split]].
      - apply (invG_frame l l1 HG). intros m. destruct (F m) as (?&?&?&?&?&?&Q). rewrite Q. auto 12.
      - intros m. destruct (F m) as (_&R&_). rewrite R. auto.
      - intros m. apply (F m).
      - intros m _. apply (F m). }
  assert (V1 : nd l1 k = zeroed (nd l k)) by (apply (V k); auto).
  assert (Hkind : forall m, kind_ (nd l1 m) = kind_ (nd l m)).
  { intros m. destruct (decide (m = k)) as [->|Hne]; [rewrite V1; auto|apply (V m); auto]. }
  assert (Hval : forall m, val (nd l1 m) = val (nd l m)).
  { intros m. destruct (decide (m = k)) as [->|Hne]; [rewrite V1; auto|apply (V m); auto]. }
  split; [|split; [|split]]; auto.
  - constructor.
    + intros m f a. rewrite Hkind. intros Hkm. destruct (decide (m = k)) as [->|Hne]; [rewrite V1; simpl; discriminate|].
      destruct (V m) as [_ Vm]. destruct (Vm Hne) as (_&R&H&_). rewrite R, H. intros Hr.
      destruct (g_edge _ HG _ _ _ Hkm Hr) as [Hra Hha].
      destruct (decide (a = k)) as [->|Hna]; [exfalso; eapply noChild; eauto|].
      destruct (V a) as [_ Va]. destruct (Va Hna) as (_&R'&H'&_). rewrite R', H'. auto.
    + intros n. destruct (decide (n = k)) as [->|Hne]; [rewrite V1; simpl; flia|].
      destruct (V n) as [_ Vn]. destruct (Vn Hne) as (_&R&_&O&_). rewrite R, O. apply (g_obs _ HG).
    + intros n. destruct (decide (n = k)) as [->|Hne]; [rewrite V1; simpl; auto|].
      destruct (V n) as [_ Vn]. destruct (Vn Hne) as (_&R&_&_&_&A&Q). rewrite R, A, Q. apply (g_unreg _ HG).
    + intros m f a. rewrite Hkind, !Hval. intros Hkm. destruct (decide (m = k)) as [->|Hne]; [rewrite V1; simpl; discriminate|].
      destruct (V m) as [_ Vm]. destruct (Vm Hne) as (_&R&_). rewrite R. intros Hr.
      destruct (g_cons _ HG _ _ _ Hkm Hr) as [(b & Hab & Hqb)|]; auto. left.
      assert (b <> k).
      { intros ->. destruct (anc_child _ _ _ Hab Hne) as (c & f' & Hc1 & Hc2).
        destruct (anc_reg l m c (g_edge _ HG) Hc1 Hr) as [Hrc _]. eapply noChild; eauto. }
      exists b. split; [eapply anc_mono; [|eauto]; intros x f' a'; rewrite Hkind; auto|].
      destruct (V b) as [_ Vb]. destruct (Vb H) as (_&_&_&_&_&_&Q). rewrite Q. auto.
  - intros m. destruct (decide (m = k)) as [->|Hne]; [rewrite V1; simpl; discriminate|].
    destruct (V m) as [_ Vm]. destruct (Vm Hne) as (_&R&_). rewrite R. auto.
  - intros m Hne. apply (V m); auto.
Qed.

Lemma invG_bun N fuel : forall l k,
  InvG l -> InvW N l -> isSent (nd l k) = false -> hasChild l k = false ->
  InvG (bun head fuel l k).
Proof.
  induction fuel as [|fuel IH]; intros l k HG HI Hs Hc; simpl; auto.
  destruct (negb (reg (nd l k))); auto.
  destruct (invG_zero N l k HG HI Hs Hc) as (G1 & _ & Hkd & _).
  pose proof (invW_zero N l k HI Hs) as W1.
  destruct (kind_ (nd l k)) eqn:Ek; auto.
  destruct (i_kmap _ (i_static _ _ HI) _ _ _ Ek) as [_ Has].
  destruct (isNecessary _ a) eqn:En; auto.
  apply IH; auto. { unfold isSent in *. rewrite Hkd. auto. } apply not_necessary; auto.
Qed.

Lemma hasChild_ext l l' k :
  (forall m, kind_ (nd l' m) = kind_ (nd l m) /\ reg (nd l' m) = reg (nd l m)) ->
  hasChild l' k = hasChild l k.
Proof.
  intros H. destruct (hasChild l k) eqn:E.
  - apply hasChild_true in E as (m & Hr & Hm). apply hasChild_true. exists m.
    destruct (H m) as [K R]. unfold isMapOf in *. rewrite K, R. auto.
  - apply hasChild_false. rewrite hasChild_false in E. intros m Hr. destruct (H m) as [K R].
    unfold isMapOf in *. rewrite K. apply E. congruence.
Qed.

(** observers *)
Lemma invG_obs l k (o : node -> nat) :
  InvG l -> (0 < o (nd l k) -> reg (nd l k) = true) -> InvG (upd l k (fun x => set_obs x (o x))).
Proof.
  intros HG Ho.
  assert (F : forall m, kind_ (nd (upd l k (fun x => set_obs x (o x))) m) = kind_ (nd l m) /\
             reg (nd (upd l k (fun x => set_obs x (o x))) m) = reg (nd l m) /\
             height (nd (upd l k (fun x => set_obs x (o x))) m) = height (nd l m) /\
             val (nd (upd l k (fun x => set_obs x (o x))) m) = val (nd l m) /\
             rAt (nd (upd l k (fun x => set_obs x (o x))) m) = rAt (nd l m) /\
             queued (nd (upd l k (fun x => set_obs x (o x))) m) = queued (nd l m) /\
             (obs (nd (upd l k (fun x => set_obs x (o x))) m) = obs (nd l m) \/
              (m = k /\ obs (nd (upd l k (fun x => set_obs x (o x))) m) = o (nd l k)))).
  { intros m. rewrite nd_upd. case_decide as Hd; [|auto 10]. destruct Hd as [-> _]. simpl. auto 10. }
  set (l1 := upd l k (fun x => set_obs x (o x))) in *.
  constructor.
  - intros m f a. destruct (F m) as (K&R&H&_), (F a) as (_&R'&H'&_). rewrite K, R, H, R', H'. apply (g_edge _ HG).
  - intros n. destruct (F n) as (_&R&_&_&_&_&[O|[-> O]]); rewrite R, O; [apply (g_obs _ HG)|auto].
  - intros n. destruct (F n) as (_&R&_&_&A&Q&_). rewrite R, A, Q. apply (g_unreg _ HG).
  - intros m f a. destruct (F m) as (K&R&_&V&_), (F a) as (_&_&_&V'&_). rewrite K, R, V, V'.
    intros Hk Hr. destruct (g_cons _ HG _ _ _ Hk Hr) as [Hd|]; auto. left.
    apply (dirty_mono l l1); auto.
    + intros x f' a'. destruct (F x) as (K'&_). rewrite K'. auto.
    + intros b. destruct (F b) as (_&_&_&_&_&Q&_). rewrite Q. auto.
Qed.

Lemma invG_Observe N l k : InvG l -> InvW N l -> InvG (Observe head l k).
Proof.
  intros HG HI. unfold Observe. destruct (k <? length l) eqn:Hk; cbn [andb]; auto.
  destruct (isSent (nd l k)) eqn:Hs; cbn [negb]; auto. apply Nat.ltb_lt in Hk.
  destruct (isNecessary l k) eqn:En.
  - apply invG_obs; auto. intros _. apply necessary_reg; auto.
  - destruct (invG_bnr N (S k) l k) as (G1 & R1 & _); auto. apply not_necessary; auto.
    apply invG_obs; auto.
Qed.

Lemma invG_Unobserve N l k : InvG l -> InvW N l -> InvG (Unobserve head l k).
Proof.
  intros HG HI. unfold Unobserve. destruct (isSent (nd l k)) eqn:Hs; auto.
  destruct (obs (nd l k)) as [|o] eqn:Eo; auto.
  assert (G1 : InvG (upd l k (fun x => set_obs x o))).
  { apply (invG_obs l k (fun _ => o)); auto. intros _. apply (g_obs _ HG). flia. }
  assert (W1 : InvW N (upd l k (fun x => set_obs x o))) by (apply invW_upd_plain; simpl; auto 10).
  destruct (isNecessary _ k) eqn:En; auto.
  apply (invG_bun N); auto.
  - rewrite nd_upd. case_decide; auto.
  - apply not_necessary; auto.
Qed.

Lemma invG_SetVar N s k v : InvG (nodes s) -> InvW N (nodes s) -> InvG (SetVar s k v).
Proof.
  intros HG HI. unfold SetVar. set (l := nodes s) in *. destruct (kind_ (nd l k)) eqn:Ek; auto.
  set (l1 := upd l k (fun x => set_val x v)).
  assert (F1 : forall m, kind_ (nd l1 m) = kind_ (nd l m) /\ reg (nd l1 m) = reg (nd l m) /\
             height (nd l1 m) = height (nd l m) /\ obs (nd l1 m) = obs (nd l m) /\
             rAt (nd l1 m) = rAt (nd l m) /\ queued (nd l1 m) = queued (nd l m) /\
             (m <> k -> val (nd l1 m) = val (nd l m))).
  { intros m. unfold l1. rewrite nd_upd. case_decide as Hd; [|auto 10]. destruct Hd as [-> _]. simpl.
    repeat split; auto. congruence. }
  assert (Hnec : isNecessary l1 k = isNecessary l k).
  { unfold isNecessary. destruct (F1 k) as (_&_&_&O&_). rewrite O. f_equal.
    apply hasChild_ext. intros m. destruct (F1 m) as (K&R&_). auto. }
  rewrite Hnec. destruct (F1 k) as (_&Rk&_). rewrite Rk.
  set (l2 := if isNecessary l k && reg (nd l k) then upd l1 k (fun x => staled x (num s)) else l1).
  assert (F2 : forall m, kind_ (nd l2 m) = kind_ (nd l m) /\ reg (nd l2 m) = reg (nd l m) /\
             height (nd l2 m) = height (nd l m) /\ obs (nd l2 m) = obs (nd l m) /\
             rAt (nd l2 m) = rAt (nd l m) /\
             (queued (nd l m) = true -> queued (nd l2 m) = true) /\
             (queued (nd l2 m) = true -> queued (nd l m) = true \/ reg (nd l m) = true) /\
             (m <> k -> val (nd l2 m) = val (nd l m))).
  { intros m. destruct (F1 m) as (K&R&H&O&A&Q&V). unfold l2.
    destruct (isNecessary l k && reg (nd l k)) eqn:Ec.
    - apply andb_true_iff in Ec as [_ Ec]. rewrite nd_upd. case_decide as Hd.
      + destruct Hd as [-> _]. simpl. rewrite K, R, H, O, A. repeat split; auto; congruence.
      + rewrite K, R, H, O, A, Q. repeat split; auto.
    - rewrite K, R, H, O, A, Q. repeat split; auto. }
  fold l2. constructor.
  - intros m f a. destruct (F2 m) as (K&R&H&_), (F2 a) as (_&R'&H'&_). rewrite K, R, H, R', H'. apply (g_edge _ HG).
  - intros n. destruct (F2 n) as (_&R&_&O&_). rewrite R, O. apply (g_obs _ HG).
  - intros n. destruct (F2 n) as (_&R&_&_&A&_&Q2&_). rewrite R, A. intros Hr.
    destruct (g_unreg _ HG n Hr). split; auto. destruct (queued (nd l2 n)) eqn:E; auto.
    destruct (Q2 eq_refl); congruence.
  - intros m f a. destruct (F2 m) as (K&R&_&_&_&_&_&Vm). rewrite K, R. intros Hk Hr.
    assert (m <> k) by (intros ->; congruence). rewrite (Vm H).
    assert (Hmono : forall x, dirty l x -> dirty l2 x).
    { intros x. apply dirty_mono.
      - intros y f' a'. destruct (F2 y) as (K'&_). rewrite K'. auto.
      - intros b. apply (F2 b). }
    destruct (decide (a = k)) as [->|Hna].
    + left. exists k. split; [econstructor; [|constructor]; rewrite K; eauto|].
      destruct (g_edge _ HG _ _ _ Hk Hr) as [Hrk _].
      assert (Hn : isNecessary l k = true).
      { unfold isNecessary. apply orb_true_iff. right. apply hasChild_true. exists m. split; auto.
        apply isMapOf_spec. eauto. }
      unfold l2. rewrite Hn, Hrk. simpl. rewrite nd_upd. case_decide as Hd; [simpl; auto|].
      exfalso. apply Hd. split; auto. unfold l1. rewrite upd_length. apply nd_lt_of_ne0. intros E.
      rewrite E in Hrk. discriminate.
    + destruct (F2 a) as (_&_&_&_&_&_&_&Va). rewrite (Va Hna).
      destruct (g_cons _ HG _ _ _ Hk Hr) as [Hd|]; auto.
Qed.

Lemma invG_Unwatch N l k : InvG l -> InvW N l -> InvG (Unwatch l k).
Proof.
  intros HG HI. pose proof (i_static _ _ HI) as HS. unfold Unwatch.
  destruct (isSent (nd l k)) eqn:Hs; simpl; auto. case_bool_decide as Hw; simpl; auto.
  set (l1 := upd l k (fun y => Node KSent (val y) 0 false 0 0 0 0 false None false false)).
  assert (F : forall m, kind_ (nd l1 m) = kind_ (nd l m) /\
                        (m <> k -> nd l1 m = nd l m) /\
                        (m = k -> k < length l -> nd l1 m = Node KSent (val (nd l k)) 0 false 0 0 0 0 false None false false)).
  { intros m. unfold l1. rewrite nd_upd. case_decide as Hd.
    - destruct Hd as [-> ?]. simpl. unfold isSent in Hs. destruct (kind_ (nd l k)); try discriminate. tauto.
    - split; auto. split; auto. intros -> ?. tauto. }
  assert (Hnm : forall m f a, kind_ (nd l m) = KMap f a -> m <> k /\ a <> k).
  { intros m f a Hk. destruct (i_kmap _ HS _ _ _ Hk). split; intros ->; unfold isSent in *; rewrite ?Hk in Hs; congruence. }
  constructor.
  - intros m f a. destruct (F m) as (K&_). rewrite K. intros Hk. destruct (Hnm _ _ _ Hk) as [Hm Ha].
    destruct (F m) as (_&Em&_), (F a) as (_&Ea&_). rewrite (Em Hm), (Ea Ha). apply (g_edge _ HG _ _ _ Hk).
  - intros n. destruct (decide (n = k)) as [->|Hne].
    + destruct (decide (k < length l)) as [Hk|Hk].
      * destruct (F k) as (_&_&E). rewrite E by auto. simpl. flia.
      * unfold l1. rewrite nd_upd. case_decide; [tauto|]. apply (g_obs _ HG).
    + destruct (F n) as (_&E&_). rewrite E by auto. apply (g_obs _ HG).
  - intros n. destruct (decide (n = k)) as [->|Hne].
    + destruct (decide (k < length l)) as [Hk|Hk].
      * destruct (F k) as (_&_&E). rewrite E by auto. simpl. auto.
      * unfold l1. rewrite nd_upd. case_decide; [tauto|]. apply (g_unreg _ HG).
    + destruct (F n) as (_&E&_). rewrite E by auto. apply (g_unreg _ HG).
  - intros m f a. destruct (F m) as (K&_). rewrite K. intros Hk. destruct (Hnm _ _ _ Hk) as [Hm Ha].
    destruct (F m) as (_&Em&_), (F a) as (_&Ea&_). rewrite (Em Hm), (Ea Ha). intros Hr.
    destruct (g_cons _ HG _ _ _ Hk Hr) as [(b & Hab & Hqb)|]; auto. left.
    exists b. split.
    + eapply anc_mono; [|eauto]. intros x f' a'. destruct (F x) as (K'&_). rewrite K'. auto.
    + assert (b <> k). { intros ->. apply (anc_sent l m k HS Hab) in Hs. congruence. }
      destruct (F b) as (_&Eb&_). rewrite Eb; auto.
Qed.

Lemma queued_lt l b : queued (nd l b) = true -> b < length l.
Proof. intros H. apply nd_lt_of_ne0. intros E. rewrite E in H. discriminate. Qed.

Lemma invG_app l y :
  InvG l -> Static l -> obs y = 0 ->
  (reg y = false -> queued y = false /\ rAt y = 0) ->
  (forall f a, kind_ y = KMap f a -> reg y = false) ->
  InvG (l ++ [y]).
Proof.
  intros HG HS Ho Hu Hk.
  assert (Hcase : forall m, m < length l \/ m = length l \/ length l < m) by (intros; flia).
  assert (Hkm : forall x f a, kind_ (nd l x) = KMap f a -> kind_ (nd (l ++ [y]) x) = KMap f a).
  { intros x f a E. rewrite nd_app_lt; auto. eapply kmap_lt; eauto. }
  constructor.
  - intros m f a. destruct (Hcase m) as [Hm|[->|Hm]].
    + rewrite nd_app_lt by auto. intros E. destruct (i_kmap _ HS m f a E). rewrite nd_app_lt by flia.
      apply (g_edge _ HG _ _ _ E).
    + rewrite nd_app_eq. intros E Hr. rewrite (Hk _ _ E) in Hr. discriminate.
    + rewrite nd_app_gt by auto. discriminate.
  - intros n. destruct (Hcase n) as [Hm|[->|Hm]].
    + rewrite nd_app_lt by auto. apply (g_obs _ HG).
    + rewrite nd_app_eq. flia.
    + rewrite nd_app_gt by auto. simpl. flia.
  - intros n. destruct (Hcase n) as [Hm|[->|Hm]].
    + rewrite nd_app_lt by auto. apply (g_unreg _ HG).
    + rewrite nd_app_eq. auto.
    + rewrite nd_app_gt by auto. simpl. auto.
  - intros m f a. destruct (Hcase m) as [Hm|[->|Hm]].
    + rewrite nd_app_lt by auto. intros E. destruct (i_kmap _ HS m f a E). rewrite nd_app_lt by flia.
      intros Hr. destruct (g_cons _ HG _ _ _ E Hr) as [(b & Hab & Hqb)|]; auto. left.
      exists b. split; [eapply anc_mono; eauto|]. rewrite nd_app_lt; auto. apply queued_lt; auto.
    + rewrite nd_app_eq. intros E Hr. rewrite (Hk _ _ E) in Hr. discriminate.
    + rewrite nd_app_gt by auto. discriminate.
Qed.

Lemma fold_bump_hrel is : forall l m, hrel (nd l m) (nd (fold_left bump is l) m).
Proof.
  induction is as [|i is IH]; intros l m; simpl; [apply hrel_refl|].
  eapply hrel_trans; [apply bump_hrel|apply IH].
Qed.
Lemma fold_bump_length is : forall l, length (fold_left bump is l) = length l.
Proof. induction is as [|i is IH]; intros l; simpl; auto. rewrite IH. apply bump_length. Qed.

(** adjustHeights as a sweep re-establishes the height order of every dependency edge *)
Lemma sweep_edge_n l n :
  (forall m f a, kind_ (nd l m) = KMap f a -> a < m) ->
  (forall m f a, m < n -> kind_ (nd l m) = KMap f a -> reg (nd l m) = true ->
                 height (nd (fold_left bump (seq 0 n) l) a) < height (nd (fold_left bump (seq 0 n) l) m)) /\
  (forall m, n <= m -> nd (fold_left bump (seq 0 n) l) m = nd l m).
Proof.
  intros Hlt. induction n as [|n IH].
  - simpl. split; [intros; flia|auto].
  - rewrite seq_S, fold_left_app. simpl. destruct IH as [IH1 IH2].
    set (l1 := fold_left bump (seq 0 n) l) in *.
    assert (Hk : forall m, kind_ (nd l1 m) = kind_ (nd l m) /\ reg (nd l1 m) = reg (nd l m)).
    { intros m. destruct (hrel_fields _ _ (fold_bump_hrel (seq 0 n) l m)) as (K&_&R&_). auto. }
    assert (Hb : forall m, m <> n -> nd (bump l1 n) m = nd l1 m).
    { intros m Hne. unfold bump. destruct (kind_ (nd l1 n)); auto. destruct (_ && _); auto.
      rewrite nd_upd. case_decide; auto. tauto. }
    split.
    + intros m f a Hm Hkm Hr. pose proof (Hlt _ _ _ Hkm) as Ham.
      destruct (decide (m = n)) as [->|Hne].
      * rewrite (Hb a) by flia. unfold bump. destruct (Hk n) as [K R]. rewrite K, Hkm, R, Hr. simpl.
        destruct (height (nd l1 n) <=? height (nd l1 a)) eqn:E.
        -- rewrite nd_upd. case_decide as Hd; [simpl; flia|]. exfalso. apply Hd. split; auto.
           unfold l1. rewrite fold_bump_length.
           eapply kmap_lt; eauto.
        -- apply Nat.leb_gt in E. auto.
      * rewrite (Hb m), (Hb a) by flia. apply (IH1 m f a); auto. flia.
    + intros m Hm. rewrite Hb by flia. apply IH2. flia.
Qed.

Lemma sweep_edge l m f a :
  (forall m f a, kind_ (nd l m) = KMap f a -> a < m) ->
  kind_ (nd l m) = KMap f a -> reg (nd l m) = true ->
  height (nd (sweep l) a) < height (nd (sweep l) m).
Proof.
  intros Hlt Hk Hr. destruct (sweep_edge_n l (length l) Hlt) as [H _].
  apply (H m f a); auto. eapply kmap_lt; eauto.
Qed.

(** everything but the height *)
Definition hrel0 (x y : node) : Prop :=
  kind_ y = kind_ x /\ reg y = reg x /\ obs y = obs x /\ val y = val x /\ rAt y = rAt x /\ queued y = queued x.
Lemma hrel0_refl x : hrel0 x x.
Proof. unfold hrel0; auto 10. Qed.
Lemma hrel0_trans x y z : hrel0 x y -> hrel0 y z -> hrel0 x z.
Proof. unfold hrel0. intros (?&?&?&?&?&?) (?&?&?&?&?&?). repeat split; congruence. Qed.

(** raising a registered node and sweeping *)
Lemma invG_raise l w h :
  InvG l -> Static l -> InvG (sweep (upd l w (fun y => set_height y h))).
Proof.
  intros HG HS. set (l1 := upd l w (fun y => set_height y h)).
  assert (F1 : forall m, hrel0 (nd l m) (nd l1 m)).
  { intros m. unfold l1. rewrite nd_upd. case_decide; [|apply hrel0_refl]. unfold hrel0. simpl. auto 10. }
  assert (F : forall m, hrel0 (nd l m) (nd (sweep l1) m)).
  { intros m. eapply hrel0_trans; [apply F1|]. destruct (sweep_hrel l1 m) as [[Hr _] _]. rewrite Hr.
    unfold hrel0. simpl. auto 10. }
  constructor.
  - intros m f a. destruct (F m) as (K&R&_), (F a) as (_&R'&_). rewrite K, R, R'. intros Hk Hr.
    split; [apply (g_edge _ HG _ _ _ Hk Hr)|].
    apply (sweep_edge l1 m f a).
    + intros m' f' a'. destruct (F1 m') as (K'&_). rewrite K'. apply (i_kmap _ HS).
    + destruct (F1 m) as (K'&_). congruence.
    + destruct (F1 m) as (_&R''&_). congruence.
  - intros n. destruct (F n) as (_&R&O&_). rewrite R, O. apply (g_obs _ HG).
  - intros n. destruct (F n) as (_&R&_&_&A&Q). rewrite R, A, Q. apply (g_unreg _ HG).
  - intros m f a. destruct (F m) as (K&R&_&V&_), (F a) as (_&_&_&V'&_). rewrite K, R, V, V'.
    intros Hk Hr. destruct (g_cons _ HG _ _ _ Hk Hr) as [Hd|]; auto. left.
    apply (dirty_mono l (sweep l1)); auto.
    + intros x f' a'. destruct (F x) as (K'&_). rewrite K'. auto.
    + intros b. destruct (F b) as (_&_&_&_&_&Q). rewrite Q. auto.
Qed.

Lemma invG_NewVar l v : InvG l -> Static l -> InvG (NewVar l v).
Proof. intros HG HS. apply invG_app; auto; simpl; auto; discriminate. Qed.

Lemma invG_NewMap l g k : InvG l -> Static l -> InvG (NewMap l g k).
Proof.
  intros HG HS. unfold NewMap. destruct (_ && _); auto. apply invG_app; auto; simpl; auto.
Qed.

Lemma invG_NewSentinel l w : InvG l -> Static l -> InvG (NewSentinel head l w).
Proof.
  intros HG HS. unfold NewSentinel. destruct (_ && _); auto.
  destruct (cfg_order_watch_edge head && reg (nd l w) && (height (nd l w) <=? 0)).
  - apply invG_app; simpl; auto; try discriminate.
    + apply invG_raise; auto.
    + eapply static_frame; [|eauto]. intros m.
      destruct (sweep_hrel (upd l w (fun y => set_height y 1)) m) as [Hr _].
      apply hrel_fields in Hr as (K&W&_). rewrite K, W. rewrite nd_upd. case_decide; simpl; auto.
  - apply invG_app; simpl; auto; discriminate.
Qed.

(** which nodes a step queues, and the value it computes *)
Lemma stepNode_detail N fires l k g :
  k < length l ->
  let l' := fst (stepNode N fires l k g) in
  (isSent (nd l k) = false ->
     forall c, isMapOf (nd l c) k = true -> reg (nd l c) = true -> rAt (nd l c) < N -> c <> k ->
               queued (nd l' c) = true) /\
  (forall m, queued (nd l' m) = true ->
     queued (nd l m) = true \/ (isMapOf (nd l m) k = true /\ reg (nd l m) = true) \/
     (watched (nd l k) = Some m /\ isSent (nd l k) = true /\ reg (nd l m) = true)) /\
  (forall f a, kind_ (nd l k) = KMap f a -> val (nd l' k) = apply f (val (nd l a))).
Proof.
  intros Hk l'. unfold l', stepNode. destruct (kind_ (nd l k)) eqn:Ek; simpl.
  - split; [|split; [|intros; discriminate]].
    + intros _ c Hc Hr Hlt Hne. unfold queueKids. rewrite nd_imap.
      assert (Hcl : c < length l). { apply nd_lt_of_ne0. intros E. rewrite E in Hr. discriminate. }
      rewrite upd_length. destruct (decide (c < length l)); [|tauto].
      rewrite nd_upd. case_decide; [tauto|]. rewrite Hc, Hr. apply Nat.ltb_lt in Hlt. rewrite Hlt.
      destruct (queued (nd l c)) eqn:E; simpl; auto.
    + intros m. unfold queueKids. rewrite nd_imap, upd_length. case_decide; [|simpl; discriminate].
      rewrite nd_upd. case_decide as Hd.
      * destruct Hd as [-> _]. simpl. unfold isMapOf. simpl. rewrite !Ek. simpl. discriminate.
      * destruct (isMapOf (nd l m) k && reg (nd l m) && negb (queued (nd l m)) && (rAt (nd l m) <? N)) eqn:E; auto.
        intros _. repeat (apply andb_true_iff in E as [E ?]). auto.
  - split; [|split].
    + intros _ c Hc Hr Hlt Hne. unfold queueKids. rewrite nd_imap.
      assert (Hcl : c < length l). { apply nd_lt_of_ne0. intros E. rewrite E in Hr. discriminate. }
      rewrite upd_length. destruct (decide (c < length l)); [|tauto].
      rewrite nd_upd. case_decide; [tauto|]. rewrite Hc, Hr. apply Nat.ltb_lt in Hlt. rewrite Hlt.
      destruct (queued (nd l c)) eqn:E; simpl; auto.
    + intros m. unfold queueKids. rewrite nd_imap, upd_length. case_decide; [|simpl; discriminate].
      rewrite nd_upd. case_decide as Hd.
      * destruct Hd as [-> _]. simpl. rewrite Nat.ltb_irrefl, andb_false_r. simpl. discriminate.
      * destruct (isMapOf (nd l m) k && reg (nd l m) && negb (queued (nd l m)) && (rAt (nd l m) <? N)) eqn:E; auto.
        intros _. repeat (apply andb_true_iff in E as [E ?]). auto.
    + intros f' a' E. inversion E; subst. unfold queueKids. rewrite nd_imap, upd_length.
      destruct (decide (k < length l)); [|tauto]. rewrite nd_upd. case_decide; [|tauto]. simpl.
      rewrite Nat.ltb_irrefl, andb_false_r. auto.
  - split; [|split; [|intros; discriminate]].
    + unfold isSent. rewrite Ek. discriminate.
    + intros m.
      assert (Hb : queued (nd (upd l k (fun x => ran x N (inb k fires) (val x))) m) = true -> queued (nd l m) = true).
      { rewrite nd_upd. case_decide; [simpl; discriminate|auto]. }
      destruct (inb k fires && lchild (nd l k)); simpl; auto.
      destruct (watched (nd l k)) as [w|] eqn:Ew; simpl; auto.
      match goal with |- context [if ?c then _ else _] => destruct c eqn:E end; simpl; auto.
      rewrite (nd_upd _ w). case_decide as Hd; auto. destruct Hd as [-> _]. intros _. right. right.
      repeat (apply andb_true_iff in E as [E ?]).
      assert (w <> k). { intros ->. rewrite nd_upd in H. case_decide; [|tauto]. simpl in H. apply Nat.ltb_lt in H. flia. }
      rewrite nd_upd in H1. case_decide; [tauto|]. unfold isSent. rewrite Ek. auto.
Qed.

(** the loop invariant of pass [N] for values: what has run sits no higher than what is
    queued *)
Record PV (N : nat) (l : list node) : Prop := {
  v_stamps : Stamps (S N) l;
  v_invW : InvW N l;
  v_invG : InvG l;
  v_q : forall m, queued (nd l m) = true -> rAt (nd l m) < N;
  v_H : forall r q, rAt (nd l r) = N -> queued (nd l q) = true -> height (nd l r) <= height (nd l q)
}.

Lemma queued_reg l m : InvG l -> queued (nd l m) = true -> reg (nd l m) = true.
Proof.
  intros HG Hq. destruct (reg (nd l m)) eqn:E; auto. destruct (g_unreg _ HG m E). congruence.
Qed.

Lemma PV_step_gen N fires l g k :
  PV N l -> k < length l -> queued (nd l k) = true ->
  (forall m, queued (nd l m) = true -> height (nd l k) <= height (nd l m)) ->
  PV N (fst (stepNode N fires l k g)).
Proof.
  intros [HS HI HG Hq HH] Hk Hqk Hmin.
  pose proof (Hq _ Hqk) as Hrk. pose proof (queued_reg _ _ HG Hqk) as Hregk.
  pose proof (stepNode_stepped N fires l k g Hk) as [Hl Hs].
  destruct (stepNode_detail N fires l k g Hk) as (D1 & D2 & D3).
  pose proof (i_static _ _ HI) as HS0.
  set (l' := fst (stepNode N fires l k g)) in *.
  assert (Hkind : forall m, kind_ (nd l' m) = kind_ (nd l m)) by (intros m; apply (Hs m)).
  assert (Hreg : forall m, reg (nd l' m) = reg (nd l m)) by (intros m; apply (Hs m)).
  assert (Hht : forall m, height (nd l' m) = height (nd l m)) by (intros m; apply (Hs m)).
  assert (Hrat : forall m, rAt (nd l' m) = if decide (m = k) then N else rAt (nd l m)) by (intros m; apply (Hs m)).
  (* a newly queued node sits above k *)
  assert (Hnew : forall q, queued (nd l' q) = true -> queued (nd l q) = true \/ height (nd l k) < height (nd l q)).
  { intros q Hq'. destruct (D2 q Hq') as [?|[[Hc Hr]|(Hw & Hsk & Hr)]]; auto; right.
    - apply isMapOf_spec in Hc as [f Hc]. apply (g_edge _ HG _ _ _ Hc Hr).
    - destruct (i_sent _ _ HI _ _ Hw) as (_&_&_&H4). destruct (H4 Hr) as (_&?&_). auto. }
  (* a dependent of k in the graph has not run yet, so it is queued now *)
  assert (Hkid : forall c f, kind_ (nd l c) = KMap f k -> reg (nd l c) = true -> queued (nd l' c) = true).
  { intros c f Hc Hr. destruct (i_kmap _ HS0 _ _ _ Hc) as [Hkc Hsk].
    destruct (g_edge _ HG _ _ _ Hc Hr) as [_ Hh].
    apply D1; auto; [apply isMapOf_spec; eauto| |flia].
    destruct (HS c) as [Hle _]. destruct (decide (rAt (nd l c) = N)) as [E|]; [|flia].
    pose proof (HH c k E Hqk). flia. }
  constructor.
  - apply stamps_stepNode; auto.
  - apply invW_stepNode; auto.
  - constructor.
    + intros m f a. rewrite Hkind, !Hreg, !Hht. apply (g_edge _ HG).
    + intros n. destruct (Hs n) as ((_&_&_&_&_&_&O)&_). rewrite Hreg, O. apply (g_obs _ HG).
    + intros n. rewrite Hreg, Hrat. intros Hr. destruct (g_unreg _ HG n Hr) as [Hqn Han].
      destruct (decide (n = k)) as [->|]; [congruence|]. split; auto.
      destruct (queued (nd l' n)) eqn:E; auto. destruct (Hs n) as (_&_&Q1&_).
      destruct (Q1 E) as [_ [?|(_&_&?)]]; congruence.
    + intros m f a. rewrite Hkind, Hreg. intros Hkm Hr.
      destruct (i_kmap _ HS0 _ _ _ Hkm) as [Ham Hsa].
      destruct (decide (m = k)) as [->|Hne].
      * right. rewrite (D3 _ _ Hkm). destruct (Hs a) as (_&_&_&_&V). destruct V as [V _]; [flia|]. rewrite V. auto.
      * destruct (decide (a = k)) as [->|Hna].
        -- left. exists m. split; [constructor|]. eapply Hkid; eauto.
        -- destruct (Hs m) as (_&_&_&_&Vm), (Hs a) as (_&_&_&_&Va).
           destruct (Vm Hne) as [-> _]. destruct (Va Hna) as [-> _].
           destruct (g_cons _ HG _ _ _ Hkm Hr) as [(b & Hab & Hqb)|]; auto. left.
           assert (Hanc : forall x y, anc l x y -> anc l' x y).
           { intros x y. apply anc_mono. intros z f' a'. rewrite Hkind. auto. }
           destruct (decide (b = k)) as [->|Hnb].
           ++ destruct (anc_child _ _ _ Hab Hne) as (c & f' & Hc1 & Hc2).
              destruct (anc_reg l m c (g_edge _ HG) Hc1 Hr) as [Hrc _].
              exists c. split; auto. eapply Hkid; eauto.
           ++ exists b. split; auto. destruct (Hs b) as (_&_&_&Q2&_). auto.
  - intros m Hm. rewrite Hrat. destruct (Hs m) as (_&_&Q1&_). destruct (Q1 Hm) as [Hne [?|(?&_)]].
    + destruct (decide (m = k)); [congruence|]. auto.
    + destruct (decide (m = k)); [congruence|]. auto.
  - intros r q. rewrite Hrat, !Hht. intros Hr Hq'.
    destruct (decide (r = k)) as [->|Hne].
    + destruct (Hnew q Hq') as [?|?]; [auto|flia].
    + destruct (Hnew q Hq') as [?|?]; [auto|]. pose proof (HH r k Hr Hqk). flia.
Qed.

Lemma PV_step N fires l g k :
  PV N l -> pick l = Some k -> PV N (fst (stepNode N fires l k g)).
Proof.
  intros HP Ek. destruct (pick_Some _ _ Ek) as (Hk & Hqk & Hmin). apply PV_step_gen; auto.
Qed.

Lemma PV_start N l : Stamps N l -> InvW N l -> InvG l -> PV N l.
Proof.
  intros HS HI HG. constructor; auto.
  - eapply stamps_mono; [|eauto]. flia.
  - intros m _. apply HS.
  - intros r q Hr. destruct (HS r). flia.
Qed.

(** the end of the loop: everything in the graph is consistent with its input *)
Lemma pass_end s fires :
  0 < num s -> Stamps (num s) (nodes s) -> InvW (num s) (nodes s) -> InvG (nodes s) ->
  let l' := nodes (fst (Stabilize s fires)) in
  InvG l' /\
  (forall m f a, kind_ (nd l' m) = KMap f a -> reg (nd l' m) = true ->
                 val (nd l' m) = apply f (val (nd l' a))).
Proof.
  intros HN HS HI HG l'. unfold l'. rewrite Stabilize_nodes.
  set (N := num s) in *. set (l := nodes s) in *.
  destruct (loop_generic (fun l0 _ => PV N l0) N fires) with (fuel := length l) (l := l) (g := plog0)
    (popped := @nil nat) as [HP Hend].
  - intros. apply PV_step; auto.
  - intros l0 g m HP. apply (v_q _ _ HP).
  - apply PV_start; auto.
  - constructor.
  - intros p Hp. inversion Hp.
  - simpl. flia.
  - set (l1 := fst (stabLoop (length l) N fires l plog0)) in *. simpl in HP.
    pose proof (pick_None _ Hend) as Hnq. pose proof (v_invG _ _ HP) as G1. pose proof (v_invW _ _ HP) as W1.
    assert (F : forall m, kind_ (nd (requeue N l1) m) = kind_ (nd l1 m) /\ reg (nd (requeue N l1) m) = reg (nd l1 m) /\
             height (nd (requeue N l1) m) = height (nd l1 m) /\ obs (nd (requeue N l1) m) = obs (nd l1 m) /\
             val (nd (requeue N l1) m) = val (nd l1 m) /\ rAt (nd (requeue N l1) m) = rAt (nd l1 m) /\
             (queued (nd l1 m) = true -> queued (nd (requeue N l1) m) = true) /\
             (queued (nd (requeue N l1) m) = true -> queued (nd l1 m) = true \/ reg (nd l1 m) = true)).
    { intros m. unfold requeue. rewrite nd_imap. case_decide; [|rewrite nd_ge by flia; simpl; auto 10].
      destruct (isSent (nd l1 m) && (rAt (nd l1 m) =? N) && reg (nd l1 m)) eqn:E; [|auto 10].
      apply andb_true_iff in E as [_ E]. simpl. auto 10. }
    split; [apply (invG_frame l1 _ G1 F)|].
    intros m f a. destruct (F m) as (K&R&_&_&V&_), (F a) as (_&_&_&_&V'&_). rewrite K, R, V, V'.
    intros Hk Hr. destruct (g_cons _ G1 _ _ _ Hk Hr) as [(b & _ & Hb)|]; auto.
    rewrite Hnq in Hb. discriminate.
Qed.

(** the stopped pass keeps the value invariant: whatever ran in it has all its inputs, up to
    the var, recomputed in it as well *)
Lemma map_height_pos l m : InvG l -> isMap (nd l m) = true -> reg (nd l m) = true -> 0 < height (nd l m).
Proof.
  intros HG Hm Hr. unfold isMap in Hm. destruct (kind_ (nd l m)) eqn:Ek; try discriminate.
  destruct (g_edge _ HG _ _ _ Ek Hr). flia.
Qed.

Record PS (N : nat) (l : list node) : Prop := {
  s_stamps : Stamps (S N) l;
  s_invW : InvW N l;
  s_invG : InvG l;
  s_q : forall m, queued (nd l m) = true -> rAt (nd l m) < N;
  s_RA : forall r b, rAt (nd l r) = N -> isSent (nd l r) = false -> anc l r b -> rAt (nd l b) = N
}.

Lemma PS_step N fires l g k :
  PS N l -> k < length l -> queued (nd l k) = true ->
  (height (nd l k) = 0 \/ exists f a, kind_ (nd l k) = KMap f a /\ rAt (nd l a) = N) ->
  PS N (fst (stepNode N fires l k g)).
Proof.
  intros [HS HI HG Hq HH] Hk Hqk Hguard.
  pose proof (Hq _ Hqk) as Hrk. pose proof (queued_reg _ _ HG Hqk) as Hregk.
  pose proof (stepNode_stepped N fires l k g Hk) as [Hl Hs].
  destruct (stepNode_detail N fires l k g Hk) as (D1 & D2 & D3).
  pose proof (i_static _ _ HI) as HS0.
  set (l' := fst (stepNode N fires l k g)) in *.
  assert (Hkind : forall m, kind_ (nd l' m) = kind_ (nd l m)) by (intros m; apply (Hs m)).
  assert (Hreg : forall m, reg (nd l' m) = reg (nd l m)) by (intros m; apply (Hs m)).
  assert (Hht : forall m, height (nd l' m) = height (nd l m)) by (intros m; apply (Hs m)).
  assert (Hrat : forall m, rAt (nd l' m) = if decide (m = k) then N else rAt (nd l m)) by (intros m; apply (Hs m)).
  (* a newly queued node sits above k *)
  assert (Hnew : forall q, queued (nd l' q) = true -> queued (nd l q) = true \/ height (nd l k) < height (nd l q)).
  { intros q Hq'. destruct (D2 q Hq') as [?|[[Hc Hr]|(Hw & Hsk & Hr)]]; auto; right.
    - apply isMapOf_spec in Hc as [f Hc]. apply (g_edge _ HG _ _ _ Hc Hr).
    - destruct (i_sent _ _ HI _ _ Hw) as (_&_&_&H4). destruct (H4 Hr) as (_&?&_). auto. }
  (* a dependent of k in the graph has not run yet, so it is queued now *)
  assert (Hkid : forall c f, kind_ (nd l c) = KMap f k -> reg (nd l c) = true -> queued (nd l' c) = true).
  { intros c f Hc Hr. destruct (i_kmap _ HS0 _ _ _ Hc) as [Hkc Hsk].
    destruct (g_edge _ HG _ _ _ Hc Hr) as [_ Hh].
    apply D1; auto; [apply isMapOf_spec; eauto| |flia].
    destruct (HS c) as [Hle _]. destruct (decide (rAt (nd l c) = N)) as [E|]; [|flia].
    assert (Hsc : isSent (nd l c) = false) by (unfold isSent; rewrite Hc; auto).
    pose proof (HH c k E Hsc (anc_step l c f k k Hc (anc_refl l k))). flia. }
  constructor.
  - apply stamps_stepNode; auto.
  - apply invW_stepNode; auto.
  - constructor.
    + intros m f a. rewrite Hkind, !Hreg, !Hht. apply (g_edge _ HG).
    + intros n. destruct (Hs n) as ((_&_&_&_&_&_&O)&_). rewrite Hreg, O. apply (g_obs _ HG).
    + intros n. rewrite Hreg, Hrat. intros Hr. destruct (g_unreg _ HG n Hr) as [Hqn Han].
      destruct (decide (n = k)) as [->|]; [congruence|]. split; auto.
      destruct (queued (nd l' n)) eqn:E; auto. destruct (Hs n) as (_&_&Q1&_).
      destruct (Q1 E) as [_ [?|(_&_&?)]]; congruence.
    + intros m f a. rewrite Hkind, Hreg. intros Hkm Hr.
      destruct (i_kmap _ HS0 _ _ _ Hkm) as [Ham Hsa].
      destruct (decide (m = k)) as [->|Hne].
      * right. rewrite (D3 _ _ Hkm). destruct (Hs a) as (_&_&_&_&V). destruct V as [V _]; [flia|]. rewrite V. auto.
      * destruct (decide (a = k)) as [->|Hna].
        -- left. exists m. split; [constructor|]. eapply Hkid; eauto.
        -- destruct (Hs m) as (_&_&_&_&Vm), (Hs a) as (_&_&_&_&Va).
           destruct (Vm Hne) as [-> _]. destruct (Va Hna) as [-> _].
           destruct (g_cons _ HG _ _ _ Hkm Hr) as [(b & Hab & Hqb)|]; auto. left.
           assert (Hanc : forall x y, anc l x y -> anc l' x y).
           { intros x y. apply anc_mono. intros z f' a'. rewrite Hkind. auto. }
           destruct (decide (b = k)) as [->|Hnb].
           ++ destruct (anc_child _ _ _ Hab Hne) as (c & f' & Hc1 & Hc2).
              destruct (anc_reg l m c (g_edge _ HG) Hc1 Hr) as [Hrc _].
              exists c. split; auto. eapply Hkid; eauto.
           ++ exists b. split; auto. destruct (Hs b) as (_&_&_&Q2&_). auto.
  - intros m Hm. rewrite Hrat. destruct (Hs m) as (_&_&Q1&_). destruct (Q1 Hm) as [Hne [?|(?&_)]].
    + destruct (decide (m = k)); [congruence|]. auto.
    + destruct (decide (m = k)); [congruence|]. auto.
  - intros r b. rewrite !Hrat. unfold isSent. rewrite Hkind. fold (isSent (nd l r)). intros Hr Hsr Hab.
    assert (Hab' : anc l r b). { eapply anc_mono; [|eauto]. intros z f' a'. rewrite Hkind. auto. }
    destruct (decide (b = k)); auto.
    destruct (decide (r = k)) as [->|Hne]; [|apply (HH r b); auto].
    destruct Hguard as [H0|(f & a & Hkk & Hra)].
    + inversion Hab' as [|x f a b' Hkk Ha]; subst; [congruence|].
      assert (isMap (nd l k) = true) by (unfold isMap; rewrite Hkk; auto).
      pose proof (map_height_pos l k HG H Hregk). flia.
    + inversion Hab' as [|x f' a' b' Hkk' Ha]; subst; [congruence|].
      rewrite Hkk in Hkk'. inversion Hkk'; subst.
      destruct (i_kmap _ HS0 _ _ _ Hkk) as [_ Hsa]. apply (HH a' b); auto.
Qed.

Lemma PS_start N l : Stamps N l -> InvW N l -> InvG l -> PS N l.
Proof.
  intros HS HI HG. constructor; auto.
  - eapply stamps_mono; [|eauto]. flia.
  - intros m _. apply HS.
  - intros r b Hr. destruct (HS r). flia.
Qed.

Lemma PS_panicked N l k :
  0 < N -> PS N l -> queued (nd l k) = true -> isSent (nd l k) = true -> PS N (upd l k panicked_).
Proof.
  intros HN [HS HI HG Hq HH] Hqk Hsk. pose proof (queued_reg _ _ HG Hqk) as Hrk.
  assert (F : forall m, kind_ (nd (upd l k panicked_) m) = kind_ (nd l m) /\ reg (nd (upd l k panicked_) m) = reg (nd l m) /\
             height (nd (upd l k panicked_) m) = height (nd l m) /\ obs (nd (upd l k panicked_) m) = obs (nd l m) /\
             val (nd (upd l k panicked_) m) = val (nd l m) /\ queued (nd (upd l k panicked_) m) = queued (nd l m) /\
             (rAt (nd (upd l k panicked_) m) = rAt (nd l m) \/ (m = k /\ rAt (nd (upd l k panicked_) m) = 0))).
  { intros m. rewrite nd_upd. case_decide as Hd; [|auto 10]. destruct Hd as [-> _]. simpl. auto 10. }
  set (l1 := upd l k panicked_) in *.
  constructor.
  - unfold l1, upd. st_imap.
  - apply invW_panicked; auto.
  - constructor.
    + intros m f a. destruct (F m) as (K&R&H&_), (F a) as (_&R'&H'&_). rewrite K, R, H, R', H'. apply (g_edge _ HG).
    + intros n. destruct (F n) as (_&R&_&O&_). rewrite R, O. apply (g_obs _ HG).
    + intros n. destruct (F n) as (_&R&_&_&_&Q&A). rewrite R, Q. intros Hr. destruct (g_unreg _ HG n Hr).
      destruct A as [->|[_ ->]]; auto.
    + intros m f a. destruct (F m) as (K&R&_&_&V&_), (F a) as (_&_&_&_&V'&_). rewrite K, R, V, V'.
      intros Hk Hr. destruct (g_cons _ HG _ _ _ Hk Hr) as [Hd|]; auto. left.
      apply (dirty_mono l l1); auto.
      * intros x f' a'. destruct (F x) as (K'&_). rewrite K'. auto.
      * intros b. destruct (F b) as (_&_&_&_&_&Q&_). rewrite Q. auto.
  - intros m. destruct (F m) as (_&_&_&_&_&Q&A). rewrite Q. intros Hm. destruct A as [->|[_ ->]]; auto.
  - intros r b. destruct (F r) as (K&_&_&_&_&_&A). unfold isSent. rewrite K. fold (isSent (nd l r)).
    intros Hr Hsr Hab.
    assert (Hab' : anc l r b). { eapply anc_mono; [|eauto]. intros z f' a'. destruct (F z) as (K'&_). rewrite K'. auto. }
    assert (Hrr : rAt (nd l r) = N). { destruct A as [<-|[_ E]]; auto. rewrite E in Hr. flia. }
    destruct (F b) as (_&_&_&_&_&_&[->|[-> _]]); [apply (HH r b); auto|].
    apply (anc_sent l r k (i_static _ _ HI) Hab') in Hsk. subst. congruence.
Qed.

Lemma runnable_spec N l k :
  runnable N l k = true ->
  queued (nd l k) = true /\
  (height (nd l k) = 0 \/ exists f a, kind_ (nd l k) = KMap f a /\ rAt (nd l a) = N).
Proof.
  unfold runnable. intros H. apply andb_true_iff in H as [H1 H2]. split; auto.
  apply orb_true_iff in H2 as [H2|H2]; [left; apply Nat.eqb_eq; auto|right].
  destruct (kind_ (nd l k)) eqn:E; try discriminate. apply Nat.eqb_eq in H2. eauto.
Qed.

Lemma PS_stoppedLoop N fires ran failed panicked l :
  0 < N -> PS N l -> PS N (fst (stoppedLoop head N fires ran failed panicked l)).
Proof.
  intros HN HP. unfold stoppedLoop.
  set (P := fun lg : list node * plog => PS N (fst lg)).
  assert (Hf : forall pan lg x, P lg -> P (failStep head pan lg x)).
  { intros pan lg x H1. unfold P, failStep in *. destruct (queued (nd (fst lg) x)) eqn:Eq; simpl; auto.
    destruct (isSent _) eqn:Es; simpl; auto. destruct pan; auto. apply PS_panicked; auto. }
  apply (fold_inv P); [intros; apply Hf; auto|].
  apply (fold_inv P); [intros; apply Hf; auto|].
  apply (fold_inv P); [|auto].
  intros [l0 g0] k H1. unfold P, runListed in *. simpl in *.
  destruct (runnable N l0 k) eqn:Er; simpl; auto. destruct (negb _); simpl; auto.
  destruct (runnable_spec _ _ _ Er) as [Eq Hg]. apply PS_step; auto. apply queued_lt; auto.
Qed.

Lemma requeue_frame N l1 m :
  kind_ (nd (requeue N l1) m) = kind_ (nd l1 m) /\ reg (nd (requeue N l1) m) = reg (nd l1 m) /\
  height (nd (requeue N l1) m) = height (nd l1 m) /\ obs (nd (requeue N l1) m) = obs (nd l1 m) /\
  val (nd (requeue N l1) m) = val (nd l1 m) /\ rAt (nd (requeue N l1) m) = rAt (nd l1 m) /\
  (queued (nd l1 m) = true -> queued (nd (requeue N l1) m) = true) /\
  (queued (nd (requeue N l1) m) = true -> queued (nd l1 m) = true \/ reg (nd l1 m) = true).
Proof.
  unfold requeue. rewrite nd_imap. case_decide; [|rewrite nd_ge by flia; simpl; auto 10].
  destruct (isSent (nd l1 m) && (rAt (nd l1 m) =? N) && reg (nd l1 m)) eqn:E; [|auto 10].
  apply andb_true_iff in E as [_ E]. simpl. auto 10.
Qed.

Lemma stopped_end s fires ran failed panicked :
  0 < num s -> Stamps (num s) (nodes s) -> InvW (num s) (nodes s) -> InvG (nodes s) ->
  InvG (nodes (fst (StabilizeStopped head s fires ran failed panicked))).
Proof.
  intros HN HS HI HG. unfold StabilizeStopped. simpl.
  pose proof (PS_stoppedLoop (num s) fires ran failed panicked (nodes s) HN (PS_start _ _ HS HI HG)) as HP.
  apply (invG_frame _ _ (s_invG _ _ HP)). intros m. apply requeue_frame.
Qed.

Lemma invG_step s o :
  0 < num s -> Stamps (num s) (nodes s) -> InvW (num s) (nodes s) -> InvG (nodes s) ->
  InvG (nodes (fst (step head s o))).
Proof.
  intros HN HS HI HG. pose proof (i_static _ _ HI) as HS0.
  destruct o as [v|f a|w|n|n|n v|xx|fires|fires ran failed panicked]; simpl.
  - apply invG_NewVar; auto.
  - apply invG_NewMap; auto.
  - apply invG_NewSentinel; auto.
  - eapply invG_Observe; eauto.
  - eapply invG_Unobserve; eauto.
  - eapply invG_SetVar; eauto.
  - eapply invG_Unwatch; eauto.
  - apply pass_end; auto.
  - apply stopped_end; auto.
Qed.

Lemma invG_init : InvG [].
Proof.
  constructor; intros *; rewrite ?nd_ge by (simpl; flia); simpl; intros; try discriminate; auto; flia.
Qed.

Lemma invG_run ops : forall s,
  0 < num s -> Stamps (num s) (nodes s) -> InvW (num s) (nodes s) -> InvG (nodes s) ->
  InvG (nodes (run head s ops)).
Proof.
  induction ops as [|o ops IH]; intros s HN HS HI HG; simpl; auto.
  destruct (stamps_step s o HN HS). apply IH; auto; [apply invW_step|apply invG_step]; auto.
Qed.

(** Theorem 3: after a pass, every node in the graph holds its from-scratch value *)
Theorem values_after_pass ops fires m v :
  let l' := nodes (fst (last_pass head ops fires)) in
  reg (nd l' m) = true -> scratch l' m v -> val (nd l' m) = v.
Proof.
  intros l'. unfold l', last_pass. destruct (boundary ops) as (HN & HS & HI).
  pose proof (invG_run ops init ltac:(simpl; flia) stamps_init invW_init invG_init) as HG.
  destruct (pass_end (run head init ops) fires HN HS HI HG) as [G' Hfresh].
  set (l1 := nodes (fst (Stabilize (run head init ops) fires))) in *.
  intros Hr Hsc. induction Hsc as [n Hk|n f a v Hk Hsc IH]; auto.
  destruct (g_edge _ G' _ _ _ Hk Hr) as [Hra _].
  rewrite (Hfresh _ _ _ Hk Hr), (IH Hra). reflexivity.
Qed.

(** every Var and Map has a from-scratch value (the statement above is not vacuous) *)
Lemma scratch_total l : Static l -> forall n m, m < n -> isSent (nd l m) = false -> exists v, scratch l m v.
Proof.
  intros HS. induction n as [|n IH]; intros m Hm Hs; [flia|].
  destruct (kind_ (nd l m)) eqn:Ek.
  - eexists. apply scratch_var; auto.
  - destruct (i_kmap _ HS _ _ _ Ek) as [Ha Hsa]. destruct (IH a) as [v Hv]; auto; [flia|].
    eexists. eapply scratch_map; eauto.
  - unfold isSent in Hs. rewrite Ek in Hs. discriminate.
Qed.

Theorem values_defined ops fires m :
  let l' := nodes (fst (last_pass head ops fires)) in
  isSent (nd l' m) = false -> exists v, scratch l' m v /\ (reg (nd l' m) = true -> val (nd l' m) = v).
Proof.
  intros l' Hs. unfold l', last_pass in *.
  pose proof (invW_step (run head init ops) (OStabilize fires) (proj2 (proj2 (boundary ops)))) as HI.
  simpl in HI. destruct (scratch_total _ (i_static _ _ HI) (S m) m) as [v Hv]; auto.
  exists v. split; auto. intros Hr. eapply values_after_pass; eauto.
Qed.

(** * Passes stopped by a failing predicate *)

(** in a stopped pass only listed nodes run: a Map function that runs belongs to a node of
    [ran] (under ParallelStabilize, and under Stabilize unless a dependent was recomputed
    directly after a height-0 node, [ran] holds height-0 nodes only, and no Map runs) *)
Lemma runListed_runs N fires skip ks : forall lg m,
  m ∈ map fst (runs (snd (fold_left (runListed N fires skip) ks lg))) ->
  m ∈ map fst (runs (snd lg)) \/ m ∈ ks.
Proof.
  induction ks as [|k ks IH]; intros lg m H; simpl in *; auto.
  apply IH in H as [H|H]; [|right; right; auto]. unfold runListed in H.
  destruct (_ && _); auto. destruct (stepNode_log N fires (fst lg) k (snd lg)) as (arg & E & _).
  rewrite E, map_app in H. apply elem_of_app in H as [H|H]; auto.
  destruct (isMap _); simpl in H; [|inversion H]. apply elem_of_list_singleton in H. subst. right. left.
Qed.

Lemma failStep_runs pan xs : forall lg, runs (snd (fold_left (failStep head pan) xs lg)) = runs (snd lg).
Proof.
  induction xs as [|x xs IH]; intros lg; simpl; auto. rewrite IH. unfold failStep.
  destruct (_ && _); auto.
Qed.

Theorem stopped_pass_runs_listed ops fires ran failed panicked m :
  m ∈ map fst (runs (snd (last_stopped head ops fires ran failed panicked))) -> m ∈ ran.
Proof.
  unfold last_stopped, StabilizeStopped, stoppedLoop. simpl. rewrite !failStep_runs.
  intros H. apply runListed_runs in H as [H|H]; auto. inversion H.
Qed.

Lemma run_snoc c ops o : run c init (ops ++ [o]) = fst (step c (run c init ops) o).
Proof. rewrite run_app. reflexivity. Qed.

(** after a stopped pass every watching sentinel whose node is in the graph is queued, and
    its watch edge is intact *)
Theorem stopped_pass_requeues ops fires ran failed panicked x w :
  stopped_stmt head ops fires ran failed panicked x w.
Proof.
  unfold stopped_stmt. set (l := nodes (fst (last_stopped head ops fires ran failed panicked))). intros Hw Hr.
  pose proof (watch_edge_invariant (ops ++ [OStabilizeStopped fires ran failed panicked]) x) as H.
  unfold watch_stmt in H. rewrite run_snoc in H. cbn [step] in H. unfold last_stopped in l.
  change (nodes (StabilizeStopped head (run head init ops) fires ran failed panicked).1) with l in H.
  cbv zeta in H. rewrite Hw in H. destruct H as (_ & _ & _ & _ & _ & _ & H). destruct (H Hr) as (?&?&?&?). auto.
Qed.

(** a sentinel whose predicate failed in the stopped pass is still queued after it *)
Lemma failStep_queued pan lg x k :
  queued (nd (fst lg) k) = true -> queued (nd (fst (failStep head pan lg x)) k) = true.
Proof.
  intros H. unfold failStep. destruct (_ && _); simpl; auto. destruct pan; auto.
  rewrite nd_upd. case_decide as Hd; auto.
Qed.

Lemma failStep_evals pan lg x k :
  k ∈ evals (snd (failStep head pan lg x)) ->
  k ∈ evals (snd lg) \/ (k = x /\ queued (nd (fst lg) x) = true).
Proof.
  unfold failStep. destruct (queued (nd (fst lg) x)) eqn:Eq; simpl; auto.
  destruct (isSent _); simpl; auto. intros H. apply elem_of_app in H as [H|H]; auto.
  apply elem_of_list_singleton in H. auto.
Qed.

Lemma fails_stay_queued pan xs : forall lg k,
  (k ∈ evals (snd lg) -> queued (nd (fst lg) k) = true) ->
  k ∈ evals (snd (fold_left (failStep head pan) xs lg)) ->
  queued (nd (fst (fold_left (failStep head pan) xs lg)) k) = true.
Proof.
  induction xs as [|x xs IH]; intros lg k H; simpl; auto.
  apply IH. intros Hk. apply failStep_evals in Hk as [Hk|[-> Hq]]; apply failStep_queued; auto.
Qed.

Lemma runListed_evals N fires skip ks : forall lg k,
  k ∈ skip -> k ∉ evals (snd lg) -> k ∉ evals (snd (fold_left (runListed N fires skip) ks lg)).
Proof.
  induction ks as [|j ks IH]; intros lg k Hs Hk; simpl; auto.
  apply IH; auto. unfold runListed.
  destruct (runnable N (fst lg) j) eqn:E1; simpl; auto. destruct (inb j skip) eqn:E2; simpl; auto.
  destruct (stepNode_log N fires (fst lg) j (snd lg)) as (arg & _ & ->).
  intros H. apply elem_of_app in H as [H|H]; auto. destruct (isSent _); [|inversion H].
  apply elem_of_list_singleton in H. subst. apply inb_true in Hs. congruence.
Qed.

Theorem failed_sentinel_stays_queued ops fires ran failed panicked x :
  let r := last_stopped head ops fires ran failed panicked in
  x ∈ failed ++ panicked -> x ∈ evals (snd r) -> queued (nd (nodes (fst r)) x) = true.
Proof.
  intros r Hx He. unfold r, last_stopped, StabilizeStopped in *. simpl in *.
  apply requeue_frame. unfold stoppedLoop in *.
  apply fails_stay_queued; auto. apply fails_stay_queued; auto.
  intros Hk. exfalso. revert Hk. apply runListed_evals; auto. simpl. intros H. inversion H.
Qed.

(** the retry: the fault-free pass after a stopped pass evaluates every watching sentinel
    whose node is in the graph exactly once, wakes the Maps of those that fire exactly once,
    and leaves every node of the graph at its from-scratch value *)
Theorem retry_after_stopped_pass ops fires ran failed panicked fires' :
  let ops' := ops ++ [OStabilizeStopped fires ran failed panicked] in
  (forall x w, pass_stmt head ops' fires' x w) /\
  (forall m v, let l' := nodes (fst (last_pass head ops' fires')) in
               reg (nd l' m) = true -> scratch l' m v -> val (nd l' m) = v).
Proof.
  intros ops'. split.
  - intros x w. apply sentinel_pass.
  - intros m v. apply values_after_pass.
Qed.

(** the line that puts a panicked node back on the heap is what 5a depends on: without it a
    sentinel whose predicate panics drops out of the heap and is never evaluated again *)
Definition hist_panic : list op := [ONewVar 5; ONewMap f1 0; ONewSentinel 1; OObserve 1].

Lemma requeue_panicked_refuted : ~ stopped_stmt (Cfg true true true false) hist_panic [] [] [] [2] 2 1.
Proof.
  unfold stopped_stmt. vm_compute. intros H. destruct (H eq_refl eq_refl) as [H1 _]. discriminate.
Qed.
