(** Stage B2 (definitions): the loop invariant of a serial pass without a plan on a graph with
    binds in which bind functions MAY run (binds swap).  The graph structure is no longer
    constant: the structural facts come from [EngineInvProofs.PInv] (the mid-pass structural
    invariant), which is carried alongside; [LInvC] has the value clauses only. *)
From incr Require Import Base Heap HeapSpec EngineDefs Engine EngineRun EngineWf Spec PassInv PassBind.

(** what "clean" means for a node: it holds its function of its inputs; a lhs-change node: the
    right-hand side of its bind is the instantiation of the case its input selects *)
Definition clean_ok (s : state) (n : nid) : bool :=
  consistent_valB s n (value (nd s n)) &&
  match nkind (nd s n) with
  | KBindLhs b => negb (bool_decide (n = b)) || negb (inGraph (nd s (S b)))
                  || negb (bool_decide (nkind (nd s (S b)) = KBindMain b)) || matchesOK s b
  | _ => true
  end.

Record LInvC (s : state) (cur : option nid) : Prop := {
  lc_shape : Shape s;
  lc_stamps : forall n, stamps_node s false n = true;
  lc_B : forall w n, inW s cur w = true -> reach s w n -> isDone s n = false;
  lc_M : forall m w, cur = Some m -> w ∈ Heap.ids (heap s) -> reach s w m -> False;
  lc_owed : forall n, inGraph (nd s n) = true -> isDone s n = false -> isStale s n = true ->
                      inW s cur n = true;
  lc_clean : forall n, inGraph (nd s n) = true -> inW s cur n = false ->
                       guarded s cur n = true -> clean_ok s n = true;
  lc_unreg : forall n, inGraph (nd s n) = false -> valid (nd s n) = true ->
                       recomputedAt (nd s n) = 0 /\ changedAt (nd s n) = 0;
  (* no plan: no var is written during the pass *)
  lc_quiet : setDuring s = [] /\ setRemoved s = []
}.

Definition lc_codes (s : state) (cur : option nid) : list nat :=
  let W : list nid := Heap.ids (heap s) ++ match cur with Some m => [m] | None => [] end in
  let fuel := length (allNodes s) in
  code (shape_b s) 70 ++
  code (forallb (stamps_node s false) (allNodes s)) 72 ++
  code (forallb (fun w => forallb (fun n => negb (isDone s n)) (descs fuel s w)) W) 73 ++
  code (match cur with
        | Some m => forallb (fun w => negb (bool_decide (m ∈ descs fuel s w))) (Heap.ids (heap s))
        | None => true
        end) 74 ++
  code (forallb (fun n => negb (inGraph (nd s n)) || isDone s n || negb (isStale s n) || inW s cur n)
                (allNodes s)) 75 ++
  code (forallb (fun n => negb (inGraph (nd s n)) || inW s cur n || negb (guarded s cur n)
                          || clean_ok s n) (allNodes s)) 76 ++
  code (forallb (fun n => inGraph (nd s n) || negb (valid (nd s n)) ||
                          ((recomputedAt (nd s n) =? 0) && (changedAt (nd s n) =? 0))) (allNodes s)) 77 ++
  code (bool_decide (setDuring s = []) && bool_decide (setRemoved s = [])) 78.

Definition pass_codesC (s : state) : list nat :=
  let s1 := emit EvPassStart (s <| status := 1 |>) in
  lc_codes s1 None ++
  match loopChk lc_codes (passFuel s1) [] s1 [] with
  | Ok (_, _, _, _, cs) => cs
  | _ => [98%nat]
  end.

(* every plan-free serial pass of a history: the first one during which a clause of [LInvC] fails,
   or after which the state is not [consistent] (18) *)
Fixpoint vc_trace (s : state) (os : list op) (i : nat) : option (nat * list nat) :=
  match os with
  | [] => None
  | o :: os =>
    let s := s <| log := [] |> in
    let isp := match o with Stabilize [] => true | _ => false end in
    let pc := if isp then pass_codesC s else [] in
    match pc with
    | _ :: _ => Some (i, pc)
    | [] =>
      match step s o with
      | Ok (s', e) =>
        match (if isp && match e with None => negb (consistent s') | _ => false end then [18%nat] else []) with
        | [] => vc_trace s' os (S i)
        | cs => Some (i, cs)
        end
      | _ => Some (i, [98%nat])
      end
    end
  end.
