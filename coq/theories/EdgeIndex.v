(** Model of the edge index of a node's parent / child / observer lists
    (/repo/edge_index.go, /repo/list_util.go), function by function, Go names kept.

    A list element is represented by its identifier ordinal ([nat]): the Go code only ever
    looks at [item.Node().id], and distinct nodes have distinct identifiers.  The state of
    one edge list is [(lst, index)] where [index = None] is Go's nil map.

    Slices.  A Go slice is modelled by the list of its [len] elements; what lies between
    [len] and [cap] is never read by this code (it is zeroed and then overwritten by
    [append]).  [list[i]] and [list[i] = x] with [i] out of range are [Crash IndexOutOfRange].

    Aliasing, which matters here.  In [edgeIndexRemove], [positions := index[id]] and
    [movedPositions := index[moved.Node().id]] are slice headers onto the backing arrays
    held by the map; [movedPositions[j] = position] writes into that array, so the map sees
    it, and when [moved] has the identifier being removed, [positions] sees it as well.  During
    the loop no map entry is assigned or deleted (only elements are written), so
    [positions[k]] always equals the current [index[id][k]] and [len(positions)] is the
    length read before the loop.  The model therefore threads the index through the loop,
    reads [positions[k]] from it, and takes the trip count from the initial length.  (Reading
    the position list once, before the loop, would be a different program: see
    [EdgeIndexProofs.snapshot_crashes].)

    [threshold] is a parameter of the functions; the Go constant [edgeIndexThreshold] is 64. *)
From incr Require Import Base.

Module EdgeIndex.

Notation index := (gmap nat (list nat)) (only parsing).
Definition t := (list nat * option index)%type.

Definition edgeIndexThreshold : nat := 64.

(** [index[id]]: a missing key reads as the nil slice *)
Definition posOf (ix : index) (id : nat) : list nat := default [] (ix !! id).

(** func edgeIndexBuild(list) map[Identifier][]int
      for position, item := range list { index[id] = append(index[id], position) } *)
Fixpoint buildFrom (position : nat) (lst : list nat) (ix : index) : index :=
  match lst with
  | [] => ix
  | id :: lst => buildFrom (S position) lst (<[id := posOf ix id ++ [position]]> ix)
  end.
Definition edgeIndexBuild (lst : list nat) : index := buildFrom 0 lst ∅.

(** func edgeIndexAppend(list, index, item) (list, index) *)
Definition edgeIndexAppend (threshold : nat) (s : t) (item : nat) : t :=
  let '(lst, index) := s in
  let lst := lst ++ [item] in
  match index with
  | Some ix => (lst, Some (<[item := posOf ix item ++ [(length lst - 1)%nat]]> ix))
  | None =>
    if (threshold <? length lst)%nat then (lst, Some (edgeIndexBuild lst))
    else (lst, None)
  end.

(** func remove(nodes, id) (output, removed): in-place compaction.
      kept := 0
      for _, n := range nodes { if n.id == id { removed = n; continue }; nodes[kept] = n; kept++ }
      return nodes[:kept], removed
    [range] fixes the trip count ([todo], counted down) and reads element [i] of the (already
    partly overwritten) backing array at iteration [i]. *)
Fixpoint removeLoop (todo i : nat) (nodes : list nat) (id : nat) (kept : nat) (removed : option nat)
  : res (list nat * nat * option nat) :=
  match todo with
  | O => Ok (nodes, kept, removed)
  | S todo =>
    match nodes !! i with
    | None => Crash IndexOutOfRange
    | Some n =>
      if (n =? id)%nat then removeLoop todo (S i) nodes id kept (Some n)
      else if (kept <? length nodes)%nat
           then removeLoop todo (S i) (<[kept := n]> nodes) id (S kept) removed
           else Crash IndexOutOfRange
    end
  end.

Definition remove (nodes : list nat) (id : nat) : res (list nat * option nat) :=
  '(nodes', kept, removed) <-! removeLoop (length nodes) 0 nodes id 0 None;
  if (kept <=? length nodes')%nat then Ok (take kept nodes', removed) else Crash IndexOutOfRange.

(** for j, p := range movedPositions { if p == last { movedPositions[j] = position; break } } *)
Fixpoint replaceFirst (last position : nat) (ps : list nat) : list nat :=
  match ps with
  | [] => []
  | p :: ps => if (p =? last)%nat then position :: ps else p :: replaceFirst last position ps
  end.

(** movedPositions := index[moved.id]; the write goes through to the map's backing array; a
    missing key is a nil slice, the loop body never runs and no entry is created *)
Definition fixMoved (ix : index) (moved last position : nat) : index :=
  match ix !! moved with
  | None => ix
  | Some ps => <[moved := replaceFirst last position ps]> ix
  end.

(** for k := len(positions) - 1; k >= 0; k-- { ... }   ([todo] = k+1) *)
Fixpoint removeAt (todo : nat) (lst : list nat) (ix : index) (id : nat) (removed : option nat)
  : res (list nat * index * option nat) :=
  match todo with
  | O => Ok (lst, ix, removed)
  | S k =>
    match posOf ix id !! k with                       (* position := positions[k] *)
    | None => Crash IndexOutOfRange
    | Some position =>
      match lst !! position with                     (* removed = list[position] *)
      | None => Crash IndexOutOfRange
      | Some r =>
        let last := (length lst - 1)%nat in
        '(lst1, ix1) <-!
          (if (position =? last)%nat then Ok (lst, ix)
           else match lst !! last with               (* moved := list[last] *)
                | None => Crash IndexOutOfRange
                | Some moved => Ok (<[position := moved]> lst, fixMoved ix moved last position)
                end);
        (* list[last] = zero; list = list[:last] *)
        removeAt k (take last lst1) ix1 id (Some r)
      end
    end
  end.

(** func edgeIndexRemove(list, index, id) (list, index, removed) *)
Definition edgeIndexRemove (threshold : nat) (s : t) (id : nat) : res (t * option nat) :=
  let '(lst, index) := s in
  match index with
  | None => '(lst', found) <-! remove lst id; Ok ((lst', None), found)
  | Some ix =>
    let positions := posOf ix id in
    if (length positions =? 0)%nat then Ok ((lst, Some ix), None)
    else
      '(lst', ix', removed) <-! removeAt (length positions) lst ix id None;
      let ix' := delete id ix' in
      if (length lst' <=? threshold / 2)%nat then Ok ((lst', None), removed)
      else Ok ((lst', Some ix'), removed)
  end.

(** What node.go does with them: addChildren/addParents/addObservers append one by one,
    removeChild/removeParent/removeObserver call edgeIndexRemove and drop the removed node. *)
Inductive op := Append (item : nat) | Remove (id : nat).

Definition empty : t := ([], None).

Definition step (threshold : nat) (s : t) (o : op) : res t :=
  match o with
  | Append item => Ok (edgeIndexAppend threshold s item)
  | Remove id => '(s', _) <-! edgeIndexRemove threshold s id; Ok s'
  end.

Definition run (threshold : nat) (ops : list op) (s : t) : res t := rfold (step threshold) ops s.

(** The plain-list operations the engine model (Engine.v: [l ++ [x]], [rm]) uses instead. *)
Definition spec_step (l : list nat) (o : op) : list nat :=
  match o with
  | Append item => l ++ [item]
  | Remove id => filter (fun x => x <> id) l
  end.
Definition spec_run (ops : list op) (l : list nat) : list nat := fold_left spec_step ops l.

End EdgeIndex.
