(** C03 (bind-free fragment) — exactly the owed nodes are recomputed, each once.
    Serial pass without a plan, from a state satisfying [wfb] and [PassInv.ValInv].
    [k = stabNum s] is the number of the pass; a node ran in the pass iff its [recomputedAt]
    stamp is [k] when the pass returns. *)
From incr Require Import Base Heap HeapSpec EngineDefs Engine EngineRun EngineWf Spec PassInv PassProofs.

Theorem C03_static : forall s s',
  wfb s = true -> ValInv s -> stabilize [] false s = Ok (s', None) ->
  let k := stabNum s in
  forall evs, log s' = evs ++ log s ->
  (* (a) a node with an invocation / cutoff event ran; a node that ran was registered, and was
         queued when the pass began or has an input that changed in this pass *)
  (forall e n, e ∈ evs -> ev_node e = Some n -> recomputedAt (nd s' n) = k) /\
  (forall n, recomputedAt (nd s' n) = k ->
     inGraph (nd s n) = true /\
     (n ∈ Heap.ids (heap s) \/ exists p, p ∈ parents (nd s n) /\ changedAt (nd s' p) = k)) /\
  (* (b) no node's function ran twice *)
  NoDup (invoked_of evs) /\
  (* (c) every registered node that was stale or queued when the pass began, or one of whose
         inputs changed in this pass, ran *)
  (forall n, inGraph (nd s n) = true ->
     (isStale s n = true \/ n ∈ Heap.ids (heap s) \/
      exists p, p ∈ parents (nd s n) /\ changedAt (nd s' p) = k) ->
     recomputedAt (nd s' n) = k) /\
  (* (d) a node that did not run keeps its value and stamps *)
  (forall n, recomputedAt (nd s' n) <> k ->
     value (nd s' n) = value (nd s n) /\ recomputedAt (nd s' n) = recomputedAt (nd s n)
     /\ changedAt (nd s' n) = changedAt (nd s n)).
Proof. exact pass_runs_owed. Qed.
Print Assumptions C03_static.

(** C11, pass half: a cutoff whose verdict is "unchanged" keeps its value and its [changedAt]
    stamp, and no dependent runs on its account: each child that ran was queued when the pass
    began or has another input that changed in this pass. *)
Theorem C11_cut_stops_propagation_static : forall s s',
  wfb s = true -> ValInv s -> stabilize [] false s = Ok (s', None) ->
  forall evs n old new, log s' = evs ++ log s -> EvCutoff n old new true ∈ evs ->
    changedAt (nd s' n) < stabNum s /\ value (nd s' n) = old /\
    forall c, c ∈ children (nd s n) -> recomputedAt (nd s' c) = stabNum s ->
      c ∈ Heap.ids (heap s) \/
      exists p, p ∈ parents (nd s c) /\ p <> n /\ changedAt (nd s' p) = stabNum s.
Proof. exact pass_cut_stops. Qed.
Print Assumptions C11_cut_stops_propagation_static.

(** Non-vacuity: in the example pass node 6 (a parity cutoff) is cut, its child 7 (Always) still
    runs because it was queued; vars 0 and 1 were queued; node 9 ran because its inputs changed. *)
Example C03_static_ex :
  wfb ex_pre = true /\ ValInv ex_pre /\ stabilize [] false ex_pre = Ok (ex_post, None) /\
  log ex_pre = [] /\ EvCutoff 6 0 10 true ∈ log ex_post /\
  Heap.ids (heap ex_pre) = [0; 1; 7]%nat /\
  map (fun n => recomputedAt (nd ex_post n) =? stabNum ex_pre) (seq 0 10) =
    [true; true; true; true; true; true; true; true; true; true].
Proof.
  split; [exact (proj1 ex_pre_hyps)|]. split; [exact (proj2 ex_pre_hyps)|]. split; [exact ex_pass_ok|].
  split; [vm_compute; reflexivity|].
  split; [vm_compute; repeat constructor|]. split; vm_compute; reflexivity.
Qed.
