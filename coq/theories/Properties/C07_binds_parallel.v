(** C07 for ParallelStabilize on graphs WITH binds: ONE injected fault -- the function of a
    Map / Map2 / MapN node or the cutoff function of a cutoff node returns an error or panics --
    in a parallel pass in which binds may swap.

    (ANY number of faults, and var writes besides: C07_binds_parallel_multi_fault.v, which subsumes
    this file.  Here: plans with one fault: the parallel stabilizer keeps the FIRST error of a height block, so
    with two faults the returned error depends on the order inside the block, par-prover's
    C04_error_depends_on_order.  Faults of bind functions are outside [op_clean] for
    ParStabilize, [par_plan_clean].)

    [C07_binds_parallel_fault]: the pass returns nothing (the faulting invocation was not
    reached: then the final state is consistent) or the injected error [EUser x] / [EPanic x];
    [Inv], [ValInvB], [Tplain] hold afterwards; the failed node is still queued.  What happens:
    the faulting recompute leaves the state it found with [x] queued again (error: old stamp
    restored; panic: stamp reset to 0) -- [C07_binds_parallel_error_step], [_panic_step] --, the
    rest of [x]'s height block still runs (all of it other than lhs-change nodes: those run
    first), then the loop stops.  [C07_binds_parallel_retry]: a fault-free pass of EITHER
    stabilizer then converges (consistent, observers read the from-scratch values).
    Proofs: ParBindFault.v. *)
From incr Require Import Base Heap HeapSpec HeapProofs EngineDefs Engine EngineRun EngineWf Spec EngineLemmas EngineLocal
     EngineInv EngineInvProofs PassInv PassProofs PassPlanProofs PassBind PassBindProofs PassBindSwap PassBindSwapProofs
     PassBindSwapStep PassBindOps PassBindFault PassBindWrites PassBindTotal PassBindMixed PassBindFaultGen
     ParBind ParBindStep ParBindHistory ParBindWrites ParBindFault SpecProofs.

Theorem C07_binds_parallel_fault : forall x w k s s' e,
  Inv s -> ValInvB s -> Tplain s -> par_plan_clean s (fplan x w k) = true ->
  parStabilize (fplan x w k) s = Ok (s', e) -> rejected e = false ->
  (e = None \/ e = Some (faultErr x k)) /\ Inv s' /\ ValInvB s' /\ Tplain s' /\ CF s s' /\
  (e = None -> consistent s' = true) /\ (e = Some (faultErr x k) -> inHeap s' x = true).
Proof. exact parF_any. Qed.
Print Assumptions C07_binds_parallel_fault.

Theorem C07_binds_parallel_retry : forall x w k s s' e s'',
  Inv s -> ValInvB s -> Tplain s -> templates_ok s = true -> par_plan_clean s (fplan x w k) = true ->
  parStabilize (fplan x w k) s = Ok (s', e) -> rejected e = false ->
  (stabilize [] false s' = Ok (s'', None) \/ parStabilize [] s' = Ok (s'', None)) ->
  consistent s'' = true /\ observers_agree s'' = true /\ Inv s'' /\ ValInvB s'' /\ Tplain s''.
Proof. exact parF_retry_any. Qed.
Print Assumptions C07_binds_parallel_retry.

(** the faulting recompute *)
Theorem C07_binds_parallel_error_step : forall fuel x w s s' e,
  PInv s -> inGraph (nd s x) = true -> tkw w (nkind (nd s x)) = true ->
  recomputeNodeParallel fuel (errPlan x w) s x = Ok (s', e) ->
  e = Some (EUser x) /\ failedTo s x s'.
Proof. exact rnp_errPlan_fail. Qed.
Print Assumptions C07_binds_parallel_error_step.

Theorem C07_binds_parallel_error_invariant : forall s x R s',
  PInv s -> LInvP s (x :: R) -> inGraph (nd s x) = true -> failedTo s x s' -> LInvP s' R /\ inHeap s' x = true.
Proof. exact LInvP_failed. Qed.
Print Assumptions C07_binds_parallel_error_invariant.

Theorem C07_binds_parallel_panic_step : forall x w, faultStep x w FPanic.
Proof. exact faultStep_panic. Qed.
Print Assumptions C07_binds_parallel_panic_step.

(* an error of the parallel recompute that is not a panic is the serial recompute's *)
Theorem C07_binds_parallel_error_is_serial : forall fuel p s n s' e,
  recomputeNodeParallel fuel p s n = Ok (s', Some e) -> (forall m, e <> EPanic m) ->
  recomputeNodeSerial fuel p s n = Ok (s', Some e, None).
Proof. exact rnp_rns_err. Qed.
Print Assumptions C07_binds_parallel_error_is_serial.

(** Non-vacuity: node 4's function fails in a parallel pass in which the bind swaps (the bind
    function ran: [EvBindFn 2 3 (Some 7)]), node 4 stays queued, a parallel retry converges; a
    cutoff function panics in a parallel pass (stamp reset, node queued), a serial retry converges *)
Example C07_binds_parallel_error_ex :
  match histP_run (init 64) exPF_ops with
  | Some s =>
    match parStabilize (errPlan 4%nat WFn) s with
    | Ok (s1, Some (EUser 4%nat)) =>
      inHeap s1 4%nat &&
      match parStabilize [] s1 with
      | Ok (s2, None) => consistent s2 && observers_agree s2 && bool_decide (EvBindFn 2 3 (Some 7%nat) ∈ log s1)
      | _ => false
      end
    | _ => false
    end
  | None => false
  end = true.
Proof. exact exPF_fail. Qed.

Example C07_binds_parallel_panic_ex :
  match histP_run (init 64) exPC_ops with
  | Some s =>
    match parStabilize (panPlan 2%nat WCut) s with
    | Ok (s1, Some (EPanic 2%nat)) =>
      inHeap s1 2%nat && (recomputedAt (nd s1 2%nat) =? 0) &&
      match stabilize [] false s1 with
      | Ok (s2, None) => consistent s2 && observers_agree s2
      | _ => false
      end
    | _ => false
    end
  | None => false
  end = true.
Proof. exact exPC_panic. Qed.
