(** C01 for ParallelStabilize on graphs WITH binds (binds may swap; nested binds included).

    [C01_binds_parallel]: from a state satisfying [EngineInv.Inv], [PassBind.ValInvB] and
    [PassBindSwapStep.Tplain] (all bind templates plain: [TNil] only as a whole case; nested
    [TBind] allowed), a parallel pass without a plan that returns [Ok (s', None)] ends
    [consistent] -- every registered node holds its function of its inputs, every bind's
    right-hand side is the instantiation of the case its input selects -- and every observer
    reads the from-scratch value; [C01_binds_parallel_invariants]: the quiescent invariants hold
    again, so passes of either stabilizer chain ([C01_history_binds_both]).

    How.  [ParBind.LInvP s R] is the loop invariant, on the REAL mid-block states: [R] is the
    part of the current height block that has not run yet, "owed" = queued or pending in the
    block and still registered.  It is weaker than the serial [PassBindSwap.LInvC] in one point,
    and has to be: a node of the block that one bind of the block tears down and another bind of
    the same block registers again is queued again AND still runs with the block (its height is
    set again), so a queued node may already have run in the pass -- it then runs a second time
    in a later block ([C01_binds_parallel_double_ex]: this happens).  Hence [lp_B] says "a node
    below an owed node that has run in this pass is itself owed (again)", where the serial
    invariant says "has not run".  No ordering of the block is used: the proof does not need
    "lhs-change nodes first".
    - one node that is not a lhs-change node: [C01_binds_parallel_step] ([recomputeNodeParallel]
      is [recomputeNodeSerial] followed by queueing the held-back dependent:
      [C01_binds_parallel_rnp]);
    - a lhs-change node (bind function, changeParent, teardown, invalidation):
      [C01_binds_parallel_bind_step], PassBindSwapStep's assembly re-done for the weak invariant
      (ParBindStep.v);
    - the structural invariant at the intermediate states is wf-prover's
      [EngineInvProofs.recomputeNodeParallel_spec] / [Inv_step_parstabilize].
    Proofs: ParBind.v, ParBindStep.v, ParBindHistory.v. *)
From incr Require Import Base Heap HeapSpec EngineDefs Engine EngineRun EngineWf Spec SpecProofs EngineLemmas
     EngineInv EngineInvProofs PassInv PassProofs PassBind PassBindProofs PassBindSwap PassBindSwapProofs
     PassBindSwapStep PassBindOps ParBind ParBindStep ParBindHistory.

Theorem C01_binds_parallel : forall s s',
  Inv s -> ValInvB s -> Tplain s -> parStabilize [] s = Ok (s', None) -> templates_ok s' = true ->
  consistent s' = true /\ observers_agree s' = true /\ Inv s' /\ wfb s' = true.
Proof. exact parS_agree. Qed.
Print Assumptions C01_binds_parallel.

Theorem C01_binds_parallel_invariants : forall s s',
  Inv s -> ValInvB s -> Tplain s -> parStabilize [] s = Ok (s', None) ->
  consistent s' = true /\ Inv s' /\ wfb s' = true /\ Shape s' /\ ValInvB s' /\ Tplain s' /\ CF s s'.
Proof. exact parS_consistent. Qed.
Print Assumptions C01_binds_parallel_invariants.

(** the parallel recompute is the serial one, then the held-back dependent is queued *)
Theorem C01_binds_parallel_rnp : forall fuel s n s',
  recomputeNodeParallel fuel [] s n = Ok (s', None) ->
  exists s1 imm, recomputeNodeSerial fuel [] s n = Ok (s1, None, imm) /\
    match imm with None => s' = s1 | Some c => heapAdd s1 c = Ok s' end.
Proof. exact rnp_rns. Qed.
Print Assumptions C01_binds_parallel_rnp.

(** the loop invariant: start of a pass, start of a block, one node, a skipped node, end of the loop *)
Theorem C01_binds_parallel_start : forall s, Inv s -> ValInvB s -> LInvP (passStart s) [].
Proof. exact LInvP_start. Qed.
Print Assumptions C01_binds_parallel_start.

Theorem C01_binds_parallel_block_start : forall s block w order,
  PInv s -> LInvP s [] -> Heap.takeMinBlock (heap s) = (block, w) ->
  NoDup order -> (forall x, x ∈ order <-> x ∈ block) ->
  PInv (s <| heap := w |>) /\ LInvP (s <| heap := w |>) order.
Proof. exact block_start. Qed.
Print Assumptions C01_binds_parallel_block_start.

Theorem C01_binds_parallel_step : forall s m R s',
  Struct s -> BFB s ->
  (HeapSpec.inv (heap s) /\
   forall q, q ∈ Heap.ids (heap s) -> inGraph (nd s q) = true /\ Heap.hinOf (heap s) q = height (nd s q)) ->
  LInvP s (m :: R) -> inGraph (nd s m) = true -> isLhs (nkind (nd s m)) = false ->
  stepPostB s m s' None -> LInvP s' R.
Proof. exact step_LInvP. Qed.
Print Assumptions C01_binds_parallel_step.

Theorem C01_binds_parallel_bind_step : forall fuel s b R s',
  Tplain s -> PInv s -> LInvP s (b :: R) -> inGraph (nd s b) = true -> nkind (nd s b) = KBindLhs b ->
  recomputeNodeParallel fuel [] s b = Ok (s', None) -> PInv s' ->
  LInvP s' R /\ Tplain s' /\ CF s s' /\
  (forall y, isDone s' y = true -> inGraph (nd s' y) = true -> isAlways (nkind (nd s' y)) = true ->
             isDone s y = true /\ inGraph (nd s y) = true /\ isAlways (nkind (nd s y)) = true).
Proof. exact bind_stepP. Qed.
Print Assumptions C01_binds_parallel_bind_step.

Theorem C01_binds_parallel_skip : forall s m R, inGraph (nd s m) = false -> LInvP s (m :: R) -> LInvP s R.
Proof. exact LInvP_skip. Qed.
Print Assumptions C01_binds_parallel_skip.

Theorem C01_binds_parallel_end : forall s,
  HeapSpec.inv (heap s) -> Heap.ids (heap s) = [] -> LInvP s [] -> LInvC s None.
Proof. exact LInvC_of_LInvP. Qed.
Print Assumptions C01_binds_parallel_end.

(** histories mixing [Stabilize []] and [ParStabilize []] (alphabet of C01_history_binds plus
    [ParStabilize []]), from [init], no hypothesis on intermediate states *)
Theorem C01_history_binds_both : forall mh os1 o os2 sf,
  (0 < mh)%nat -> histP_run (init mh) (os1 ++ o :: os2) = Some sf -> is_pass o = true ->
  exists s1 s2, histP_run (init mh) os1 = Some s1 /\ step s1 o = Ok (s2, None) /\
    consistent s2 = true /\ observers_agree s2 = true /\ Inv s2 /\ ValInvB s2 /\ wfb s2 = true.
Proof. exact C01_history_both. Qed.
Print Assumptions C01_history_binds_both.

Theorem C01_history_binds_both_step : forall s o s',
  Inv s -> ValInvB s -> Tplain s -> histP_op o = true -> op_ok s o = true -> op_clean s o = true ->
  step s o = Ok (s', None) -> Inv s' /\ ValInvB s' /\ Tplain s'.
Proof. exact stepP_inv. Qed.
Print Assumptions C01_history_binds_both_step.

Theorem C01_history_binds_both_invariants : forall os s0 s,
  Inv s0 -> ValInvB s0 -> Tplain s0 -> templates_ok s0 = true -> histP_run s0 os = Some s ->
  Inv s /\ ValInvB s /\ Tplain s /\ templates_ok s = true.
Proof. exact histP_inv. Qed.
Print Assumptions C01_history_binds_both_invariants.

(* the serial fragment is included *)
Theorem C01_history_binds_both_includes : forall os s0 s, histB_run s0 os = Some s -> histP_run s0 os = Some s.
Proof. exact histB_histP. Qed.
Print Assumptions C01_history_binds_both_includes.

(** Non-vacuity: [exS_pre] satisfies the hypotheses of [C01_binds_parallel]
    (C01_binds_swap.C01_swap_plain_ex) and its parallel pass runs the bind function of bind 2 *)
Example C01_binds_parallel_ex :
  (Inv exS_pre /\ ValInvB exS_pre /\ Tplain exS_pre) /\
  match parStabilize [] exS_pre with
  | Ok (s', None) => consistent s' && observers_agree s' && bool_decide (EvBindFn 2 2 (Some 6%nat) ∈ log s')
  | _ => false
  end = true.
Proof. split; [exact exS_pre_hyps|exact exS_par]. Qed.

(** Non-vacuity: a history of the mixed fragment in which a bind swaps in a parallel pass and swaps
    back in a serial one *)
Example C01_history_binds_both_ex : exists s, histP_run (init 64) exP_ops = Some s.
Proof. exact exP_runs. Qed.

(** the case that forces the weaker invariant: two binds at the height of node 3; in the last
    (parallel) pass bind 4 tears node 3 down, bind 6 registers it again, the block runs it, and a
    later block runs it again: two [EvInvoked 3] in one pass, which ends consistent *)
Example C01_binds_parallel_double_ex :
  match histP_run (init 64) (take 12 exD2_ops) with
  | Some s =>
    match parStabilize [] s with
    | Ok (s', None) =>
      consistent s' && observers_agree s' &&
      (length (List.filter (fun e => match e with EvInvoked 3%nat _ _ => true | _ => false end)
                      (take (length (log s') - length (log s)) (log s'))) =? 2)%nat
    | _ => false
    end
  | None => false
  end = true.
Proof. exact exD2_runs. Qed.
