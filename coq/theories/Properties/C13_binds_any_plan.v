(** C13 on graphs with binds for serial passes with ANY plan: var writes and any number of faults
    (errors and panics of node functions, bind functions, cutoff functions).

    [C13_binds_faulted_pass]: a serial pass under a plan of faults that returns [Ok (s', e)], [e]
    not a rejected edge: its log is [EvPassStart], pass events, [EvPassEnd (classify e)], handler
    events [H]; [H] has no duplicates; [EvUpd n] is in [H] iff [n] is registered in [s'] and
    carries the pass's change stamp -- the nodes that changed before the pass stopped at the
    first fault that was reached, or all that changed if none was --; [EvObsUpd o v] is in [H] iff
    observer [o] observes such a node, [v] its value.  The model, like the library, DOES run the
    update handlers of a failed pass; a panic resets only the recompute stamp of the panicking
    node, which the handler set does not depend on.
    [C13_binds_any_plan]: with var writes in the plan as well, the log and the handler set are those
    of the pass under the faults of the plan alone ([t']); an observer's event carries the value
    its node held when the computations ended ([valueOf t']), not a deferred write.
    Proofs: PassBindHandlersAny.v (the handler-set invariant [HInv] through the multi-fault chain
    and loop of PassBindMultiFault.v). *)
From incr Require Import Base Heap HeapSpec HeapProofs EngineDefs Engine EngineRun EngineWf Spec EngineLemmas EngineLocal
     EngineInv EngineInvProofs PassInv PassProofs PassPlanProofs PassBind PassBindProofs PassBindSwap PassBindSwapProofs
     PassBindSwapStep PassBindOps PassBindSwapLog PassBindFault PassBindWrites PassBindTotal PassBindMixed PassBindFaultGen
     PassBindMultiFault PassBindPlanLog PassBindHandlersAny SpecProofs.

Theorem C13_binds_faulted_pass : forall s q s' e,
  nowrites q -> Inv s -> ValInvB s -> Tplain s -> plan_ok s q = true ->
  stabilize q false s = Ok (s', e) -> rejected e = false ->
  exists L H,
    rev (log s') = rev (log s) ++ [EvPassStart] ++ L ++ [EvPassEnd (classify e)] ++ H /\
    Forall passEv L /\ Forall EngineLocal.isHandlerEv H /\ NoDup H /\
    (forall n, EvUpd n ∈ H <-> inGraph (nd s' n) = true /\ changedAt (nd s' n) = stabNum s) /\
    (forall o v, EvObsUpd o v ∈ H <->
       exists n, obs s' !! o = Some n /\ changedAt (nd s' n) = stabNum s /\ v = valueOf s' n).
Proof. exact passM_handlers. Qed.
Print Assumptions C13_binds_faulted_pass.

Theorem C13_binds_any_plan : forall s p s' e,
  Inv s -> ValInvB s -> Tplain s -> plan_ok s p = true ->
  stabilize p false s = Ok (s', e) -> rejected e = false ->
  exists t' L H,
    stabilize (fo p) false s = Ok (t', e) /\
    rev (log s') = rev (log s) ++ [EvPassStart] ++ L ++ [EvPassEnd (classify e)] ++ H /\
    Forall passEv L /\ Forall EngineLocal.isHandlerEv H /\ NoDup H /\
    (forall n, EvUpd n ∈ H <-> inGraph (nd s' n) = true /\ changedAt (nd s' n) = stabNum s) /\
    (forall o v, EvObsUpd o v ∈ H <->
       exists n, obs s' !! o = Some n /\ changedAt (nd s' n) = stabNum s /\ v = valueOf t' n).
Proof. exact passA_handlers. Qed.
Print Assumptions C13_binds_any_plan.

(** Non-vacuity: after the first eight operations of [exNF_ops] the plan [exN2_plan] (node 5's
    function fails, the bind function of 3 panics): the cutoff node 2 lets 2 -> 3 through, then the
    bind function panics: [EPanic 3]; handlers [EvUpd 0; EvUpd 2] = the registered nodes with the
    pass's change stamp (the set var and the cutoff node) *)
Example C13_binds_any_plan_ex :
  match histN_run (init 64) (take 8 exNF_ops) with
  | Some s =>
    plan_ok s exN2_plan &&
    match stabilize exN2_plan false s with
    | Ok (s1, Some (EPanic 3%nat)) =>
      bool_decide (take 8 (log s1) =
        [EvUpd 2; EvUpd 0; EvPassEnd XPanic; EvErrH 3; EvErrH 4; EvFault 3 WFn FPanic; EvCutoff 2 2 3 false; EvPassStart]) &&
      bool_decide (filter (fun n => inGraph (nd s1 n) && (changedAt (nd s1 n) =? stabNum s)) (seq 0 (next s1)) = [0; 2]%nat)
    | _ => false
    end
  | None => false
  end = true.
Proof. exact exHA_results. Qed.
