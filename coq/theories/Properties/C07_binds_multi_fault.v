(** C07 / C12 on graphs with binds: ANY plan in a serial pass -- var writes and any number of faults
    (errors and panics, of node functions, bind functions and cutoff functions).

    [C07_binds_any_plan]: a serial pass with a well-formed plan [p] that returns [Ok (s', e)], [e]
    not a rejected edge: [e] is nothing, or the error [EUser x] / [EPanic x] of ONE fault
    [(x, w, AFail k)] of the plan -- the first whose invocation is reached; the serial pass stops
    there, so the other faults are not reached --; [Inv], [ValInvB], [Tplain] hold afterwards,
    the node whose invocation faulted is still queued (for a bind function: the lhs-change node;
    the bind's right-hand side is as it was).  [C07_binds_faults_only]: the same for a plan of
    faults, with "no fault reached" giving a consistent final state.
    Which fault fires at a recompute is decided by the node's kind and the plan alone
    ([C07_binds_fires]: the recompute under the plan is the recompute under a plan with that one
    fault, or the plan-free one).  [C07_history_binds_any_plan]: histories whose serial passes
    carry arbitrary well-formed plans keep the invariants, and every plan-free pass converges.
    Proofs: PassBindMultiFault.v. *)
From incr Require Import Base Heap HeapSpec HeapProofs EngineDefs Engine EngineRun EngineWf Spec EngineLemmas EngineLocal
     EngineInv EngineInvProofs PassInv PassProofs PassPlanProofs PassBind PassBindProofs PassBindSwap PassBindSwapProofs
     PassBindSwapStep PassBindOps PassBindFault PassBindWrites PassBindTotal PassBindMixed PassBindFaultGen
     PassBindMultiFault SpecProofs.

Theorem C07_binds_any_plan : forall s p s' e,
  Inv s -> ValInvB s -> Tplain s -> plan_ok s p = true ->
  stabilize p false s = Ok (s', e) -> rejected e = false ->
  Inv s' /\ ValInvB s' /\ Tplain s' /\ CF s s' /\
  (e = None \/ exists x k, inPlan p x k /\ e = Some (faultErr x k) /\ inHeap s' x = true).
Proof. exact pass_any_plan. Qed.
Print Assumptions C07_binds_any_plan.

Theorem C07_binds_faults_only : forall s q s' e,
  nowrites q -> Inv s -> ValInvB s -> Tplain s -> plan_ok s q = true ->
  stabilize q false s = Ok (s', e) -> rejected e = false ->
  Inv s' /\ ValInvB s' /\ Tplain s' /\ CF s s' /\
  ((e = None /\ consistent s' = true) \/
   (exists x k, inPlan q x k /\ e = Some (faultErr x k) /\ inHeap s' x = true)).
Proof. exact passMF. Qed.
Print Assumptions C07_binds_faults_only.

Theorem C07_binds_fires : forall fuel q s m, nowrites q ->
  (forall b, nkind (nd s m) = KBindLhs b -> b = m) ->
  recomputeNodeSerial fuel q s m = recomputeNodeSerial fuel (onePlan m (fireK q (nkind (nd s m)) m)) s m.
Proof. exact rns_fire. Qed.
Print Assumptions C07_binds_fires.

Theorem C07_history_binds_any_plan_invariants : forall os s0 s,
  Inv s0 -> ValInvB s0 -> Tplain s0 -> templates_ok s0 = true -> histN_run s0 os = Some s ->
  Inv s /\ ValInvB s /\ Tplain s /\ templates_ok s = true.
Proof. exact histN_inv. Qed.
Print Assumptions C07_history_binds_any_plan_invariants.

Theorem C07_history_binds_any_plan : forall mh os1 os2 sf,
  (0 < mh)%nat -> histN_run (init mh) (os1 ++ Stabilize [] :: os2) = Some sf ->
  exists s1 s2, histN_run (init mh) os1 = Some s1 /\ step s1 (Stabilize []) = Ok (s2, None) /\
    consistent s2 = true /\ observers_agree s2 = true /\ Inv s2 /\ ValInvB s2.
Proof. exact histN_planfree. Qed.
Print Assumptions C07_history_binds_any_plan.

(** Non-vacuity: [exNF_ops]; a plan with three faults (node 5's function fails, the bind function
    panics, the cutoff function of node 2 first writes var 1 and then fails): the cutoff is reached
    first, result [EUser 2], var 1 holds 9, node 2 queued; with the cutoff fault removed the bind
    function is reached first: [EPanic 3], the lhs-change node 3 queued; a plan-free pass converges *)
Example C07_history_binds_any_plan_ex : exists s, histN_run (init 64) exNF_ops = Some s.
Proof. exact exNF_runs. Qed.

Example C07_binds_multi_fault_ex :
  match histN_run (init 64) (take 8 exNF_ops) with
  | Some s =>
    match stabilize exN_plan false s with
    | Ok (s1, Some (EUser 2%nat)) =>
      (value (nd s1 1%nat) =? 9) && inHeap s1 2%nat &&
      match stabilize exN2_plan false s1 with
      | Ok (s2, Some (EPanic 3%nat)) => inHeap s2 3%nat
      | _ => false
      end
    | _ => false
    end
  | None => false
  end = true.
Proof. exact exNF_results. Qed.
