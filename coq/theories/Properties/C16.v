(** C16 — pmap.Map is an immutable sorted map whose diff reports exactly the differences.

    This file holds only the property theorems.  Each is closed by [exact] of a lemma
    proved in PMapProofs.v, with [Print Assumptions] beneath it.

    Model: PMap.v (transliteration of pmap.go, diff.go, reduce.go, bridge.go; the tree
    node carries its cached height and size; Go's nil dereferences are [Crash NilDeref]).
    Abstraction: [elems t], the in-order list of entries.  Reference ("what a sorted
    reference map would do"): the association list sorted by key with [l_get], [l_insert],
    [l_delete], [below]/[above]/[between], [merge_diff], [fold_list] of PMapSpec.v.
    Invariant of every map the package hands out: [ok t] = search tree, AVL balanced,
    cached height and size right.  Domain of diff/split: [wf t] = search tree with right
    caches, NOT necessarily balanced.

    Persistence ("leaves every previously obtained Map value unchanged") holds by
    construction for immutable Gallina values ([C16_history] states it: earlier versions
    are a prefix of the version list); for the Go code it is decided on every run by the
    harness, which re-reads every earlier version after every operation. *)
From incr Require Import Base PMap PMapSpec PMapRun PMapProofs.

(** ** Set / Delete / SetAll / DeleteAll / FromGoMap refine the sorted reference and keep
       the tree a balanced search tree with right caches; none of them can fault. *)

Theorem C16_empty : ok E.
Proof. exact ok_empty. Qed.
Print Assumptions C16_empty.

Theorem C16_set : forall t k v,
  ok t -> exists t', insert t k v = Ok t' /\ ok t' /\ elems t' = l_insert k v (elems t).
Proof. exact insert_ok. Qed.
Print Assumptions C16_set.

Theorem C16_delete : forall t k,
  ok t -> exists t', remove t k = Ok t' /\ ok t' /\ elems t' = l_delete k (elems t).
Proof. exact remove_ok. Qed.
Print Assumptions C16_delete.

(* the reference itself does what a map does: sorted in, sorted out, lookups as expected *)
Theorem C16_reference_insert : forall k v l,
  sorted l ->
  sorted (l_insert k v l) /\
  forall k', l_get k' (l_insert k v l) = if k' =? k then Some v else l_get k' l.
Proof. exact reference_insert_meaning. Qed.
Print Assumptions C16_reference_insert.

Theorem C16_reference_delete : forall k l,
  sorted l ->
  sorted (l_delete k l) /\
  forall k', l_get k' (l_delete k l) = if k' =? k then None else l_get k' l.
Proof. exact reference_delete_meaning. Qed.
Print Assumptions C16_reference_delete.

(* a sorted list is determined by its lookups, so the pointwise statements below fix the
   contents of the result completely *)
Theorem C16_reference_extensional : forall l1 l2,
  sorted l1 -> sorted l2 -> (forall k, l_get k l1 = l_get k l2) -> l1 = l2.
Proof. exact sorted_ext. Qed.
Print Assumptions C16_reference_extensional.

Theorem C16_elems_sorted : forall t, ok t -> sorted (elems t).
Proof. exact ok_elems_sorted. Qed.
Print Assumptions C16_elems_sorted.

Theorem C16_setAll : forall t m,
  ok t -> exists t', setAll t m = Ok t' /\ ok t' /\
    forall k, l_get k (elems t') = l_setAll_get m (elems t) k.
Proof. exact setAll_ok. Qed.
Print Assumptions C16_setAll.

Theorem C16_deleteAll : forall t ks,
  ok t -> exists t', deleteAll t ks = Ok t' /\ ok t' /\
    forall k, l_get k (elems t') = l_deleteAll_get ks (elems t) k.
Proof. exact deleteAll_ok. Qed.
Print Assumptions C16_deleteAll.

Theorem C16_fromGoMap : forall m,
  exists t', fromGoMap m = Ok t' /\ ok t' /\ forall k, l_get k (elems t') = l_get k m.
Proof. exact fromGoMap_ok. Qed.
Print Assumptions C16_fromGoMap.

(** ** All histories: operations applied to any earlier version.  Every version ever made
       is [ok], the earlier versions are still there unchanged, and each new version
       answers lookups as the reference applied to its source version does. *)
Theorem C16_history : forall h vs,
  Forall ok vs -> valid_history (length vs) h ->
  exists vs', run_history vs h = Some vs' /\ Forall ok vs' /\
    length vs' = (length vs + length h)%nat /\
    take (length vs) vs' = vs /\
    forall i src o, h !! i = Some (src, o) ->
      exists ts t', vs' !! src = Some ts /\ vs' !! (length vs + i)%nat = Some t' /\
                    forall k, get t' k = spec_get (elems ts) o k.
Proof. exact run_history_ok. Qed.
Print Assumptions C16_history.

(** ** Get, Has, Len, Min, Max, Nth, Rank, Range, All, Keys agree with the sorted list. *)
Theorem C16_lookup_family : forall t,
  ok t ->
  (forall k, get t k = l_get k (elems t)) /\
  (forall k, has t k = is_some (l_get k (elems t))) /\
  len t = Z.of_nat (length (elems t)) /\
  min t = l_head (elems t) /\
  max t = l_last (elems t) /\
  (forall i, nth t i = if i <? 0 then None else elems t !! Z.to_nat i) /\
  (forall k, rank t k = (Z.of_nat (length (below k (elems t))), is_some (l_get k (elems t)))) /\
  (forall lo hi, range t lo hi = between lo hi (elems t)) /\
  all t = elems t /\
  keys t = map fst (elems t).
Proof. exact lookup_family. Qed.
Print Assumptions C16_lookup_family.

(** ** The tree stays balanced, so lookups stay logarithmic. *)
Theorem C16_logarithmic : forall t, avl t -> 2 ^ (height t / 2) <= size t + 1.
Proof. exact avl_height_bound. Qed.
Print Assumptions C16_logarithmic.

Theorem C16_height_log2 : forall t, avl t -> height t <= 2 * Z.log2 (size t + 1) + 1.
Proof. exact avl_height_log. Qed.
Print Assumptions C16_height_log2.

(* the number of nodes a Get visits *)
Theorem C16_lookup_steps : forall t k,
  ok t -> get_steps t k <= 2 * Z.log2 (Z.of_nat (length (elems t)) + 1) + 1.
Proof. exact lookup_logarithmic. Qed.
Print Assumptions C16_lookup_steps.

(** ** balance never takes one of its nil-dereference branches: it is total on any two
       trees with right caches, balanced or not — this covers everything split feeds it. *)
Theorem C16_balance_total : forall k v l r,
  cached l -> cached r -> exists t, balance k v l r = Ok t.
Proof. exact balance_total. Qed.
Print Assumptions C16_balance_total.

Theorem C16_balance_spec : forall k v l r,
  cached l -> cached r ->
  exists t, balance k v l r = Ok t /\ elems t = elems l ++ (k, v) :: elems r /\ cached t.
Proof. exact balance_spec. Qed.
Print Assumptions C16_balance_spec.

Theorem C16_ok_wf : forall t, ok t -> wf t.
Proof. exact ok_wf. Qed.
Print Assumptions C16_ok_wf.

Theorem C16_split : forall t k,
  wf t -> exists l ov r, split t k = Ok (l, ov, r) /\ wf l /\ wf r /\
    elems l = below k (elems t) /\ elems r = above k (elems t) /\ ov = l_get k (elems t).
Proof. exact split_wf. Qed.
Print Assumptions C16_split.

(** ** SymmetricDiff is exact, whatever the two maps share: for search trees with right
       caches (balanced or not), any pointer-identity test that only identifies equal
       trees, and any reflexive [equal] including nil, diff never faults and yields the
       merge of the two sorted entry lists. *)
Theorem C16_diff_exact : forall same equal a b,
  (forall x y, same x y = true -> x = y) -> eq_reflexive equal ->
  wf a -> wf b ->
  diff same equal a b = Ok (merge_diff equal (elems a) (elems b)).
Proof. exact diff_exact. Qed.
Print Assumptions C16_diff_exact.

(* a consumer that stops after j yields has seen exactly the first j changes *)
Theorem C16_diff_early_exit : forall same equal a b stop,
  (forall x y, same x y = true -> x = y) -> eq_reflexive equal ->
  wf a -> wf b ->
  symmetricDiff same equal a b stop =
  Ok (match stop with
      | Some j => take j (merge_diff equal (elems a) (elems b))
      | None => merge_diff equal (elems a) (elems b)
      end).
Proof. exact symmetricDiff_exact. Qed.
Print Assumptions C16_diff_early_exit.

(* what the merge means: keys strictly increasing (each differing key once, in key order),
   and a change is reported exactly when it is the change the two lists call for at its
   key — Added / Removed / Updated with the right old and new values, and nothing for a
   key that does not differ *)
Theorem C16_diff_meaning : forall equal la lb,
  sorted la -> sorted lb ->
  key_sorted (merge_diff equal la lb) /\
  forall c, In c (merge_diff equal la lb) <-> change_at equal la lb (change_key c) = Some c.
Proof. exact merge_diff_meaning. Qed.
Print Assumptions C16_diff_meaning.

(* equal = nil: additions and removals only *)
Theorem C16_diff_nil_equal : forall la lb,
  Forall (fun c => match c with Updated _ _ _ => False | _ => True end) (merge_diff None la lb).
Proof. exact merge_diff_nil_no_updates. Qed.
Print Assumptions C16_diff_nil_equal.

Theorem C16_diff_sharing_irrelevant : forall same1 same2 equal a b,
  (forall x y, same1 x y = true -> x = y) -> (forall x y, same2 x y = true -> x = y) ->
  eq_reflexive equal -> wf a -> wf b ->
  diff same1 equal a b = diff same2 equal a b.
Proof. exact diff_sharing_irrelevant. Qed.
Print Assumptions C16_diff_sharing_irrelevant.

(* the two identity tests and the three equalities the replay executes are instances *)
Theorem C16_same_structural_sound : forall a b, tree_eqb a b = true -> a = b.
Proof. exact tree_eqb_sound. Qed.
Print Assumptions C16_same_structural_sound.

Theorem C16_same_none_sound : forall a b, no_sharing a b = true -> a = b.
Proof. exact no_sharing_sound. Qed.
Print Assumptions C16_same_none_sound.

Theorem C16_equalities_reflexive : forall e, eq_reflexive (eq_of e).
Proof. exact eq_of_reflexive. Qed.
Print Assumptions C16_equalities_reflexive.

(** ** Reducer: with an associative combine, if every memo entry is the fold of its
       subtree then Reduce (prune included) returns the in-order fold and the memo stays
       sound; hence a reducer answers with the full in-order fold whatever sequence of
       maps it has seen before. *)
Theorem C16_reducer : forall (R : Type) (project : Z -> Z -> R) (combine : R -> R -> R) same,
  (forall a b, same a b = true -> a = b) ->
  (forall x y z, combine x (combine y z) = combine (combine x y) z) ->
  forall m root, memo_sound project combine m ->
  exists m', Reduce project combine same m root = (fold_list project combine (elems root), m') /\
             memo_sound project combine m'.
Proof. exact @Reduce_spec. Qed.
Print Assumptions C16_reducer.

Theorem C16_reducer_prune : forall (R : Type) (project : Z -> Z -> R) (combine : R -> R -> R) same m root,
  memo_sound project combine m -> memo_sound project combine (prune same m root).
Proof. exact @prune_sound. Qed.
Print Assumptions C16_reducer_prune.

Theorem C16_reducer_any_sequence : forall (R : Type) (project : Z -> Z -> R) (combine : R -> R -> R) same,
  (forall a b, same a b = true -> a = b) ->
  (forall x y z, combine x (combine y z) = combine (combine x y) z) ->
  forall roots,
  reduceSeq project combine same [] roots = map (fun t => fold_list project combine (elems t)) roots.
Proof. exact @reducer_correct. Qed.
Print Assumptions C16_reducer_any_sequence.
