(** C08, the ordering half, under ParallelStabilize: what IS true (the statement with two escapes is
    refuted in C08_binds_order_parallel.v, the K10 facet).

    [C08_binds_order_parallel_pos]: in the events of a plan-free parallel pass from a state with
    [Inv], [ValInvB], [Tplain]: between a function or cutoff event [e] of a node [n] created by bind
    [a] ([sub s' n a]: directly or through nested binds) and a LATER run of [a]'s bind function
    ([evs = pre ++ EvBindFn a x root :: mid ++ e :: post], most recent first)
    - the node left the graph or came back in between ([EvNec n] / [EvUnnec n] in [mid]), or
    - an [EvNec n] PRECEDES the event within the pass ([EvNec n ∈ post]): the node ran in a period of
      necessity that began in this pass.
    So under ParallelStabilize a node of the generation a bind is about to replace can have run before
    the swap, in its current period of necessity, only if it was registered anew earlier in the same
    pass -- the K10 situation (dropped by one bind of its height block and linked again by another
    while the block was running).  A node that has been registered since before the pass never runs
    before a swap of its bind in that pass, as under the serial stabilizer.
    [C08_binds_order_parallel_call]: the same at every recompute of a lhs-change node of a block, from
    the invariants of the parallel pass ([ODP]: the serial pass-order invariant, restricted to nodes
    that have not been registered anew in the pass, stated for the nodes that have run AND those still
    waiting in the running block; established at the start of each block -- its members are minima
    of the queue -- and kept by every recompute of the block).
    Proofs: ParBindOrderPos.v. *)
From incr Require Import Base Heap HeapSpec HeapProofs EngineDefs Engine EngineRun EngineWf Spec EngineLemmas EngineLocal
     EngineInv EngineInvProofs PassInv PassProofs PassPlanProofs PassBind PassBindProofs PassBindSwap PassBindSwapProofs
     PassBindSwapStep PassBindOps PassBindSwapLog PassBindOrder PassBindOrderLog ParBind ParBindStep ParBindHistory ParBindLog
     ParBindOrder ParBindOrderPos SpecProofs.

Theorem C08_binds_order_parallel_pos : forall s s',
  Inv s -> ValInvB s -> Tplain s -> parStabilize [] s = Ok (s', None) ->
  forall evs pre x root a mid e post n, log s' = evs ++ log s ->
    evs = pre ++ EvBindFn a x root :: mid ++ e :: post ->
    ev_node e = Some n -> sub s' n a -> EvNec n ∈ mid \/ EvUnnec n ∈ mid \/ EvNec n ∈ post.
Proof. exact parS_order_pos. Qed.
Print Assumptions C08_binds_order_parallel_pos.

Theorem C08_binds_order_parallel_call : forall s0 base s a R evs0,
  PInv s -> inGraph (nd s a) = true -> log s = evs0 ++ base -> ODP evs0 s (a :: R) -> LGP s0 s (a :: R) evs0 ->
  nkind (nd s a) = KBindLhs a ->
  forall evs pre e post n, log s = evs ++ base -> evs = pre ++ e :: post -> ev_node e = Some n ->
    sub s n a -> EvNec n ∈ pre \/ EvUnnec n ∈ pre \/ EvNec n ∈ post.
Proof. exact QOrdP_of. Qed.
Print Assumptions C08_binds_order_parallel_call.

(* a node that has run and was not registered anew in the pass is not in the generation being replaced *)
Theorem C08_binds_order_parallel_point : forall evs s a R,
  PInv s -> ODP evs s (a :: R) -> inGraph (nd s a) = true ->
  forall n, sub s n a -> inGraph (nd s n) = true -> isDone s n = true -> EvNec n ∈ evs.
Proof. exact ODP_point. Qed.
Print Assumptions C08_binds_order_parallel_point.

(** Non-vacuity: the K10-facet witness [k13] (C08_binds_order_parallel.v): the pattern with [mid = []]
    occurs, and the third disjunct holds: [EvNec 15] precedes [EvInvoked 15 [20] 10] within the pass *)
Example C08_binds_order_parallel_pos_ex :
  k13_evs = take 19 k13_evs ++ EvBindFn 6 0 (Some 17%nat) :: [] ++ EvInvoked 15 [20] 10 :: drop 21 k13_evs /\
  EvNec 15%nat ∈ drop 21 k13_evs.
Proof. split; [reflexivity|]. apply elem_of_list_In. cbn. tauto. Qed.
