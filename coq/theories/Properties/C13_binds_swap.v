(** C13 for serial passes without a plan on graphs with binds, binds MAY swap -- which update
    handlers run.

    TRUE ([C13_binds_swap]): all handler events come after the end bracket, each at most once
    ([NoDup]); [EvUpd n] occurs iff [n] is registered when the pass returns and is STAMPED as
    changed in this pass ([changedAt] = the pass number); [EvObsUpd o v] iff [o] observes such a
    node, and [v] is the value the node holds when the pass returns.

    With swaps the stamp no longer means "the value changed in this pass": a swapping bind that
    drops a node withdraws its queued handler and resets its stamps ([zeroNode]); if a later bind
    of the same pass links the node again and its recompute is cut off, the node ends registered,
    holding a value different from the one it had when the pass began, unstamped, and NO handler
    ran for it.  So the reading "a registered node whose value changed gets its OnUpdate"
    ([C13_value_statement]) is REFUTED for swapping passes ([C13_binds_swap_refuted], witness: the
    history K06, [k06_ops]); it holds for the nodes that stayed registered throughout the pass
    ([C13_binds_swap_value]: no [EvNec n] among the events of the pass), hence for every pass in
    which no node is dropped and linked again.
    Hypotheses: [Inv], [ValInvB], [Tplain] (Properties/C01_binds_swap.v).
    Proofs: PassBindSwapHandlers.v (handler-set frame of the bind step: PassBindSwapStep.v). *)
From incr Require Import Base Heap HeapSpec HeapProofs EngineDefs Engine EngineRun EngineWf Spec EngineLemmas EngineLocal
     EngineInv EngineInvProofs PassInv PassProofs PassPlanProofs PassPlanProofs2 PassBind PassBindProofs PassBindSwap
     PassBindSwapProofs PassBindSwapStep PassBindOps PassBindSwapLog PassBindFault PassBindWrites PassBindSwapHandlers
     PassBindHistoryW.

Theorem C13_binds_swap : forall s s',
  Inv s -> ValInvB s -> Tplain s -> stabilize [] false s = Ok (s', None) ->
  exists L H,
    rev (log s') = rev (log s) ++ [EvPassStart] ++ L ++ [EvPassEnd XOk] ++ H /\
    Forall passEv L /\ Forall EngineLocal.isHandlerEv H /\ NoDup H /\
    (forall n, EvUpd n ∈ H <-> inGraph (nd s' n) = true /\ changedAt (nd s' n) = stabNum s) /\
    (forall o v, EvObsUpd o v ∈ H <->
       exists n, obs s' !! o = Some n /\ changedAt (nd s' n) = stabNum s /\ v = valueOf s' n).
Proof. exact passS_handlers. Qed.
Print Assumptions C13_binds_swap.

(** a node that stayed registered throughout the pass and holds another value at the end: its
    update handler ran *)
Theorem C13_binds_swap_value : forall s s',
  Inv s -> ValInvB s -> Tplain s -> stabilize [] false s = Ok (s', None) ->
  forall evs n, log s' = evs ++ log s -> inGraph (nd s' n) = true -> EvNec n ∉ evs ->
    value (nd s' n) <> value (nd s n) -> EvUpd n ∈ evs.
Proof. exact passS_handlers_value. Qed.
Print Assumptions C13_binds_swap_value.

(** the unrestricted reading is false: K06 *)
Theorem C13_binds_swap_refuted : ~ C13_value_statement.
Proof. exact C13_value_statement_refuted. Qed.
Print Assumptions C13_binds_swap_refuted.

(** the step: one recompute of a lhs-change node keeps the handler-set invariant *)
Theorem C13_binds_swap_bind_step : forall s b s',
  PInv s -> PInv s' -> LInvC s (Some b) -> bfr s b s' -> obs s' = obs s -> HInv s -> HInv s'.
Proof. exact bind_HInv. Qed.
Print Assumptions C13_binds_swap_bind_step.

(** along whole histories from the empty graph (binds, swaps, failing / panicking functions and
    writing plans in earlier passes): every plan-free pass *)
Theorem C13_history_binds : forall mh os1 os2 sf,
  (0 < mh)%nat -> histW_run (init mh) (os1 ++ Stabilize [] :: os2) = Some sf ->
  exists s1 s2 L H, histW_run (init mh) os1 = Some s1 /\ stabilize [] false s1 = Ok (s2, None) /\
    rev (log s2) = rev (log s1) ++ [EvPassStart] ++ L ++ [EvPassEnd XOk] ++ H /\
    Forall passEv L /\ Forall EngineLocal.isHandlerEv H /\ NoDup H /\
    (forall n, EvUpd n ∈ H <-> inGraph (nd s2 n) = true /\ changedAt (nd s2 n) = stabNum s1) /\
    (forall o v, EvObsUpd o v ∈ H <->
       exists n, obs s2 !! o = Some n /\ changedAt (nd s2 n) = stabNum s1 /\ v = valueOf s2 n).
Proof. exact histW_handlers. Qed.
Print Assumptions C13_history_binds.

(** Non-vacuity of the positive statements: the K06 pass itself satisfies the hypotheses (that is
    how it refutes the unrestricted reading); its handler events are those of nodes 1, 4, 5, 11..14
    and of the observers 3 and 6 -- not of node 2, nor of var 0 (dropped and linked again, too). *)
Example C13_binds_swap_ex : exists s s', histB_run (init 64) k06_ops = Some s /\
  stabilize [] false s = Ok (s', None) /\
  take 9 (log s') = rev [EvUpd 1; EvObsUpd 3 7; EvUpd 4; EvUpd 5; EvObsUpd 6 8; EvUpd 11; EvUpd 12; EvUpd 13; EvUpd 14].
Proof.
  assert (Hc : match histB_run (init 64) k06_ops with
               | Some s => match stabilize [] false s with
                           | Ok (s', None) =>
                             bool_decide (take 9 (log s') =
                               rev [EvUpd 1; EvObsUpd 3 7; EvUpd 4; EvUpd 5; EvObsUpd 6 8; EvUpd 11; EvUpd 12; EvUpd 13; EvUpd 14])
                           | _ => false end
               | None => false end = true) by (vm_compute; reflexivity).
  destruct (histB_run (init 64) k06_ops) as [s|] eqn:E; [|discriminate Hc].
  destruct (stabilize [] false s) as [[s' [e|]]| |] eqn:E2; try discriminate Hc.
  apply bool_decide_eq_true in Hc. exists s, s'. auto.
Qed.
