(** C13 on graphs with binds, for passes with a writing plan and for passes in which a node or bind
    function returns an error.  (ANY plan -- writes and any number of errors / panics of node, bind and
    cutoff functions: C13_binds_any_plan.v, which subsumes the failing-pass half of this file.)
    - writes: the pass runs exactly the handlers of the write-free pass; an observer's event
      carries the value its node held when the computations ended ([t'], the write-free result),
      not the deferred write ([C13_binds_writes]);
    - failure of the function of [x]: the end bracket carries the error class, the handlers of the
      nodes stamped as changed before the failure still run, exactly once, after it
      ([C13_binds_failing_pass]).
    Proofs: PassBindHandlersW.v. *)
From incr Require Import Base Heap HeapSpec HeapProofs EngineDefs Engine EngineRun EngineWf Spec EngineLemmas EngineLocal
     EngineInv EngineInvProofs PassInv PassProofs PassPlanProofs PassPlanProofs2 PassBind PassBindProofs PassBindSwap
     PassBindSwapProofs PassBindSwapStep PassBindOps PassBindSwapLog PassBindFault PassBindWrites PassBindSwapHandlers
     PassBindHandlersW.

Theorem C13_binds_writes : forall s p s',
  Inv s -> ValInvB s -> Tplain s -> writes_only p = true -> plan_ok s p = true ->
  stabilize p false s = Ok (s', None) ->
  exists t' L H,
    stabilize [] false s = Ok (t', None) /\
    rev (log s') = rev (log s) ++ [EvPassStart] ++ L ++ [EvPassEnd XOk] ++ H /\
    Forall passEv L /\ Forall EngineLocal.isHandlerEv H /\ NoDup H /\
    (forall n, EvUpd n ∈ H <-> inGraph (nd s' n) = true /\ changedAt (nd s' n) = stabNum s) /\
    (forall o v, EvObsUpd o v ∈ H <->
       exists n, obs s' !! o = Some n /\ changedAt (nd s' n) = stabNum s /\ v = valueOf t' n).
Proof. exact passW_handlers. Qed.
Print Assumptions C13_binds_writes.

Theorem C13_binds_failing_pass : forall s x s' e,
  Inv s -> ValInvB s -> Tplain s -> stabilize (failPlan x) false s = Ok (s', e) -> rejected e = false ->
  exists L H,
    rev (log s') = rev (log s) ++ [EvPassStart] ++ L ++ [EvPassEnd (classify e)] ++ H /\
    Forall passEv L /\ Forall EngineLocal.isHandlerEv H /\ NoDup H /\
    (forall n, EvUpd n ∈ H <-> inGraph (nd s' n) = true /\ changedAt (nd s' n) = stabNum s) /\
    (forall o v, EvObsUpd o v ∈ H <->
       exists n, obs s' !! o = Some n /\ changedAt (nd s' n) = stabNum s /\ v = valueOf s' n).
Proof. exact passF_handlers. Qed.
Print Assumptions C13_binds_failing_pass.

(** Non-vacuity: the failing pass of [exF_fail] and the writing pass of [exW_ops] satisfy the hypotheses. *)
Example C13_binds_failing_pass_ex : exists s s',
  Inv s /\ ValInvB s /\ Tplain s /\ stabilize (failPlan 2) false s = Ok (s', Some (EUser 2%nat)).
Proof. destruct exF_fail as (s & s' & _ & I & V & T & H & _). exists s, s'. auto. Qed.
