(** C08 — A bind's discarded right-hand side never runs again; the new one is live at once.

    FUNCTION-LEVEL theorems about the engine model, proved in EngineLocal.v.  Statements only,
    closed by [exact]; [Example]s by [vm_compute] on states reached by [Engine.run (init 256) ...].

    Vocabulary (EngineLocal.v):
    [VP s s'] = no node invalid in [s] is valid in [s'], no node is queued in [s'] that was not
                queued in [s], no node record is dropped;
    [INQ s]   = no invalid node is queued ([valid (nd s r) = false -> inHeap s r = false]).

    History of this file: with the Go code as it was, [zeroNode] reset [valid] to true, so a node
    of a discarded right-hand side that was torn down AFTER it had been invalidated (possible when
    something outside the scope, e.g. an observer, keeps a scope node necessary) was valid again;
    [propagateInvalidity] then re-queued it at height -1 and a fault-free pass returned a
    PanicError ("index out of range [-1]").  Found while proving the statements below, reproduced
    on the Go library, fixed in /repo ("an invalidated node stays invalidated when it leaves the
    graph"); [C08_ex_inner_observer_regression] is the history that used to crash. *)
From incr Require Import Base Heap EngineDefs Engine EngineWf EngineLocal.

(** ** 1. An invalid node is never stale and is never queued as somebody's dependent *)
Theorem C08_invalid_never_stale : forall s n,
  valid (nd s n) = false -> isStale s n = false /\ shouldRecomputeChild s n = false.
Proof. exact C08_invalid_never_stale. Qed.
Print Assumptions C08_invalid_never_stale.

Theorem C08_owed_child_is_valid : forall s c, shouldRecomputeChild s c = true -> valid (nd s c) = true.
Proof. exact C08_owed_child_is_valid. Qed.
Print Assumptions C08_owed_child_is_valid.

(** ** 2. Invalidation marks the node, takes it out of the heap, logs it; it queues nothing,
       revalidates nothing, and keeps the queue free of invalid nodes *)
Theorem C08_invalidate_dequeues : forall fuel s n s',
  invalidateNode fuel s n = Ok s' ->
  VP s s' /\
  (valid (nd s n) = false -> s' = s) /\
  (is_Some (nodes s !! n) -> valid (nd s' n) = false) /\
  (valid (nd s n) = true -> is_Some (nodes s !! n) ->
     inHeap s' n = false /\ exists L, log s' = L ++ EvInval n :: log s).
Proof. exact C08_invalidate_dequeues. Qed.
Print Assumptions C08_invalidate_dequeues.

Theorem C08_invalidate_keeps_queue_clean : forall fuel s n s',
  invalidateNode fuel s n = Ok s' -> INQ s -> INQ s'.
Proof. exact INQ_invalidateNode. Qed.
Print Assumptions C08_invalidate_keeps_queue_clean.

(* a list of nodes (for a bind's main node: the nodes of its right-hand side) *)
Theorem C08_invalidate_all : forall fuel l s s',
  rfold (invalidateNode fuel) l s = Ok s' ->
  VP s s' /\ (INQ s -> INQ s') /\
  (forall r, r ∈ l -> is_Some (nodes s !! r) -> valid (nd s' r) = false).
Proof. exact rfold_invalidate_all. Qed.
Print Assumptions C08_invalidate_all.

(* invalidating a bind's main node invalidates the nodes of its right-hand side *)
Theorem C08_invalidate_main_invalidates_rhs : forall fuel s n b s',
  invalidateNode (S fuel) s n = Ok s' -> valid (nd s n) = true -> nkind (nd s n) = KBindMain b ->
  forall r, r ∈ b_rhsNodes (bd s b) -> is_Some (nodes s !! r) -> valid (nd s' r) = false.
Proof. exact C08_invalidate_main_invalidates_rhs. Qed.
Print Assumptions C08_invalidate_main_invalidates_rhs.

(* every node that an invalidation takes from valid to invalid has its [EvInval] in the log *)
Theorem C08_invalidate_logs : forall fuel s n s',
  invalidateNode fuel s n = Ok s' ->
  exists L, log s' = L ++ log s /\
    forall r, valid (nd s r) = true -> valid (nd s' r) = false -> EvInval r ∈ L.
Proof. exact invalidate_logs. Qed.
Print Assumptions C08_invalidate_logs.

(* [ex08] = [NewVar 1 false; NewBind [TMap (Aff 1 0) (TMap (Aff 1 0) TX)] 0; Observe 2; Stabilize []]:
   bind 1 (nodes 1, 2), right-hand side 4 -> 5 -> 6 *)
Example C08_ex_invalidate :
  let s := reach (ex08 ++ [SetVar 0%nat 2]) in
  valid (nd s 6%nat) = true /\ b_rhsNodes (bd s 1%nat) = [4; 5; 6]%nat /\
  match invalidateNode 20 (s <| log := [] |>) 2%nat with   (* the bind's main node *)
  | Ok s' => map (fun n => valid (nd s' n)) [2; 4; 5; 6]%nat = [false; false; false; false] /\
             map (inHeap s') [2; 4; 5; 6]%nat = [false; false; false; false] /\
             omap (fun e => match e with EvInval m => Some m | _ => None end) (rev (log s')) = [2; 4; 5; 6]%nat
  | _ => False end.
Proof. vm_compute. repeat split. Qed.

(** ** 3. After a plain bind swapped its right-hand side every node of the replaced generation
       is invalid *)
Theorem C08_swap_invalidates_old_generation : forall fuel p s b s',
  bindLhsStabilize fuel p s b = Ok (s', None) ->
  b_memo (bd s b) = false -> is_Some (b_rhs (bd s b)) ->
  forall r, r ∈ b_rhsNodes (bd s b) -> is_Some (nodes s !! r) -> valid (nd s' r) = false.
Proof. exact C08_swap_invalidates_old_generation. Qed.
Print Assumptions C08_swap_invalidates_old_generation.

(* the invalidation part of the swap, with the queue: none of them is queued afterwards *)
Theorem C08_old_generation_not_queued : forall fuel l s s1 s',
  rfold (invalidateNode fuel) l s = Ok s1 -> propagateInvalidity fuel s1 = Ok s' -> INQ s ->
  INQ s' /\ forall r, r ∈ l -> is_Some (nodes s !! r) -> valid (nd s' r) = false /\ inHeap s' r = false.
Proof. exact C08_old_generation_not_queued. Qed.
Print Assumptions C08_old_generation_not_queued.

(* and each of them that was still valid gets its [EvInval] *)
Theorem C08_old_generation_logged : forall fuel l s s',
  rfold (invalidateNode fuel) l s = Ok s' ->
  exists L, log s' = L ++ log s /\
    forall r, r ∈ l -> is_Some (nodes s !! r) -> valid (nd s r) = true -> EvInval r ∈ L.
Proof. exact C08_old_generation_logged. Qed.
Print Assumptions C08_old_generation_logged.

Theorem C08_propagateInvalidity_valid : forall fuel s s', propagateInvalidity fuel s = Ok s' ->
  (forall r, valid (nd s r) = false -> valid (nd s' r) = false) /\ (INQ s -> INQ s').
Proof. exact propagateInvalidity_valid. Qed.
Print Assumptions C08_propagateInvalidity_valid.

Example C08_ex_swap :
  let s := reach (ex08 ++ [SetVar 0%nat 2; Stabilize []]) in
  map (fun n => valid (nd s n)) [4; 5; 6]%nat = [false; false; false] /\
  b_rhsNodes (bd s 1%nat) = [7; 8; 9]%nat /\ map (fun n => valid (nd s n)) [7; 8; 9]%nat = [true; true; true] /\
  value (nd s 2%nat) = 2 /\ wfb s = true.
Proof. vm_compute. repeat split. Qed.

(* the regression: a scope node (6, the root of the right-hand side) is observed directly, then
   the bind's input changes.  Before the fix this history made the model (and the Go library)
   panic inside propagateInvalidity; now the pass succeeds, the old generation is invalid, the
   state is well-formed *)
Example C08_ex_inner_observer_regression :
  let h := ex08 ++ [Observe 6%nat; SetVar 0%nat 2; Stabilize []] in
  is_ok (run (init 256) h) = true /\
  map (fun n => valid (nd (reach h) n)) [4; 5; 6]%nat = [false; false; false] /\
  map (inHeap (reach h)) [4; 5; 6]%nat = [false; false; false] /\ wfb (reach h) = true.
Proof. vm_compute. repeat split. Qed.

(** ** 4. C08_popped_invalid_does_not_run — REFUTED.
    Full statement: "under the heap/queue clause of wfb a node popped by the pass loop is valid".
    It fails: MapN.AddInput on an invalidated MapN queues it ([setStale] and [addChild] do not look
    at [valid]) and the next pass runs its function.  What holds is that every site that TESTS
    before queueing keeps the queue clean ([C08_owed_child_is_valid], [C08_success_keeps_queue_clean],
    [C08_invalidate_keeps_queue_clean], [C08_propagateInvalidity_valid]); the sites that do not
    test are listed at [C08_popped_invalid_does_not_run_refuted] in EngineLocal.v. *)
Theorem C08_popped_invalid_does_not_run_refuted :
  let s := reach ex08_invalid_queued in
  is_ok (run (init 256) ex08_invalid_queued) = true /\
  valid (nd s 6%nat) = false /\ inHeap s 6%nat = true /\
  match stabilize [] false (s <| log := [] |>) with
  | Ok (s', e) => e = None /\
      rev (log s') = [EvPassStart; EvInvoked 6%nat [1; 2] 3; EvPassEnd XOk; EvUpd 6%nat; EvObsUpd 7%nat 3]
  | _ => False
  end.
Proof. exact C08_popped_invalid_does_not_run_refuted. Qed.
Print Assumptions C08_popped_invalid_does_not_run_refuted.

Theorem C08_success_keeps_queue_clean : forall s n s' e imm,
  successTail s n = Ok (s', e, imm) -> INQ s -> INQ s'.
Proof. exact INQ_successTail. Qed.
Print Assumptions C08_success_keeps_queue_clean.
