(** C12 for ParallelStabilize on graphs WITH binds: var writes ([ASet] / [AUpdate]) performed by node,
    bind and cutoff functions during a PARALLEL pass.

    [C12_binds_parallel]: a parallel pass whose plan consists of writes returns no error (unless
    an edge is rejected) and does exactly what the plan-free parallel pass [t'] from the same
    state does -- same log (invocations with their arguments and results, handler events), node
    records equal up to value / pending / setAt of the written vars, same binds -- then applies
    the deferred values: [Inv], [ValInvB], [Tplain] hold again, everything queued after the
    plan-free pass is queued (plus the written vars), and [t'] is consistent: the writes made
    during the pass do not interfere with it (noninterference), they take effect in the next one.
    [C12_binds_parallel_loops_agree]: for ANY plan, the parallel loop with plan [p] and the one with
    the faults of [p] only end in states equal up to the erased fields ([PassBindWrites.cl]) with
    the same result; [C12_binds_parallel_black_box]: the same for whole passes.
    [C12_history_binds_parallel]: histories mixing Stabilize / ParStabilize, plan-free or with
    writing plans: the invariants hold throughout, every plan-free pass of either stabilizer ends
    consistent with the observers reading the from-scratch values.
    Proofs: ParBindWrites.v (the erasure commutes with [recomputeNodeParallel], [parLoop]). *)
From incr Require Import Base Heap HeapSpec HeapProofs EngineDefs Engine EngineRun EngineWf Spec EngineLemmas EngineLocal
     EngineInv EngineInvProofs PassInv PassProofs PassPlanProofs PassBind PassBindProofs PassBindSwap PassBindSwapProofs
     PassBindSwapStep PassBindOps PassBindFault PassBindWrites PassBindTotal PassBindMixed PassBindFaultGen
     ParBind ParBindStep ParBindHistory ParBindWrites SpecProofs.

Theorem C12_binds_parallel : forall s p s' e,
  Inv s -> ValInvB s -> Tplain s -> writes_only p = true -> plan_ok s p = true ->
  parStabilize p s = Ok (s', e) -> rejected e = false ->
  e = None /\
  exists t', parStabilize [] s = Ok (t', None) /\
    (consistent t' = true /\ Inv t' /\ ValInvB t' /\ Tplain t') /\
    Inv s' /\ ValInvB s' /\ Tplain s' /\ CF s s' /\
    (forall m, inHeap t' m = true -> inHeap s' m = true) /\
    (forall m, vps (nd t' m) (nd s' m)) /\ log s' = log t'.
Proof. exact parW_pass. Qed.
Print Assumptions C12_binds_parallel.

Theorem C12_binds_parallel_any_plan_loop : forall fuel p s al s' e al',
  status s = 1 ->
  parLoop fuel p s al = Ok (s', e, al') -> parLoop fuel (fo p) (cl s) al = Ok (cl s', e, al').
Proof. exact parLoop_simG. Qed.
Print Assumptions C12_binds_parallel_any_plan_loop.

Theorem C12_binds_parallel_nowrites_loop : forall fuel q, nowrites q ->
  forall s al, parLoop fuel q (cl s) al = rmap clB (parLoop fuel q s al).
Proof. exact parLoop_clG. Qed.
Print Assumptions C12_binds_parallel_nowrites_loop.

Theorem C12_binds_parallel_loops_agree : forall fuel p s al sLp e al',
  status s = 1 -> parLoop fuel p s al = Ok (sLp, e, al') ->
  exists tL, parLoop fuel (fo p) s al = Ok (tL, e, al') /\ cl tL = cl sLp.
Proof. exact par_loops_agree. Qed.
Print Assumptions C12_binds_parallel_loops_agree.

Theorem C12_binds_parallel_black_box : forall s p s' e,
  Inv s -> ValInvB s -> Tplain s -> plan_ok s p = true -> par_plan_clean s p = true ->
  parStabilize p s = Ok (s', e) -> rejected e = false ->
  (forall tL al, parLoop (passFuel (EngineLocal.passStart s)) (fo p) (EngineLocal.passStart s) [] = Ok (tL, e, al) ->
     setDuring tL = [] /\ setRemoved tL = []) ->
  exists t', parStabilize (fo p) s = Ok (t', e) /\
    (ValInvB t' -> Tplain t' -> CF s t' ->
     Inv s' /\ ValInvB s' /\ Tplain s' /\ CF s s' /\ (forall m, inHeap t' m = true -> inHeap s' m = true) /\
     (forall m, vps (nd t' m) (nd s' m)) /\ log s' = log t').
Proof. exact par_mixed_bb. Qed.
Print Assumptions C12_binds_parallel_black_box.

(* a plan-free parallel pass has no error but a rejected edge *)
Theorem C07_binds_parallel_planfree_errors : forall fuel s al s' e al',
  parLoop fuel [] s al = Ok (s', e, al') -> okErr e.
Proof. exact E_parLoop. Qed.
Print Assumptions C07_binds_parallel_planfree_errors.

Theorem C12_history_binds_parallel_invariants : forall os s0 s,
  Inv s0 -> ValInvB s0 -> Tplain s0 -> templates_ok s0 = true -> histPW_run s0 os = Some s ->
  Inv s /\ ValInvB s /\ Tplain s /\ templates_ok s = true.
Proof. exact histPW_inv. Qed.
Print Assumptions C12_history_binds_parallel_invariants.

Theorem C12_history_binds_parallel : forall mh os1 o os2 sf,
  (0 < mh)%nat -> histPW_run (init mh) (os1 ++ o :: os2) = Some sf ->
  o = Stabilize [] \/ o = ParStabilize [] ->
  exists s1 s2, histPW_run (init mh) os1 = Some s1 /\ step s1 o = Ok (s2, None) /\
    consistent s2 = true /\ observers_agree s2 = true /\ Inv s2 /\ ValInvB s2.
Proof. exact histPW_planfree. Qed.
Print Assumptions C12_history_binds_parallel.

(** Non-vacuity: [exPW_ops]; in its first writing pass (parallel) the bind swaps, the bind function
    sets var 1 to 9 and node 4's function adds 1 to var 0 (the bind's input, 3): no error, var 0
    holds 4 and is queued, var 1 holds 9 *)
Example C12_history_binds_parallel_ex : exists s, histPW_run (init 64) exPW_ops = Some s.
Proof. exact exPW_runs. Qed.

Example C12_binds_parallel_ex :
  match histPW_run (init 64) (take 7 exPW_ops) with
  | Some s =>
    match parStabilize exPW_plan s with
    | Ok (s', None) => (value (nd s 0%nat) =? 3) && (value (nd s' 0%nat) =? 4) && (value (nd s' 1%nat) =? 9)
                       && inHeap s' 0%nat
    | _ => false
    end
  | None => false
  end = true.
Proof. exact exPW_writes. Qed.
