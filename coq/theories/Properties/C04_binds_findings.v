(** C04 on graphs with binds: what does NOT hold between the two stabilizers -- the known findings
    K07 and K08 as kernel-checked witnesses on the model.  ([C04_binds_values] is the positive
    statement: equal values at every node registered after both passes, equal observers.)

    [C04_binds_all_nodes_refuted] (K07): "from the same state the serial and the parallel pass leave
    the same value in EVERY node that existed before" is false.  Witness [k07_ops]: node 2 (a Map
    over var 1, stale) sits at the height of the lhs-change node of a bind that drops it in this
    pass and was queued ahead of it: the serial pass recomputes it (value 10) before the bind
    drops it, the parallel pass runs the lhs-change nodes of a block first and never recomputes it
    (value 6).  Node 2 is out of the graph after both passes; the registered nodes agree.
    [C04_binds_same_handlers_refuted] (K08): "the two passes run the update handlers of the same
    nodes (among those registered after both)" is false.  Witness [k06_ops]: the serial pass loses
    the update of node 2 (K06: the node changed, was torn down by a swap and linked again in the same
    pass), the parallel pass reports it; both compute the same new value for node 2.
    The pre-state of each witness pass satisfies [Inv], [ValInvB], [Tplain] (history theorems) and
    contains no parity cutoff.  Proofs: ParBindFindings.v. *)
From incr Require Import Base Heap HeapSpec HeapProofs EngineDefs Engine EngineRun EngineWf Spec EngineLemmas EngineLocal
     EngineInv EngineInvProofs PassInv PassProofs PassPlanProofs PassBind PassBindProofs PassBindSwap PassBindSwapProofs
     PassBindSwapStep PassBindOps PassBindSwapLog PassBindSwapHandlers ParBind ParBindStep ParBindHistory ParBindLog ParBindC04
     ParBindFindings SpecProofs.

Theorem C04_binds_all_nodes_refuted :
  ~ (forall s sS sP, Inv s -> ValInvB s -> Tplain s -> noParity s ->
       stabilize [] false s = Ok (sS, None) -> parStabilize [] s = Ok (sP, None) ->
       forall n, has s n -> value (nd sS n) = value (nd sP n)).
Proof. exact C04_all_nodes_statement_refuted. Qed.
Print Assumptions C04_binds_all_nodes_refuted.

Theorem C04_binds_same_handlers_refuted :
  ~ (forall s sS sP, Inv s -> ValInvB s -> Tplain s -> noParity s ->
       stabilize [] false s = Ok (sS, None) -> parStabilize [] s = Ok (sP, None) ->
       forall n, inGraph (nd sS n) = true -> inGraph (nd sP n) = true ->
         (EvUpd n ∈ evsOf s sS <-> EvUpd n ∈ evsOf s sP)).
Proof. exact C13_same_handlers_statement_refuted. Qed.
Print Assumptions C04_binds_same_handlers_refuted.

(** the witnesses, by computation *)
Example C04_binds_K07_ex :
  match histB_run (init 64) k07_ops with
  | Some s => match stabilize [] false s, parStabilize [] s with
              | Ok (sS, None), Ok (sP, None) =>
                (value (nd sS 2%nat) =? 10) && (value (nd sP 2%nat) =? 6) &&
                negb (inGraph (nd sS 2%nat)) && negb (inGraph (nd sP 2%nat)) &&
                (value (nd sS 4%nat) =? value (nd sP 4%nat))
              | _, _ => false end
  | None => false end = true.
Proof. vm_compute. reflexivity. Qed.

Example C04_binds_K08_ex :
  match histB_run (init 64) k06_ops with
  | Some s => match stabilize [] false s, parStabilize [] s with
              | Ok (sS, None), Ok (sP, None) =>
                inGraph (nd sS 2%nat) && inGraph (nd sP 2%nat) &&
                negb (bool_decide (EvUpd 2%nat ∈ evsOf s sS)) && bool_decide (EvUpd 2%nat ∈ evsOf s sP) &&
                (value (nd sS 2%nat) =? value (nd sP 2%nat)) && negb (value (nd sS 2%nat) =? value (nd s 2%nat))
              | _, _ => false end
  | None => false end = true.
Proof. vm_compute. reflexivity. Qed.
