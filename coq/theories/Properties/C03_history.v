(** C03 over whole histories of the bind-free fragment, with no wfb hypothesis (proofs: StaticHistory.v). *)
From incr Require Import Base Heap HeapSpec EngineDefs Engine EngineRun EngineWf Spec EngineInv PassInv PassProofs
     Par ParProofs ParSerial StaticHistory.

Theorem C03_history_bindfree : forall mh os1 o os2 sf,
  (0 < mh)%nat -> hist_run (init mh) (os1 ++ o :: os2) = Some sf -> is_pass o = true ->
  exists s1 s2, hist_run (init mh) os1 = Some s1 /\ step s1 o = Ok (s2, None) /\
    let k := stabNum s1 in
    forall evs, log s2 = evs ++ log s1 ->
    (forall e n, e ∈ evs -> ev_node e = Some n -> recomputedAt (nd s2 n) = k) /\
    (forall n, recomputedAt (nd s2 n) = k ->
       inGraph (nd s1 n) = true /\
       (n ∈ Heap.ids (heap s1) \/ exists p, p ∈ parents (nd s1 n) /\ changedAt (nd s2 p) = k)) /\
    NoDup (invoked_of evs) /\
    (forall n, inGraph (nd s1 n) = true ->
       (isStale s1 n = true \/ n ∈ Heap.ids (heap s1) \/
        exists p, p ∈ parents (nd s1 n) /\ changedAt (nd s2 p) = k) ->
       recomputedAt (nd s2 n) = k) /\
    (forall n, recomputedAt (nd s2 n) <> k ->
       value (nd s2 n) = value (nd s1 n) /\ recomputedAt (nd s2 n) = recomputedAt (nd s1 n)
       /\ changedAt (nd s2 n) = changedAt (nd s1 n)).
Proof. exact C03_history. Qed.
Print Assumptions C03_history_bindfree.

