(** C13 (bind-free fragment) — the update handlers of a plan-free pass: exactly one [EvUpd] for
    every registered node whose value changed in the pass ([changedAt] = the pass number), exactly
    one [EvObsUpd] for every observer of such a node, carrying the value the node holds when the
    pass returns, none for any other node or observer, and all of them after the end bracket,
    hence after every invocation / cutoff event of the pass.

    Hypotheses: [wfb], [PassInv.ValInv], and [ObsInv]: an observer's identifier is not a node's
    (they are drawn from the same counter; [wfb] does not say so).  Proofs: PassPlanProofs.v,
    on top of EngineLocal's [C13_bracket_and_order] and [C13_changed_node_is_queued_for_handler]. *)
From incr Require Import Base Heap HeapSpec EngineDefs Engine EngineRun EngineWf Spec EngineLemmas EngineLocal
     EngineInv EngineInvProofs PassInv PassProofs PassPlanProofs PassPlanProofs2.

(** [L]: the events between the brackets (no handler event among them: [passEv]); [H]: the handler
    events, without repetition. *)
Theorem C13_static : forall s s',
  wfb s = true -> ValInv s -> ObsInv s -> stabilize [] false s = Ok (s', None) ->
  exists L H,
    rev (log s') = rev (log s) ++ [EvPassStart] ++ L ++ [EvPassEnd XOk] ++ H /\
    Forall passEv L /\ Forall EngineLocal.isHandlerEv H /\ NoDup H /\
    (forall n, EvUpd n ∈ H <-> inGraph (nd s' n) = true /\ changedAt (nd s' n) = stabNum s) /\
    (forall o v, EvObsUpd o v ∈ H <->
       exists n, obs s' !! o = Some n /\ changedAt (nd s' n) = stabNum s /\ v = valueOf s' n).
Proof. exact pass_handlers. Qed.
Print Assumptions C13_static.

(** the handler set during the pass: the nodes that changed so far and their observers; one
    recompute preserves this *)
Theorem C13_static_handler_set_step : forall h0 base fuel s m s' imm,
  Struct s -> LInv h0 base s (Some m) -> HInv s ->
  recomputeNodeSerial fuel [] s m = Ok (s', None, imm) -> HInv s'.
Proof. exact step_HInv. Qed.
Print Assumptions C13_static_handler_set_step.

Theorem C13_static_obsinv_b_sound : forall s, obsinv_b s = true -> ObsInv s.
Proof. exact obsinv_b_sound. Qed.
Print Assumptions C13_static_obsinv_b_sound.

(** Non-vacuity: the example pass; node 6 (cut off) has no handler event, the observer 10 of node
    9 sees 2. *)
Example C13_static_ex :
  wfb ex_pre = true /\ ValInv ex_pre /\ ObsInv ex_pre /\ stabilize [] false ex_pre = Ok (ex_post, None) /\
  rev (log ex_post) =
    [EvPassStart; EvInvoked 3 [3] 6; EvInvoked 5 [4; 4] 1; EvInvoked 2 [3] 4; EvInvoked 4 [4; 6] 10;
     EvCutoff 6 0 10 true; EvInvoked 8 [0] 0; EvInvoked 9 [1; 0; 1] 2; EvPassEnd XOk;
     EvUpd 0; EvUpd 1; EvUpd 2; EvUpd 3; EvUpd 4; EvUpd 5; EvUpd 7; EvUpd 8; EvUpd 9; EvObsUpd 10 2].
Proof.
  split; [exact (proj1 ex_pre_hyps)|]. split; [exact (proj2 ex_pre_hyps)|].
  split; [exact (proj2 (proj2 ex_plan_hyps))|]. split; [exact ex_pass_ok|]. vm_compute; reflexivity.
Qed.

(** ** On top of the structural invariant [EngineInv.Inv] (C05): no [wfb] / [ObsInv] hypothesis *)

(** for every clean history of the fragment from the empty graph ([static_op2]: no binds; passes
    with writing plans or one failing node function allowed), the handler events of every
    plan-free pass are exactly-once-iff-changed *)
Theorem C13_history_bindfree : forall mh os1 os2 s',
  (0 < mh)%nat -> forallb static_op2 (os1 ++ Stabilize [] :: os2) = true ->
  run_clean (init mh) (os1 ++ Stabilize [] :: os2) = Some s' ->
  exists s1 s2 L H, run_clean (init mh) os1 = Some s1 /\ step s1 (Stabilize []) = Ok (s2, None) /\
    rev (log s2) = rev (log s1) ++ [EvPassStart] ++ L ++ [EvPassEnd XOk] ++ H /\
    Forall passEv L /\ Forall EngineLocal.isHandlerEv H /\ NoDup H /\
    (forall n, EvUpd n ∈ H <-> inGraph (nd s2 n) = true /\ changedAt (nd s2 n) = stabNum s1) /\
    (forall o v, EvObsUpd o v ∈ H <->
       exists n, obs s2 !! o = Some n /\ changedAt (nd s2 n) = stabNum s1 /\ v = valueOf s2 n).
Proof. exact history_planfree_handlers. Qed.
Print Assumptions C13_history_bindfree.

(** a pass whose plan writes vars runs the handlers of the write-free pass; an observer sees the
    value its node held when the computations ended ([sLp]), not the deferred write *)
Theorem C13_static_writes : forall s p s',
  wfb s = true -> ValInv s -> ObsInv s -> writes_only p = true -> plan_ok s p = true ->
  stabilize p false s = Ok (s', None) ->
  exists sLp at_ al L H,
    passResult p false s = Ok (sLp, None, at_, al) /\
    rev (log s') = rev (log s) ++ [EvPassStart] ++ L ++ [EvPassEnd XOk] ++ H /\
    Forall passEv L /\ Forall EngineLocal.isHandlerEv H /\ NoDup H /\
    (forall n, EvUpd n ∈ H <-> inGraph (nd s' n) = true /\ changedAt (nd s' n) = stabNum s) /\
    (forall o v, EvObsUpd o v ∈ H <->
       exists n, obs s' !! o = Some n /\ changedAt (nd s' n) = stabNum s /\ v = valueOf sLp n).
Proof. exact pass_handlers_writes. Qed.
Print Assumptions C13_static_writes.

(** [ObsInv] is part of [Inv] *)
Theorem C13_static_Inv_ObsInv : forall s, Inv s -> ObsInv s.
Proof. exact Inv_ObsInv. Qed.
Print Assumptions C13_static_Inv_ObsInv.

Example C13_history_ex :
  forallb static_op2 ex_history2 = true /\ exists s', run_clean (init 64) ex_history2 = Some s'.
Proof. exact ex_history2_clean. Qed.
