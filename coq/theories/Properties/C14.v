(** C14 — incrementally maintained aggregates equal a full fold of their current inputs.

    This file holds only the property theorems; each is closed by [exact] of a lemma of
    FoldProofs.v and followed by [Print Assumptions].

    Vocabulary (Fold.v): the UnorderedArrayFold node is the state machine [uaf]
    ([value / last / pending / folded]) over [inputs : list nat] (the input node feeding
    each slot — inputs may repeat) and a store of input values; a history is a list of
    [Write i x] (input i takes value x), [Notify j] (the graph calls ChildChanged(input j)),
    [Recompute] (the graph recomputes the fold), [Unlink] / [Relink] (the fold leaves /
    re-enters the graph).  [admissible] is the engine's discipline (every write to a linked
    input is notified before the fold's next recompute; notifications and recomputes only
    while linked; several writes per pass and repeated notifications allowed; writes to nodes
    that are not inputs of the fold do not matter).
    [update_contract] is the documented contract of the caller's [update].  The boolean
    [reset_on_unlink] selects the code as it is ([false]) or the planned repair ([true]).

    FULL STATEMENT of the UnorderedArrayFold part (for every admissible history, after every
    recompute, value = full fold of the current inputs):

      forall st0 h, admissible inputs false [] (h ++ [Recompute]) ->
        exists w, run initial fold update reset_on_unlink inputs (init zeroA initial inputs st0)
                      (h ++ [Recompute]) = Ok w /\
                  value (w_f w) = full initial fold inputs (w_store w)

    It is FALSE for the code as it is ([C14_uaf_refuted]: observe, stabilize, unobserve,
    set, observe, stabilize reads 3 where the inputs sum to 12), TRUE for the repaired
    variant ([C14_uaf_fixed]), and true for the code as it is under the extra hypothesis
    [quiet] — once the fold has been computed, no input is written while it is unlinked and
    no write is still un-notified when it is unlinked ([C14_uaf]). *)
From incr Require Import Base Fold FoldProofs.

(** The code as it is, under the discipline plus [quiet]. *)
Theorem C14_uaf :
  forall {A B : Type} (zeroA : A) (initial : B) (fold : B -> A -> B) (update : B -> A -> A -> B)
         (inputs : list nat),
    update_contract zeroA initial fold update ->
    forall (st0 : store) (h : list ev),
      admissible inputs false [] (h ++ [Recompute]) ->
      quiet inputs false [] false (h ++ [Recompute]) ->
      exists w, run initial fold update false inputs (init zeroA initial inputs st0) (h ++ [Recompute]) = Ok w /\
                value (w_f w) = full initial fold inputs (w_store w).
Proof. exact (@uaf_as_is). Qed.
Print Assumptions C14_uaf.

(** The full statement fails for the code as it is: a concrete admissible history of the
    sum over two inputs (whose [update] does satisfy the contract) after which the fold
    reads 3 while its inputs sum to 12. *)
Theorem C14_uaf_refuted :
  exists (st0 : store (A:=Z)) (h : list (ev (A:=Z))),
    update_contract (A:=Z) (B:=Z) 0 0 Z.add (fun acc o n => acc - o + n) /\
    admissible [0%nat; 1%nat] false [] (h ++ [Recompute]) /\
    exists w, run 0 Z.add (fun acc o n => acc - o + n) false [0%nat; 1%nat]
                  (init 0 0 [0%nat; 1%nat] st0) (h ++ [Recompute]) = Ok w /\
              value (w_f w) = 3 /\ full 0 Z.add [0%nat; 1%nat] (w_store w) = 12.
Proof. exact uaf_refuted. Qed.
Print Assumptions C14_uaf_refuted.

(** The full statement holds for the repaired variant (forget [folded] when the node is
    released): repeats, several changes per pass, re-notification, and anything at all
    happening to the inputs while the fold is away. *)
Theorem C14_uaf_fixed :
  forall {A B : Type} (zeroA : A) (initial : B) (fold : B -> A -> B) (update : B -> A -> A -> B)
         (inputs : list nat),
    update_contract zeroA initial fold update ->
    forall (st0 : store) (h : list ev),
      admissible inputs false [] (h ++ [Recompute]) ->
      exists w, run initial fold update true inputs (init zeroA initial inputs st0) (h ++ [Recompute]) = Ok w /\
                value (w_f w) = full initial fold inputs (w_store w).
Proof. exact (@uaf_fixed). Qed.
Print Assumptions C14_uaf_fixed.

(** The sum's update satisfies the contract (the hypothesis of the theorems above is
    satisfiable). *)
Theorem C14_sum_contract :
  update_contract (A:=Z) (B:=Z) 0 0 Z.add (fun acc o n => acc - o + n).
Proof. exact sum_contract. Qed.
Print Assumptions C14_sum_contract.

(** ReduceBalanced: for an associative operation (commutativity not needed) and every
    non-empty list of inputs, the tree of Map2 nodes the construction loop builds evaluates
    to the left-to-right reduction of the inputs in the order given; no inputs give nil. *)
Theorem C14_reduce_balanced :
  forall {A : Type} (op : A -> A -> A),
    (forall a b c, op a (op b c) = op (op a b) c) ->
    forall (l : list A) (d : A), l <> [] ->
      exists t, reduce_tree l = Ok (Some t) /\ eval op t = foldl1 op d l.
Proof. exact (@reduce_balanced_correct). Qed.
Print Assumptions C14_reduce_balanced.

Theorem C14_reduce_balanced_empty : forall {A : Type}, reduce_tree (A:=A) [] = Ok None.
Proof. exact (@reduce_balanced_empty). Qed.
Print Assumptions C14_reduce_balanced_empty.

(** MapN, ArrayFold, All: the function applied to all current inputs. *)
Theorem C14_mapn : forall {A B : Type} (fn : list A -> B) (values : list A), mapN fn values = fn values.
Proof. exact (@mapn_correct). Qed.
Print Assumptions C14_mapn.

Theorem C14_arrayfold :
  forall {A B : Type} (initial : B) (fold : B -> A -> B) (values : list A),
    arrayFold initial fold values = fold_left fold values initial.
Proof. exact (@arrayfold_correct). Qed.
Print Assumptions C14_arrayfold.

Theorem C14_all : forall {A : Type} (values : list A), all values = values.
Proof. exact (@all_correct). Qed.
Print Assumptions C14_all.

(** ForAll / Exists: ReduceBalanced over && / ||, true / false for no inputs. *)
Theorem C14_forall : forall values : list bool, forAll values = Ok (forallb id values).
Proof. exact forall_correct. Qed.
Print Assumptions C14_forall.

Theorem C14_exists : forall values : list bool, exists_ values = Ok (existsb id values).
Proof. exact exists_correct. Qed.
Print Assumptions C14_exists.
