(** C03 for passes in which binds SWAP -- in a serial pass without a plan every node runs at most
    once PER PERIOD OF NECESSITY; whoever is owed a recompute gets it; a node that stays registered
    and does not run keeps its value and stamps.

    With swaps the stamps alone no longer tell who ran: a node that ran and is then dropped by a
    swapping bind has its stamps reset to 0 ([removeNode]), and if a later bind of the same pass
    links it again (event [EvNec n]: a new period of necessity) it is stale and RUNS AGAIN IN THE
    SAME PASS -- [C03_binds_swap_twice_ex] below is such a pass (the real library does the same).
    So "once" is per period of necessity: between two invocation / cutoff events of one node in the
    events of a pass there is an [EvNec] of that node ([C03_binds_swap_once]).

    [evs]: the events of the pass, most recent first.  An event at [evs = pre ++ e :: post] belongs
    to the CURRENT period of necessity of its node [n] iff no [EvNec n] occurs in [pre].
    Hypotheses as in Properties/C02_binds_swap.v.  Proofs: PassBindSwapLog.v. *)
From incr Require Import Base Heap HeapSpec EngineDefs Engine EngineRun EngineWf Spec EngineLemmas
     EngineInv EngineInvProofs PassInv PassProofs PassBind PassBindProofs PassBindSwap PassBindSwapProofs
     PassBindSwapStep PassBindOps PassBindSwapLog.

(** (b) no node runs twice in one period of necessity *)
Theorem C03_binds_swap_once : forall s s',
  Inv s -> ValInvB s -> Tplain s -> stabilize [] false s = Ok (s', None) ->
  forall evs pre e mid e' post n, log s' = evs ++ log s -> evs = pre ++ e :: mid ++ e' :: post ->
    ev_node e = Some n -> ev_node e' = Some n -> EvNec n ∈ mid.
Proof. exact passS_once. Qed.
Print Assumptions C03_binds_swap_once.

(** (a), (c), (d): [k = stabNum s] is the number of the pass *)
Theorem C03_binds_swap : forall s s',
  Inv s -> ValInvB s -> Tplain s -> stabilize [] false s = Ok (s', None) ->
  let k := stabNum s in
  forall evs, log s' = evs ++ log s ->
  (* (a) an event of the current period of necessity of a node registered at the end: it ran *)
  (forall pre e post n, evs = pre ++ e :: post -> ev_node e = Some n -> EvNec n ∉ pre ->
     inGraph (nd s' n) = true -> recomputedAt (nd s' n) = k) /\
  (* (c) a registered node one of whose inputs changed in this pass ran; nothing but Always nodes
         is left stale *)
  (forall n p, inGraph (nd s' n) = true -> p ∈ parents (nd s' n) -> changedAt (nd s' p) = k ->
     recomputedAt (nd s' n) = k) /\
  (forall n, inGraph (nd s' n) = true -> isStale s' n = true -> nkind (nd s' n) = KAlways) /\
  (* (d) a node that stayed registered throughout and did not run keeps its value and stamps *)
  (forall n, inGraph (nd s' n) = true -> EvNec n ∉ evs -> recomputedAt (nd s' n) <> k ->
     value (nd s' n) = value (nd s n) /\ recomputedAt (nd s' n) = recomputedAt (nd s n) /\
     changedAt (nd s' n) = changedAt (nd s n)).
Proof. exact passS_runs. Qed.
Print Assumptions C03_binds_swap.

(** C11, pass half, for swapping passes: a cutoff that held (current period, node registered at the
    end) left the node's value and change stamp alone *)
Theorem C11_cut_kept_binds_swap : forall s s',
  Inv s -> ValInvB s -> Tplain s -> stabilize [] false s = Ok (s', None) ->
  forall evs pre n old new post, log s' = evs ++ log s -> evs = pre ++ EvCutoff n old new true :: post ->
    EvNec n ∉ pre -> inGraph (nd s' n) = true ->
    changedAt (nd s' n) < stabNum s /\ value (nd s' n) = old /\ recomputedAt (nd s' n) = stabNum s.
Proof. exact passS_cut_kept. Qed.
Print Assumptions C11_cut_kept_binds_swap.

(** Non-vacuity, and the double run: [exD_ops] builds Var 0, Map 1 over it, bind 4/5 over var 2 with
    cases [node 1; Return 0], bind 6/7 over var 3 with cases [Return 0; node 1], observes both,
    stabilizes, then sets all three vars.  In the next pass node 1 runs (its input changed), bind 4
    swaps away from it (EvUnnec 1), bind 6 swaps to it (EvNec 1) and it runs again: two
    [EvInvoked 1 [5] 6] with [EvNec 1] between them. *)
Example C03_binds_swap_twice_ex : exists s s', stabilize [] false s = Ok (s', None) /\
  Inv s /\ ValInvB s /\ Tplain s /\
  exists evs pre mid post, log s' = evs ++ log s /\
    evs = pre ++ EvInvoked 1 [5] 6 :: mid ++ EvInvoked 1 [5] 6 :: post /\ EvNec 1%nat ∈ mid.
Proof.
  destruct exD_run as (s & s' & _ & H & I & V & T & El & _). exists s, s'. split; [exact H|].
  split; [exact I|]. split; [exact V|]. split; [exact T|].
  eexists _, (take 11 (log s')), exD_mid, _. split; [exact El|]. split; [reflexivity|].
  unfold exD_mid. do 3 right. left.
Qed.
