(** C19 — only one stabilization of a graph runs at a time.

    This file holds only the property theorems, each closed by [exact] of a lemma of
    StatusProofs.v with [Print Assumptions] beneath it.

    The model (Status.v) is the protocol on the shared word [graph.status]: a call of
    [Stabilize] / [ParallelStabilize] is a straight-line program of atomic actions; any
    number of threads run it again and again under any interleaving.  The program in force
    is NOT written by hand: [cmd/statusextract] regenerates it from /repo's Go source on
    every run (coq/run/status_prog.v) and evaluates the two syntactic hypotheses of
    [C19_mutex] on it ([OK]).  Partial: the Go scheduler and memory model are not modelled
    (sync/atomic operations are taken to be sequentially consistent), and what the node
    functions do to the graph is abstracted to the marker actions [Work] / [Handlers]. *)
From incr Require Import Base Status StatusProofs.

(** Mutual exclusion, for all programs of the safe shape, all thread counts, all schedules:
    at no time are two calls inside the node functions or update handlers; at most one call
    is between acquire and release; and a call that is turned away (returns
    ErrAlreadyStabilizing) has not written the word, nor does the failing step change it. *)
Theorem C19_mutex : forall prog,
  acquires_atomically prog = true -> releases_last prog = true ->
  forall (n : nat) (sch : schedule),
    let st := exec n prog sch in
    (forall i j, at_work prog (threads st i) = true -> at_work prog (threads st j) = true -> i = j)
    /\ (forall i j, wrote (threads st i) = true -> wrote (threads st j) = true -> i = j)
    /\ (forall i, at_work prog (threads st i) = true -> wrote (threads st i) = true /\ status st <> 0)
    /\ (forall i st', step n prog st i = (st', EvErr) ->
          wrote (threads st i) = false /\ status st' = status st).
Proof. exact status_mutex. Qed.
Print Assumptions C19_mutex.

(** The hypotheses are satisfiable (the compare-and-swap protocol, with or without a cheap
    look first), a caller does get in, and a second caller is turned away. *)
Theorem C19_mutex_nonvacuous :
  acquires_atomically cas_protocol = true /\ releases_last cas_protocol = true /\
  acquires_atomically probe_then_cas = true /\ releases_last probe_then_cas = true /\
  in_node_functions cas_protocol (threads (exec 2 cas_protocol [0;1]%nat) 0%nat) = true /\
  snd (step 2 cas_protocol (exec 2 cas_protocol [0]%nat) 1%nat) = EvErr.
Proof. exact status_mutex_nonvacuous. Qed.
Print Assumptions C19_mutex_nonvacuous.

(** The shape found in the source at the time of writing -- load, test, and only then
    store -- does not satisfy the property: there is a schedule of two callers after which
    both are inside the node functions.  (Whether the CURRENT source still has this shape
    is decided by the regenerated coq/run/status_prog.v, not here.) *)
Theorem C19_check_then_store_refuted :
  exists sch : schedule,
    let st := exec 2 check_then_store sch in
    in_node_functions check_then_store (threads st 0%nat) = true /\
    in_node_functions check_then_store (threads st 1%nat) = true.
Proof. exact check_then_store_refuted. Qed.
Print Assumptions C19_check_then_store_refuted.

(** and that shape fails exactly the first hypothesis of [C19_mutex] *)
Theorem C19_check_then_store_predicates :
  acquires_atomically check_then_store = false /\ releases_last check_then_store = true.
Proof. exact check_then_store_predicates. Qed.
Print Assumptions C19_check_then_store_predicates.
