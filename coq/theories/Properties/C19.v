(** C19 — only one stabilization of a graph runs at a time.

    This file holds only the property theorems, each closed by [exact] of a lemma of
    StatusProofs.v with [Print Assumptions] beneath it.

    The model (Status.v) is the protocol on the shared word [graph.status]: a call of
    [Stabilize] / [ParallelStabilize] is a straight-line program of atomic actions; any
    number of threads run it again and again under any interleaving.  The program in force
    is NOT written by hand: [cmd/statusextract] regenerates it from /repo's Go source on
    every run (coq/run/status_prog.v), one program per path of a call (panicking paths
    included), and evaluates the two syntactic hypotheses of [C19_mutex_paths] on every one
    of them ([OK]).  Partial: the Go scheduler and memory model are not modelled
    (sync/atomic operations are taken to be sequentially consistent), and what the node
    functions do to the graph is abstracted to the marker actions [Work] / [Handlers]. *)
From incr Require Import Base Status StatusProofs.

(** Mutual exclusion, for all programs of the safe shape, all thread counts, all schedules:
    at no time are two calls inside the node functions or update handlers; at most one call
    is between acquire and release; and a call that is turned away (returns
    ErrAlreadyStabilizing) has not written the word, nor does the failing step change it. *)
Theorem C19_mutex : forall prog,
  acquires_atomically prog = true -> releases_last prog = true ->
  forall (n : nat) (sch : schedule),
    let st := exec n prog sch in
    (forall i j, at_work prog (threads st i) = true -> at_work prog (threads st j) = true -> i = j)
    /\ (forall i j, wrote (threads st i) = true -> wrote (threads st j) = true -> i = j)
    /\ (forall i, at_work prog (threads st i) = true -> wrote (threads st i) = true /\ status st <> 0)
    /\ (forall i st', step n prog st i = (st', EvErr) ->
          wrote (threads st i) = false /\ status st' = status st).
Proof. exact status_mutex. Qed.
Print Assumptions C19_mutex.

(** The same when every call follows a path of its own.  One call of the Go function takes
    one of several straight-line paths -- the ordinary one, or one on which a node function
    or a handler panics and the deferred functions run during the unwinding, the recover
    block included; cmd/statusextract regenerates ALL of them.  A call is a thread; thread
    [i] runs path [pf i], for any assignment [pf] of paths to threads. *)
Theorem C19_mutex_paths : forall pf : nat -> program,
  (forall i, good_path (pf i) = true) ->
  forall (n : nat) (sch : schedule),
    let st := execf n pf sch in
    (forall i j, at_work (pf i) (threads st i) = true -> at_work (pf j) (threads st j) = true -> i = j)
    /\ (forall i j, wrote (threads st i) = true -> wrote (threads st j) = true -> i = j)
    /\ (forall i, at_work (pf i) (threads st i) = true -> wrote (threads st i) = true /\ status st <> 0)
    /\ (forall i st', stepf n pf st i = (st', EvErr) ->
          wrote (threads st i) = false /\ status st' = status st).
Proof. exact status_mutex_paths. Qed.
Print Assumptions C19_mutex_paths.

(** ... in the form the regenerated file uses: a finite list of paths, all good ([OK]). *)
Theorem C19_mutex_path_set : forall (paths : list program) (pf : nat -> program),
  forallb good_path paths = true -> (forall i, In (pf i) paths) ->
  forall (n : nat) (sch : schedule),
    let st := execf n pf sch in
    (forall i j, at_work (pf i) (threads st i) = true -> at_work (pf j) (threads st j) = true -> i = j)
    /\ (forall i j, wrote (threads st i) = true -> wrote (threads st j) = true -> i = j)
    /\ (forall i, at_work (pf i) (threads st i) = true -> wrote (threads st i) = true /\ status st <> 0)
    /\ (forall i st', stepf n pf st i = (st', EvErr) ->
          wrote (threads st i) = false /\ status st' = status st).
Proof. exact status_mutex_path_set. Qed.
Print Assumptions C19_mutex_path_set.

(** A path on which user code (error / aborted handlers reached from a recover block, say)
    runs AFTER the releasing store fails [good_path], and rightly so: while that call is in
    its trailing handlers an ordinary second call is let in and runs node functions. *)
Theorem C19_handlers_after_release_refuted :
  good_path ordinary_path = true /\ good_path handlers_after_release = false /\
  exists sch : schedule,
    let pf := fun i => if Nat.eqb i 0 then handlers_after_release else ordinary_path in
    let st := execf 2 pf sch in
    at_work (pf 0%nat) (threads st 0%nat) = true /\
    in_node_functions (pf 1%nat) (threads st 1%nat) = true /\
    status st <> 0.
Proof. exact handlers_after_release_refuted. Qed.
Print Assumptions C19_handlers_after_release_refuted.

(** The hypotheses are satisfiable (the compare-and-swap protocol, with or without a cheap
    look first), a caller does get in, and a second caller is turned away. *)
Theorem C19_mutex_nonvacuous :
  acquires_atomically cas_protocol = true /\ releases_last cas_protocol = true /\
  acquires_atomically probe_then_cas = true /\ releases_last probe_then_cas = true /\
  in_node_functions cas_protocol (threads (exec 2 cas_protocol [0;1]%nat) 0%nat) = true /\
  snd (step 2 cas_protocol (exec 2 cas_protocol [0]%nat) 1%nat) = EvErr.
Proof. exact status_mutex_nonvacuous. Qed.
Print Assumptions C19_mutex_nonvacuous.

(** The shape found in the source at the time of writing -- load, test, and only then
    store -- does not satisfy the property: there is a schedule of two callers after which
    both are inside the node functions.  (Whether the CURRENT source still has this shape
    is decided by the regenerated coq/run/status_prog.v, not here.) *)
Theorem C19_check_then_store_refuted :
  exists sch : schedule,
    let st := exec 2 check_then_store sch in
    in_node_functions check_then_store (threads st 0%nat) = true /\
    in_node_functions check_then_store (threads st 1%nat) = true.
Proof. exact check_then_store_refuted. Qed.
Print Assumptions C19_check_then_store_refuted.

(** and that shape fails exactly the first hypothesis of [C19_mutex] *)
Theorem C19_check_then_store_predicates :
  acquires_atomically check_then_store = false /\ releases_last check_then_store = true.
Proof. exact check_then_store_predicates. Qed.
Print Assumptions C19_check_then_store_predicates.
