(** C17 — mapi operators equal their non-incremental definitions on the current input.

    This file holds only the property theorems; each is closed by [exact] of a lemma proved
    in MapiProofs.v, with [Print Assumptions] beneath it.

    Reading guide.  An operator of incrutil/mapi is a state plus a [Stabilize] (Mapi.v,
    written like the Go method: diff [last] against the current input, edit the carried
    value, [last := current]).  A HISTORY is the list [ms] of inputs the node read at its
    successive recomputes: any map may follow any map (many keys changed at once, unrelated
    rebuilt maps, versions skipped while the node was unobserved are just a larger diff).
    Every theorem is for ALL histories; [List.last ms d] is the current input.  [F_*] are the
    plain definitions of MapiSpec.v.  [equal] is [eq : option (Z -> Z -> bool)], [None] being
    Go's [nil]; the hypotheses [respects] / [eq_exact] / [merge_respects] state what the Go
    doc comments require of [equal] ("equal decides what 'changed' means"): the per-entry
    computation must not distinguish values that [equal] identifies.  Selector and Join
    depend on the engine's necessity / notification discipline and are stated over event
    histories instead. *)
From incr Require Import Base MapiSpec Mapi MapiProofs.

(** ** MapValues *)
Theorem C17_map_values : forall (eq : eqfn) (f : Z -> Z -> Z) (ms : list zmap),
  respects eq f ->
  MapValues.value (fold_left (MapValues.Stabilize eq f) ms MapValues.init) = F_map_values f (List.last ms ∅).
Proof. exact map_values_correct. Qed.
Print Assumptions C17_map_values.

(** without any hypothesis on [equal] (coarse, [nil]): the documented promise -- [fn] of the
    value each key had when the diff last reported it ([seen_fold], MapiProofs.v) *)
Theorem C17_map_values_any_equal : forall (eq : eqfn) (f : Z -> Z -> Z) (ms : list zmap),
  MapValues.value (fold_left (MapValues.Stabilize eq f) ms MapValues.init) = F_map_values f (seen_fold eq ms).1.
Proof. exact map_values_seen. Qed.
Print Assumptions C17_map_values_any_equal.

(** ** FilterMapValues *)
Theorem C17_filter_map_values : forall (eq : eqfn) (fn : Z -> Z -> option Z) (ms : list zmap),
  respects eq fn ->
  FilterMapValues.value (fold_left (FilterMapValues.Stabilize eq fn) ms FilterMapValues.init)
  = F_filter_map_values fn (List.last ms ∅).
Proof. exact filter_map_values_correct. Qed.
Print Assumptions C17_filter_map_values.

(** ** Merge (a history is a list of (left, right) pairs) *)
Theorem C17_merge : forall (eqL eqR : eqfn) (fn : Z -> merge_element -> option Z) (ms : list (zmap * zmap)),
  merge_respects eqL eqR fn ->
  Merge.value (fold_left (fun s x => Merge.Stabilize eqL eqR fn s x.1 x.2) ms Merge.init)
  = F_merge fn (List.last ms (∅, ∅)).1 (List.last ms (∅, ∅)).2.
Proof. exact merge_correct. Qed.
Print Assumptions C17_merge.

(** ** UnorderedFold: under the documented contract ([remove] inverts [add], the fold does not
    depend on the order) and an [equal] that [add] cannot see through *)
Theorem C17_unordered_fold : forall (B : Type) (eq : eqfn) (add remove : B -> Z -> Z -> B) (initial : B),
  (forall a k1 v1 k2 v2, add (add a k1 v1) k2 v2 = add (add a k2 v2) k1 v1) ->
  (forall a k v, remove (add a k v) k v = a) ->
  (forall a k v v', veqb eq v v' = true -> add a k v = add a k v') ->
  forall ms : list zmap,
  UnorderedFold.value (fold_left (UnorderedFold.Stabilize eq add remove) ms (UnorderedFold.init initial))
  = F_fold add initial (List.last ms ∅).
Proof. exact @unordered_fold_correct. Qed.
Print Assumptions C17_unordered_fold.

(** under the same contract the unspecified fold order is immaterial: it is the fold in key order *)
Theorem C17_unordered_fold_order : forall (B : Type) (add : B -> Z -> Z -> B) (initial : B),
  (forall a k1 v1 k2 v2, add (add a k1 v1) k2 v2 = add (add a k2 v2) k1 v1) ->
  forall m : zmap, F_fold add initial m = fold_left (fun acc kv => add acc kv.1 kv.2) (entries m) initial.
Proof. exact @F_fold_key_order. Qed.
Print Assumptions C17_unordered_fold_order.

Theorem C17_sum : forall (eq : eqfn) (ms : list zmap),
  eq_exact eq ->
  UnorderedFold.value (fold_left (UnorderedFold.Sum_Stabilize eq) ms UnorderedFold.Sum_init) = F_sum (List.last ms ∅).
Proof. exact sum_correct. Qed.
Print Assumptions C17_sum.

Theorem C17_cardinality : forall ms : list zmap,
  UnorderedFold.value (fold_left UnorderedFold.Cardinality_Stabilize ms UnorderedFold.Cardinality_init)
  = F_cardinality (List.last ms ∅).
Proof. exact cardinality_correct. Qed.
Print Assumptions C17_cardinality.

Theorem C17_counti : forall (eq : eqfn) (p : Z -> Z -> bool) (ms : list zmap),
  respects eq p ->
  UnorderedFold.value (fold_left (UnorderedFold.Counti_Stabilize eq p) ms UnorderedFold.Counti_init)
  = F_counti p (List.last ms ∅).
Proof. exact counti_correct. Qed.
Print Assumptions C17_counti.

(** ** Reduce, MaxValue, MinValue ([pmap.Reducer] by its contract, C16_reducer) *)
Theorem C17_reduce : forall (R : Type) (empty : R) (project : Z -> Z -> R) (combine : R -> R -> R) (ms : list zmap),
  fold_left (Reduce.Stabilize empty project combine) ms (Reduce.init empty)
  = F_reduce empty project combine (List.last ms ∅).
Proof. exact @reduce_correct. Qed.
Print Assumptions C17_reduce.

Theorem C17_max_value : forall ms : list zmap,
  fold_left Reduce.MaxValue_Stabilize ms (Reduce.init Reduce.optional_empty) = F_max_value (List.last ms ∅).
Proof. exact max_value_correct. Qed.
Print Assumptions C17_max_value.

Theorem C17_min_value : forall ms : list zmap,
  fold_left Reduce.MinValue_Stabilize ms (Reduce.init Reduce.optional_empty) = F_min_value (List.last ms ∅).
Proof. exact min_value_correct. Qed.
Print Assumptions C17_min_value.

(** [F_max_value] is the largest value of the map, absent exactly for the empty map (and dually) *)
Theorem C17_max_value_is_max : forall m : zmap,
  match F_max_value m with
  | (x, true) => (exists k, m !! k = Some x) /\ forall k v, m !! k = Some v -> v <= x
  | (_, false) => m = ∅
  end.
Proof. exact F_max_value_spec. Qed.
Print Assumptions C17_max_value_is_max.

Theorem C17_min_value_is_min : forall m : zmap,
  match F_min_value m with
  | (x, true) => (exists k, m !! k = Some x) /\ forall k v, m !! k = Some v -> x <= v
  | (_, false) => m = ∅
  end.
Proof. exact F_min_value_spec. Qed.
Print Assumptions C17_min_value_is_min.

(** ** Subrange (a history is a list of (map, (low, high)) pairs: bounds are inputs too) *)
Theorem C17_subrange : forall (eq : eqfn) (ms : list (zmap * (Z * Z))),
  eq_exact eq ->
  let final := List.last ms (∅, (0, 0)) in
  Subrange.value (fold_left (fun s x => Subrange.Stabilize eq s x.1 x.2) ms Subrange.init)
  = F_subrange final.1 final.2.1 final.2.2.
Proof. exact subrange_correct. Qed.
Print Assumptions C17_subrange.

(** ** Partition *)
Theorem C17_partition : forall (eq : eqfn) (p : Z -> Z -> bool) (ms : list zmap),
  eq_exact eq ->
  Partition.value (fold_left (Partition.Stabilize eq p) ms Partition.init) = F_partition p (List.last ms ∅).
Proof. exact partition_correct. Qed.
Print Assumptions C17_partition.

(** ** Keys *)
Theorem C17_keys : forall ms : list zmap, fold_left Keys.Stabilize ms Keys.init = F_keys (List.last ms ∅).
Proof. exact keys_correct. Qed.
Print Assumptions C17_keys.

Theorem C17_keys_sorted : forall m : zmap,
  (forall k, k ∈ F_keys m <-> is_Some (m !! k)) /\ Sorted Z.le (F_keys m) /\ NoDup (F_keys m).
Proof. exact F_keys_spec. Qed.
Print Assumptions C17_keys_sorted.

(** ** Changes: exactly the difference between the input at the previous and at the current
    recompute -- as the three maps of the ChangeSet, and entry by entry against [merge_diff] *)
Theorem C17_changes : forall (eq : eqfn) (ms : list zmap) (m m' : zmap),
  Changes.value (fold_left (Changes.Stabilize eq) (ms ++ [m; m']) Changes.init) = F_changes eq m m'.
Proof. exact changes_correct. Qed.
Print Assumptions C17_changes.

Theorem C17_changes_exact : forall (eq : eqfn) (c : Changes.t) (cur : zmap) (k x : Z),
  let v := Changes.value (Changes.Stabilize eq c cur) in
  let d := merge_diff eq (Changes.last c) cur in
  (cs_added v !! k = Some x <-> Added k x ∈ d) /\
  (cs_removed v !! k = Some x <-> Removed k x ∈ d) /\
  (cs_updated v !! k = Some x <-> exists old, Updated k old x ∈ d).
Proof. exact changes_exact. Qed.
Print Assumptions C17_changes_exact.

(** what [merge_diff] reports, key by key *)
Theorem C17_merge_diff_meaning : forall (eq : eqfn) (m m' : zmap) (k : Z),
  (forall v, Added k v ∈ merge_diff eq m m' <-> m !! k = None /\ m' !! k = Some v) /\
  (forall v, Removed k v ∈ merge_diff eq m m' <-> m !! k = Some v /\ m' !! k = None) /\
  (forall o v, Updated k o v ∈ merge_diff eq m m' <-> m !! k = Some o /\ m' !! k = Some v /\ veqb eq o v = false).
Proof. exact merge_diff_meaning. Qed.
Print Assumptions C17_merge_diff_meaning.

(** ** Added / Removed (deprecated, builtin maps) *)
Theorem C17_added : forall (ms : list zmap) (m m' : zmap),
  AddedOp.val (fold_left AddedOp.Stabilize (ms ++ [m; m']) AddedOp.init) = F_added m m'.
Proof. exact added_correct. Qed.
Print Assumptions C17_added.

Theorem C17_removed : forall (ms : list zmap) (m m' : zmap),
  RemovedOp.val (fold_left RemovedOp.Stabilize (ms ++ [m; m']) RemovedOp.init) = F_removed m m'.
Proof. exact removed_correct. Qed.
Print Assumptions C17_removed.

(** ** Selector: for every sequence of Select / Observe / Unobserve of per-key nodes, input
    changes and passes, after a pass every observed per-key node holds its key's current value *)
Theorem C17_selector : forall (eq : eqfn), eq_exact eq -> forall evs : list Selector.ev,
  let s := fold_left (Selector.step eq) (evs ++ [Selector.Pass]) Selector.init in
  forall k n, Selector.selected s !! k = Some n -> Selector.necessary n = true ->
              Selector.value n = F_select k (Selector.input s).
Proof. exact selector_correct. Qed.
Print Assumptions C17_selector.

(** ** Join

    Event histories: outer-map changes (linking / unlinking inner nodes), writes to inner
    vars, writes to the base vars of COMPUTED inner nodes (Map / Map2 nodes over two shared
    vars, observed elsewhere or lazy), unobserve / observe of the join node, passes.  The
    engine's notification discipline is part of the model (Mapi.v, Join): a computed node
    that is stale recomputes in the next pass in which it is necessary, before the join if
    the join already depends on it, otherwise before or after the join's first run as the
    engine happens to schedule it -- the [early] list of each [Pass] event, universally
    quantified here and recorded from the real engine by the harness.  In particular the
    theorem covers the pass in which the join links a node whose input changes in the same
    pass and which recomputes only after the join has read it: the join is marked stale by
    [link], runs a second time and reads the new value (MapiProofs.join_second_run_needed
    shows the intermediate stale state on the model).
    [fixed = true] is join.go with the relink repair (what /repo holds now; the harness
    probes it), [fixed = false] the code before it.

    The positive statement needs two hypotheses on the history, and the code violates the
    unrestricted statement in three ways (the refutations below):
    (a) every inner node keeps to one key throughout ([consistent keyOf] for some [keyOf]),
        and only vars are written directly ([event_ok]);
    (b) the join node is never unobserved -- or the repaired variant is used. *)
Theorem C17_join : forall (fixed : bool) (keyOf : Z -> Z) (cdefs0 : list (Z * Join.cdef))
    (vals0 bvals0 : zmap) (evs : list Join.ev) (early : list Z),
  (forall e, e ∈ evs -> event_ok keyOf cdefs0 e) ->
  (fixed = true \/ Join.Unobserve ∉ evs) ->
  let j := fold_left (Join.step fixed) (evs ++ [Join.Pass early]) (Join.init vals0 bvals0 cdefs0) in
  Join.ingraph j = true -> Join.value j = F_join (Join.vals j) (Join.outer j).
Proof. exact join_correct. Qed.
Print Assumptions C17_join.

(** [event_ok] spelled out *)
Theorem C17_join_event_ok : forall (keyOf : Z -> Z) (cdefs0 : list (Z * Join.cdef)) (e : Join.ev),
  event_ok keyOf cdefs0 e <->
  match e with
  | Join.SetOuter m => forall k x, m !! k = Some x -> keyOf x = k
  | Join.SetInner x _ => x ∉ map fst cdefs0
  | _ => True
  end.
Proof. exact event_ok_spelled_out. Qed.
Print Assumptions C17_join_event_ok.

(** FULL statement (false): [forall fixed vals0 evs, join_holds fixed vals0 evs]  (no hypotheses;
    [join_holds] is the conclusion of C17_join for a history over vars ending in a pass). *)

(** unobserve the join, write an inner var, observe again: the old value stays *)
Theorem C17_join_refuted : exists (vals0 : zmap) (evs : list Join.ev) (keyOf : Z -> Z),
  (forall m, Join.SetOuter m ∈ evs -> consistent keyOf m) /\ ~ join_holds false vals0 evs.
Proof. exact join_refuted_relink. Qed.
Print Assumptions C17_join_refuted.

(** ... and the small repair is enough on that history *)
Theorem C17_join_fixed_on_witness : join_holds true relink_vals0 relink_history.
Proof. exact join_relink_fixed. Qed.
Print Assumptions C17_join_fixed_on_witness.

(** one inner node under two keys: only the key linked last is refreshed (no unobserve needed) *)
Theorem C17_join_shared_inner_refuted : exists (vals0 : zmap) (evs : list Join.ev),
  Join.Unobserve ∉ evs /\ forall fixed, ~ join_holds fixed vals0 evs.
Proof. exact join_refuted_shared_inner. Qed.
Print Assumptions C17_join_shared_inner_refuted.

(** every outer map injective: an inner node that moves to a smaller key within one pass is
    linked under the new key and then unlinked again by the removal of the old one *)
Theorem C17_join_moved_inner_refuted : exists (vals0 : zmap) (evs : list Join.ev),
  Join.Unobserve ∉ evs /\ (forall m, Join.SetOuter m ∈ evs -> injective_map m) /\
  forall fixed, ~ join_holds fixed vals0 evs.
Proof. exact join_refuted_moved_inner. Qed.
Print Assumptions C17_join_moved_inner_refuted.
