(** C01 (bind-free fragment) — after a successful pass every registered node is locally
    consistent, hence (SpecProofs, Theorem A) every observer reads the from-scratch value.

    Fragment: Var/VarEqual, Return, Map, Map2, MapN with AddInput/RemoveInput, Cutoff, Always;
    observe/unobserve; Set/Update between passes; serial pass without a plan.
    [ValInv] is the quiescent value invariant of PassInv.v (it contains [BF]: no bind exists). *)
From incr Require Import Base Heap HeapSpec EngineDefs Engine EngineRun EngineWf Spec EngineLemmas PassInv PassProofs.

(** The pass: local consistency, the structural invariant and the quiescent value invariant are
    re-established, and every observer reads the from-scratch value ([Spec.eval]) of its node. *)
Theorem C01_static_pass : forall s s',
  wfb s = true -> ValInv s -> stabilize [] false s = Ok (s', None) ->
  consistent s' = true /\ wfb s' = true /\ ValInv s' /\ observers_agree s' = true.
Proof. exact pass_all. Qed.
Print Assumptions C01_static_pass.

(** The graph structure is constant during the pass (the frame lemma). *)
Theorem C01_static_pass_frame : forall s s',
  wfb s = true -> ValInv s -> stabilize [] false s = Ok (s', None) ->
  (forall n, skel (nd s' n) = skel (nd s n)) /\ (forall n, has s' n <-> has s n) /\
  binds s' = binds s /\ next s' = next s /\ reg s' = reg s /\ obs s' = obs s /\ adj s' = adj s /\
  invq s' = invq s /\ numNodes s' = numNodes s /\ maxHeight s' = maxHeight s /\
  stabNum s' = stabNum s + 1 /\ status s' = 0 /\ handlers s' = [] /\ setDuring s' = [] /\ setRemoved s' = [].
Proof. exact pass_structure_const. Qed.
Print Assumptions C01_static_pass_frame.

(** The quiescent invariant holds initially. *)
Theorem C01_static_init : forall mh, ValInv (init mh).
Proof. exact ValInv_init. Qed.
Print Assumptions C01_static_init.

(** Every other operation of the fragment preserves the quiescent value invariant, given that
    the structural invariant [wfb] holds before and after it (C05: EngineInvProofs proves that
    part for clean histories; here it is a hypothesis).  [static_op]: no binds, no parallel pass,
    passes without a plan. *)
Theorem C01_static_step_preserves_ValInv : forall s o s',
  wfb s = true -> ValInv s -> static_op o = true -> op_ok s o = true ->
  step s o = Ok (s', None) -> wfb s' = true -> ValInv s'.
Proof. exact step_ValInv. Qed.
Print Assumptions C01_static_step_preserves_ValInv.

(** Histories.  [static_run s os s']: every operation of [os] is in the fragment, well-formed,
    returns no error (no crash, no rejection for a cycle / the height limit, no cancelled pass)
    and leaves [wfb] true.  Along such a history both invariants hold ... *)
Theorem C01_static_run_invariants : forall s os s',
  wfb s = true -> ValInv s -> static_run s os s' -> wfb s' = true /\ ValInv s'.
Proof. exact static_run_inv. Qed.
Print Assumptions C01_static_run_invariants.

(** ... and after EVERY pass of the history every registered node is locally consistent and
    every observer reads the from-scratch value ([Spec.eval]) of the node it observes. *)
Theorem C01_static : forall s0 os1 o os2 s',
  wfb s0 = true -> ValInv s0 -> static_run s0 (os1 ++ o :: os2) s' -> is_pass o = true ->
  exists s1 s2, static_run s0 os1 s1 /\ step s1 o = Ok (s2, None) /\
                consistent s2 = true /\ observers_agree s2 = true /\ wfb s2 = true /\ ValInv s2.
Proof. exact static_history_consistent. Qed.
Print Assumptions C01_static.

(** the boolean form of [static_run] is sound *)
Theorem C01_static_run_b_sound : forall os s s', static_run_b s os = Some s' -> static_run s os s'.
Proof. exact static_run_b_sound. Qed.
Print Assumptions C01_static_run_b_sound.

(** Non-vacuity of the history theorem: [ex_history] = [ex_ops] followed by a pass, from [init 64]. *)
Example C01_static_ex_history :
  wfb (init 64) = true /\ ValInv (init 64) /\ (exists s', static_run (init 64) (ex_ops ++ Stabilize [] :: []) s') /\
  is_pass (Stabilize []) = true.
Proof.
  split; [exact (proj1 init_hyps)|]. split; [exact (proj2 init_hyps)|]. split; [exact ex_history_runs|reflexivity].
Qed.

(** Non-vacuity (the history of PassProofs.ex_ops: diamond, duplicated input, cutoff, Always). *)
Example C01_static_ex :
  wfb ex_pre = true /\ ValInv ex_pre /\ stabilize [] false ex_pre = Ok (ex_post, None) /\
  consistent ex_post = true /\ observers_agree ex_post = true.
Proof.
  split; [exact (proj1 ex_pre_hyps)|]. split; [exact (proj2 ex_pre_hyps)|]. split; [exact ex_pass_ok|].
  split; vm_compute; reflexivity.
Qed.
