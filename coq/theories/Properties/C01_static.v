(** C01 (bind-free fragment) — after a successful pass every registered node is locally
    consistent, hence (SpecProofs, Theorem A) every observer reads the from-scratch value.

    Fragment: Var/VarEqual, Return, Map, Map2, MapN with AddInput/RemoveInput, Cutoff, Always;
    observe/unobserve; Set/Update between passes; serial pass without a plan.
    [ValInv] is the quiescent value invariant of PassInv.v (it contains [BF]: no bind exists). *)
From incr Require Import Base Heap HeapSpec EngineDefs Engine EngineRun EngineWf Spec EngineLemmas PassInv PassProofs.

(** The pass: local consistency, the structural invariant and the quiescent value invariant are
    re-established, and every observer reads the from-scratch value ([Spec.eval]) of its node. *)
Theorem C01_static_pass : forall s s',
  wfb s = true -> ValInv s -> stabilize [] false s = Ok (s', None) ->
  consistent s' = true /\ wfb s' = true /\ ValInv s' /\ observers_agree s' = true.
Proof. exact pass_all. Qed.
Print Assumptions C01_static_pass.

(** The graph structure is constant during the pass (the frame lemma). *)
Theorem C01_static_pass_frame : forall s s',
  wfb s = true -> ValInv s -> stabilize [] false s = Ok (s', None) ->
  (forall n, skel (nd s' n) = skel (nd s n)) /\ (forall n, has s' n <-> has s n) /\
  binds s' = binds s /\ next s' = next s /\ reg s' = reg s /\ obs s' = obs s /\ adj s' = adj s /\
  invq s' = invq s /\ numNodes s' = numNodes s /\ maxHeight s' = maxHeight s /\
  stabNum s' = stabNum s + 1 /\ status s' = 0 /\ handlers s' = [] /\ setDuring s' = [] /\ setRemoved s' = [].
Proof. exact pass_structure_const. Qed.
Print Assumptions C01_static_pass_frame.

(** The quiescent invariant holds initially. *)
Theorem C01_static_init : forall mh, ValInv (init mh).
Proof. exact ValInv_init. Qed.
Print Assumptions C01_static_init.

(** Non-vacuity (the history of PassProofs.ex_ops: diamond, duplicated input, cutoff, Always). *)
Example C01_static_ex :
  wfb ex_pre = true /\ ValInv ex_pre /\ stabilize [] false ex_pre = Ok (ex_post, None) /\
  consistent ex_post = true /\ observers_agree ex_post = true.
Proof.
  split; [exact (proj1 ex_pre_hyps)|]. split; [exact (proj2 ex_pre_hyps)|]. split; [exact ex_pass_ok|].
  split; vm_compute; reflexivity.
Qed.
