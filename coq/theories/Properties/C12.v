(** C12 — Var writes are never lost: last write wins, mid-pass writes are deferred whole.

    FUNCTION-LEVEL theorems about the engine model (Engine.v): they hold for every state (or every
    state satisfying the stated hypothesis) and are proved in EngineLocal.v by unfolding /
    induction on the model's functions.  The whole-history theorems are built on these.
    This file holds only statements closed by [exact], [Print Assumptions], and [Example]s by
    [vm_compute] on states reached by [Engine.run (init 256) ...] showing that the hypotheses are
    satisfiable and the conclusions not trivial.

    Vocabulary (EngineLocal.v): [eqNoop s v x] = the VarEqual test that makes a write a no-op;
    [deferSet s v x] = [s] with [pending v := Some x] and [v] filed in [setDuring];
    [cur s v] = the pending value of [v] if there is one, else its value;
    [vps x y] = node records equal up to [value], [pending], [setAt]. *)
From incr Require Import Base Heap EngineDefs Engine EngineWf EngineLocal.

(** ** 1. A write between passes is the value at once; the last write wins *)
Theorem C12_set_between_passes : forall s v x s',
  status s = 0 -> isVar s v = true -> varSet s v x = Ok s' -> value (nd s' v) = x.
Proof. exact C12_set_between_passes. Qed.
Print Assumptions C12_set_between_passes.

Theorem C12_last_write_wins : forall v xs x s s',
  status s = 0 -> isVar s v = true ->
  run s (map (SetVar v) (xs ++ [x])) = Ok s' ->
  value (nd s' v) = x /\ status s' = 0 /\ isVar s' v = true.
Proof. exact C12_last_write_wins. Qed.
Print Assumptions C12_last_write_wins.

(* [ex12] = [NewVar 3 false; NewMap (Aff 1 1) 0; Observe 1; Stabilize []] (EngineLocal.v) *)
Example C12_ex_hyps :
  status (reach ex12) = 0 /\ isVar (reach ex12) 0%nat = true /\ wfb (reach ex12) = true /\
  isNecessary (nd (reach ex12) 0%nat) = true.
Proof. vm_compute. repeat split. Qed.

Example C12_ex_last_write_wins :
  let s := reach (ex12 ++ [SetVar 0%nat 5; SetVar 0%nat 7]) in
  value (nd s 0%nat) = 7 /\ inHeap s 0%nat = true.
Proof. vm_compute. repeat split. Qed.

(** ** 2. A write never faults *)
(* [v < next s]: [wfb] only speaks about identifiers below the creation counter *)
Theorem C12_set_total : forall s v x,
  wfb s = true -> isVar s v = true -> (v < next s)%nat -> exists s', varSet s v x = Ok s'.
Proof. exact C12_set_total. Qed.
Print Assumptions C12_set_total.

Theorem C12_update_total : forall s v d,
  wfb s = true -> isVar s v = true -> (v < next s)%nat -> exists s', varUpdate s v d = Ok s'.
Proof. exact C12_update_total. Qed.
Print Assumptions C12_update_total.

(* no well-formedness needed for an unobserved var *)
Theorem C12_set_unobserved_total : forall s v x,
  height (nd s v) = unset -> exists s', varSet s v x = Ok s'.
Proof. exact C12_set_unobserved_total. Qed.
Print Assumptions C12_set_unobserved_total.

Theorem C12_update_unobserved_total : forall s v d,
  height (nd s v) = unset -> exists s', varUpdate s v d = Ok s'.
Proof. exact C12_update_unobserved_total. Qed.
Print Assumptions C12_update_unobserved_total.

Example C12_ex_unobserved :
  let s := reach [NewVar 3 false] in
  height (nd s 0%nat) = unset /\
  match varSet s 0%nat 8 with Ok s' => value (nd s' 0%nat) = 8 /\ inHeap s' 0%nat = false | _ => False end.
Proof. vm_compute. repeat split. Qed.

(** ** 3. A mid-pass write is deferred whole *)
Theorem C12_midpass_set_is_deferred : forall s v x,
  status s = 1 -> varSet s v x = Ok (if eqNoop s v x then s else deferSet s v x).
Proof. exact C12_midpass_set_is_deferred. Qed.
Print Assumptions C12_midpass_set_is_deferred.

Theorem C12_midpass_set_frame : forall s v x s',
  status s = 1 -> varSet s v x = Ok s' ->
  heap s' = heap s /\ log s' = log s /\ stabNum s' = stabNum s /\ status s' = status s /\
  handlers s' = handlers s /\ setRemoved s' = setRemoved s /\
  forall m, value (nd s' m) = value (nd s m) /\ recomputedAt (nd s' m) = recomputedAt (nd s m) /\
            changedAt (nd s' m) = changedAt (nd s m) /\ setAt (nd s' m) = setAt (nd s m) /\
            height (nd s' m) = height (nd s m) /\ valid (nd s' m) = valid (nd s m) /\
            parents (nd s' m) = parents (nd s m) /\ children (nd s' m) = children (nd s m).
Proof. exact C12_midpass_set_frame. Qed.
Print Assumptions C12_midpass_set_frame.

(* the deferred state, field by field *)
Theorem C12_deferSet_frame : forall s v x,
  let s' := deferSet s v x in
  binds s' = binds s /\ next s' = next s /\ reg s' = reg s /\ obs s' = obs s /\ heap s' = heap s /\
  adj s' = adj s /\ invq s' = invq s /\ stabNum s' = stabNum s /\ status s' = status s /\
  numNodes s' = numNodes s /\ setRemoved s' = setRemoved s /\ handlers s' = handlers s /\
  maxHeight s' = maxHeight s /\ log s' = log s /\
  setDuring s' = insert_sorted v (setDuring s) /\
  (forall m, nd s' m = nd s m <| pending := pending (nd s' m) |>) /\
  (forall m, m <> v -> nd s' m = nd s m) /\
  (is_Some (nodes s !! v) -> pending (nd s' v) = Some x).
Proof. exact deferSet_frame. Qed.
Print Assumptions C12_deferSet_frame.

Example C12_ex_midpass :
  let s := reach ex12 <| status := 1 |> in
  status s = 1 /\ eqNoop s 0%nat 9 = false /\
  match varSet s 0%nat 9 with
  | Ok s' => value (nd s' 0%nat) = 3 /\ pending (nd s' 0%nat) = Some 9 /\ setDuring s' = [0%nat] /\
             inHeap s' 0%nat = false
  | _ => False end.
Proof. vm_compute. repeat split. Qed.

(* end to end: the map (node 1) runs on the old value 4 although its function wrote 9 to the var;
   the var holds 9 and is queued when the pass has ended; the next pass propagates it *)
Example C12_ex_midpass_run :
  let s := reach (ex12 ++ [SetVar 0%nat 4; Stabilize [(1%nat, WFn, ASet 0%nat 9)]]) in
  value (nd s 0%nat) = 9 /\ pending (nd s 0%nat) = None /\ value (nd s 1%nat) = 5 /\ inHeap s 0%nat = true /\
  value (nd (reach (ex12 ++ [SetVar 0%nat 4; Stabilize [(1%nat, WFn, ASet 0%nat 9)]; Stabilize []])) 1%nat) = 10.
Proof. vm_compute. repeat split. Qed.

(** ** 4. Successive mid-pass updates compose *)
Theorem C12_updates_compose : forall s v d1 d2 s1 s2,
  status s = 1 -> isVar s v = true ->
  varUpdate s v d1 = Ok s1 -> varUpdate s1 v d2 = Ok s2 ->
  cur s2 v = norm (norm (cur s v + d1) + d2) /\
  ((nkind (nd s v) = KVar false \/ is_Some (pending (nd s v))) ->
   pending (nd s2 v) = Some (norm (norm (cur s v + d1) + d2))).
Proof. exact C12_updates_compose. Qed.
Print Assumptions C12_updates_compose.

Example C12_ex_updates_compose :
  value (nd (reach (ex12 ++ [SetVar 0%nat 4;
     Stabilize [(1%nat, WFn, AUpdate 0%nat 2); (1%nat, WFn, AUpdate 0%nat 3)]])) 0%nat) = 9.
Proof. vm_compute. reflexivity. Qed.

(** ** 5. The recompute cycle of the running pass never applies a deferred value *)
Theorem C12_pending_not_taken_midpass : forall fuel p s v e,
  nkind (nd s v) = KVar e -> recomputedAt (nd s v) = stabNum s -> stabilizeNode fuel p s v = ok s.
Proof. exact C12_pending_not_taken_midpass. Qed.
Print Assumptions C12_pending_not_taken_midpass.

(* and [recomputeNodeSerial] stamps the var first, so recomputing a var never touches value/pending *)
Theorem C12_recompute_var_keeps_pending : forall fuel p s v k s' e imm,
  nkind (nd s v) = KVar k -> recomputeNodeSerial fuel p s v = Ok (s', e, imm) ->
  e = None /\ log s' = log s /\ setDuring s' = setDuring s /\
  forall m, value (nd s' m) = value (nd s m) /\ pending (nd s' m) = pending (nd s m).
Proof. exact C12_recompute_var_keeps_pending. Qed.
Print Assumptions C12_recompute_var_keeps_pending.

Example C12_ex_pending_not_taken :
  let s := deferSet (reach (ex12 ++ [SetVar 0%nat 4]) <| status := 1 |>) 0%nat 9 in
  pending (nd s 0%nat) = Some 9 /\ inHeap s 0%nat = true /\
  match recomputeNodeSerial 10 [] s 0%nat with
  | Ok (s', e, _) => e = None /\ value (nd s' 0%nat) = 4 /\ pending (nd s' 0%nat) = Some 9
  | _ => False end.
Proof. vm_compute. repeat split. Qed.

(** ** 6. Deferred writes are applied when the pass ends *)
Theorem C12_deferred_applied_at_end : forall s,
  Forall (fun w => isVar s w = true) (setRemoved s ++ setDuring s) ->
  Forall (fun w => -1 <= height (nd s w)) (setRemoved s ++ setDuring s) ->
  exists s', applyDeferredSets s = Ok s' /\ setDuring s' = [] /\ setRemoved s' = [] /\
    (forall v x, v ∈ setRemoved s ++ setDuring s -> pending (nd s v) = Some x ->
                 recomputedAt (nd s v) <> stabNum s -> value (nd s' v) = x /\ pending (nd s' v) = None) /\
    status s' = status s /\ stabNum s' = stabNum s /\ log s' = log s /\ handlers s' = handlers s /\
    obs s' = obs s /\ binds s' = binds s /\ next s' = next s /\ reg s' = reg s /\
    (forall n, vps (nd s n) (nd s' n)) /\ (forall n, isVar s' n = isVar s n) /\
    (forall n, inHeap s n = true -> inHeap s' n = true).
Proof. exact C12_deferred_applied_at_end. Qed.
Print Assumptions C12_deferred_applied_at_end.

(* the lists a pass leaves behind do hold vars only (so the hypothesis above is met by
   [stabilizeEnd]): stated on the pass loop *)
Theorem C12_pass_deferred_are_vars : forall p c s sL e at_ always,
  ids_below s -> plan_ok s p = true ->
  Forall (fun v => isVar s v = true) (setDuring s ++ setRemoved s) ->
  passResult p c s = Ok (sL, e, at_, always) ->
  Forall (fun v => isVar sL v = true) (setRemoved sL ++ setDuring sL).
Proof. exact passResult_deferred_are_vars. Qed.
Print Assumptions C12_pass_deferred_are_vars.

Example C12_ex_deferred_applied :
  let s := deferSet (reach ex12 <| status := 1 |>) 0%nat 9 <| stabNum := 3 |> in
  all_vars_b s (setRemoved s ++ setDuring s) = true /\ pending (nd s 0%nat) = Some 9 /\
  recomputedAt (nd s 0%nat) <> stabNum s /\
  match applyDeferredSets s with
  | Ok s' => value (nd s' 0%nat) = 9 /\ pending (nd s' 0%nat) = None /\ setDuring s' = [] /\ inHeap s' 0%nat = true
  | _ => False end.
Proof. vm_compute. repeat split; discriminate. Qed.

(** ** 7. (stretch) A mid-pass write does not alter what the pass computes — PARTIAL.
    Full statement (C12_midpass_noninterference): for [s ≈ t] (equal except [pending] fields,
    [setDuring], [setRemoved]) and plans [p], [q] that differ only in [ASet]/[AUpdate] actions,
    [passLoop fuel p s al] and [passLoop fuel q t al] end in ≈-related states with the same log,
    error and blamed node.
    Proved: the same for ONE recompute ([recomputeNodeSerial]) of any node that is not a bind's
    lhs-change node, with ≈ = [pendOnly] (which also fixes [setRemoved]).  Missing: the simulation
    of [bindLhsStabilize] and of everything under it (relinking, height adjustment, teardown —
    [zeroNode] moves a var from [setDuring] to [setRemoved], which is why the full ≈ must let
    [setRemoved] differ), and the lifting over [recomputeChain] / [passLoop] (a plain induction
    once every recompute is covered). *)
Theorem C12_midpass_noninterference_recompute_partial :
  forall fuel p q s t n s' e1 imm1 t' e2 imm2,
  status s = 1 -> pendOnly s t ->
  (forall w, firstFault (actions_of p n w) = firstFault (actions_of q n w)) ->
  (forall b, nkind (nd s n) <> KBindLhs b) ->
  recomputeNodeSerial fuel p s n = Ok (s', e1, imm1) ->
  recomputeNodeSerial fuel q t n = Ok (t', e2, imm2) ->
  pendOnly s' t' /\ e1 = e2 /\ imm1 = imm2 /\ log t' = log s'.
Proof. exact C12_midpass_noninterference_recompute_partial. Qed.
Print Assumptions C12_midpass_noninterference_recompute_partial.

Theorem C12_pendOnly_fields : forall s s' m, pendOnly s s' ->
  nkind (nd s' m) = nkind (nd s m) /\ decl (nd s' m) = decl (nd s m) /\ value (nd s' m) = value (nd s m) /\
  recomputedAt (nd s' m) = recomputedAt (nd s m) /\ changedAt (nd s' m) = changedAt (nd s m) /\
  height (nd s' m) = height (nd s m) /\ valid (nd s' m) = valid (nd s m) /\
  parents (nd s' m) = parents (nd s m) /\ children (nd s' m) = children (nd s m) /\
  observers (nd s' m) = observers (nd s m) /\ scope (nd s' m) = scope (nd s m) /\
  isNecessary (nd s' m) = isNecessary (nd s m).
Proof. exact pendOnly_fields. Qed.
Print Assumptions C12_pendOnly_fields.

(* the same recompute of the map (node 1), once with a plan that writes the var and once with the
   write-free plan: same value, same log, same immediate child; only [pending] / [setDuring] differ *)
Example C12_ex_noninterference :
  let s := reach (ex12 ++ [SetVar 0%nat 4]) <| status := 1 |> in
  match recomputeNodeSerial 10 [(1%nat, WFn, ASet 0%nat 9)] s 1%nat, recomputeNodeSerial 10 [] s 1%nat with
  | Ok (s1, e1, i1), Ok (s2, e2, i2) =>
      e1 = e2 /\ i1 = i2 /\ log s1 = log s2 /\ value (nd s1 1%nat) = 5 /\ value (nd s2 1%nat) = 5 /\
      heap s1 = heap s2 /\ pending (nd s1 0%nat) = Some 9 /\ pending (nd s2 0%nat) = None /\
      setDuring s1 = [0%nat] /\ setDuring s2 = []
  | _, _ => False end.
Proof. vm_compute. repeat split. Qed.
