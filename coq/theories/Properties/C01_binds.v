(** C01 with binds present — a serial pass without a plan on a graph that CONTAINS binds, in
    which no bind swaps: the pass ends with every registered node locally consistent and every
    observer reading the from-scratch value [Spec.eval] of the node it observes.

    Hypotheses on the quiescent state [s] before the pass:
    - [EngineInv.Inv s], the inductive structural invariant (C05; holds at every boundary of a
      clean history, [C05]);
    - [PassBind.ValInvB s], the quiescent value invariant generalised to bind kinds (stamps; owed
      => queued; a registered node that is not queued and none of whose inputs changed holds its
      function of its inputs -- a bind main node: the value of the bind's right-hand side; the
      right-hand side of a registered bind whose lhs-change node is clean is the instantiation of
      the case its input selects); checked after every operation of replayed histories of the
      profiles binds, C01, chain, pardrop (14,000 operations, no failing clause);
    - [PassBind.NoLhs s], the premise on the pass: no lhs-change node is queued or below a queued
      node, i.e. no bind function runs in this pass (2,730 of the 3,665 replayed passes).
    For a bind main node [Spec.node_consistent] says both: it holds the value of the right-hand
    side, and the right-hand side is the instantiation ([Spec.matches]) of the case selected by
    the CURRENT value of the bind's input.
    Proofs: PassBindProofs.v (definitions and checkers: PassBind.v). *)
From incr Require Import Base Heap HeapSpec EngineDefs Engine EngineRun EngineWf Spec SpecProofs EngineLemmas
     EngineInv EngineInvProofs PassInv PassProofs PassBind PassBindProofs.

Theorem C01_binds_pass_consistent : forall s s',
  Inv s -> ValInvB s -> NoLhs s -> stabilize [] false s = Ok (s', None) ->
  consistent s' = true /\ ValInvB s' /\ Inv s' /\ wfb s' = true.
Proof. exact passB_consistent. Qed.
Print Assumptions C01_binds_pass_consistent.

(** [templates_ok]: no parity cutoff inside a bind template (a restriction on the program; without
    it [Spec.eval] is undefined, SpecProofs.templates_ok_needed).  [SpecProofs.closed] is derived
    from [Inv] here ([C01_binds_closed]). *)
Theorem C01_binds_pass_observers_agree : forall s s',
  Inv s -> ValInvB s -> NoLhs s -> templates_ok s = true -> stabilize [] false s = Ok (s', None) ->
  consistent s' = true /\ observers_agree s' = true /\ Inv s' /\ ValInvB s' /\ wfb s' = true.
Proof. exact passB_all. Qed.
Print Assumptions C01_binds_pass_observers_agree.

Theorem C01_binds_closed : forall s, Inv s -> Shape s -> closed s = true.
Proof. exact Inv_closed. Qed.
Print Assumptions C01_binds_closed.

(** no bind changed in such a pass: the bind records (with the ghost generation counter [b_gen],
    which counts the returns of the bind's function) and the graph structure are constant *)
Theorem C01_binds_pass_structure_const : forall s s',
  Inv s -> ValInvB s -> NoLhs s -> stabilize [] false s = Ok (s', None) ->
  (forall n, skel (nd s' n) = skel (nd s n)) /\ (forall n, has s' n <-> has s n) /\
  binds s' = binds s /\ next s' = next s /\ reg s' = reg s /\ obs s' = obs s.
Proof. exact passB_structure_const. Qed.
Print Assumptions C01_binds_pass_structure_const.

(** the step behind it: one call of [recomputeNodeSerial] on a node that is not a lhs-change node
    preserves the loop invariant [PassBind.LInvB] (bind main nodes, scope nodes included) *)
Theorem C01_binds_step : forall h0 base fuel s m s' e imm,
  Struct s -> LInvB h0 base s (Some m) ->
  recomputeNodeSerial fuel [] s m = Ok (s', e, imm) ->
  e = None /\ LInvB h0 base s' imm.
Proof. exact rns_preserves_LInvB. Qed.
Print Assumptions C01_binds_step.

(** the boolean checkers of the hypotheses are sound *)
Theorem C01_binds_valinvB_b_sound : forall s, Inv s -> valinvB_b s = true -> ValInvB s.
Proof. exact valinvB_b_sound. Qed.
Print Assumptions C01_binds_valinvB_b_sound.
Theorem C01_binds_nolhs_c_sound : forall s, Inv s -> nolhs_c s = true -> NoLhs s.
Proof. exact nolhs_c_sound. Qed.
Print Assumptions C01_binds_nolhs_c_sound.

(** Non-vacuity: [exB_ops] = var 0 (=2), var 1, a bind over var 0 whose selected case maps var 1
    (node 6, created by the bind function in the first pass), a Map over the bind, observed; then
    var 1 is written.  [exB_pre] is reached by a clean history, satisfies all hypotheses, and in
    the pass var 1, the scope node 6, the bind MAIN node 3 and node 4 run; the lhs-change node 2
    does not. *)
Example C01_binds_ex :
  run_clean (init 64) exB_ops = Some exB_pre /\
  Inv exB_pre /\ ValInvB exB_pre /\ NoLhs exB_pre /\ templates_ok exB_pre = true /\
  stabilize [] false exB_pre = Ok (exB_post, None) /\
  map (fun n => (n, recomputedAt (nd exB_post n) =? stabNum exB_pre, value (nd exB_post n))) [1; 2; 3; 4; 6]%nat
    = [(1%nat, true, 4); (2%nat, false, 0); (3%nat, true, 5); (4%nat, true, 10); (6%nat, true, 5)].
Proof.
  split; [exact exB_pre_run|]. destruct exB_pre_hyps as (H1 & H2 & H3 & H4).
  split; [exact H1|]. split; [exact H2|]. split; [exact H3|]. split; [exact H4|]. split; [exact exB_pass|].
  vm_compute. reflexivity.
Qed.
