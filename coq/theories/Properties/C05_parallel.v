(** C05, no fault under ParallelStabilize — what holds and what does not.

    FULL STATEMENT: from a state satisfying the invariant, ParallelStabilize with a well-formed
    clean plan never faults; no operation of a clean history mixing both stabilizers faults.
    FALSE: [C05_parallel_no_crash_refuted], [C05_parallel_history_no_crash_refuted] (from the
    witness of Properties/C05.v, [C05_par_crash_refuted]: after one bind of a height block is
    rejected for the height limit the other nodes of the block still run, and the next bind's
    height adjustment dereferences nil; empty plan, so no condition on the plan repairs it).
    A fault under ParallelStabilize therefore needs a registered lhs-change node:
    - [C05_parallel_no_crash_nolhs], [C05_parallel_history_no_crash_nolhs]: no fault when no
      lhs-change node is registered at the start of the pass (binds may exist, e.g.
      unobserved ones; any well-formed plan, injected faults included);
    - [C05_no_crash_step_bindfree], [C05_no_crash_bindfree]: over bind-free histories EVERY
      clean operation, under either stabilizer, is fault-free.
    Not proved: "a fault occurs only after a rejection inside the same parallel pass" — a
    crashed run has no state or log to speak about; it would need an instrumented pass loop. *)
From incr Require Import Base Heap HeapSpec EngineDefs Engine EngineWf EngineLemmas EngineInv EngineInvProofs EngineInvParNc.

Theorem C05_parallel_no_crash_nolhs : forall s o,
  Inv s -> nolhs s -> op_ok s o = true -> is_parstabilize o = true -> forall c, step s o <> Crash c.
Proof. exact nc_step_parstabilize_nolhs. Qed.
Print Assumptions C05_parallel_no_crash_nolhs.

Theorem C05_parallel_history_no_crash_nolhs : forall mh os s o,
  (0 < mh)%nat -> run_clean (init mh) os = Some s -> nolhs s ->
  op_ok s o = true -> is_parstabilize o = true -> forall c, step s o <> Crash c.
Proof. exact run_no_crash_par_nolhs. Qed.
Print Assumptions C05_parallel_history_no_crash_nolhs.

Theorem C05_bindfree_state_has_no_lhs : forall s, Inv s -> binds s = ∅ -> nolhs s.
Proof. exact bindfree_nolhs. Qed.
Print Assumptions C05_bindfree_state_has_no_lhs.

Theorem C05_no_crash_step_bindfree : forall s o,
  Inv s -> binds s = ∅ -> op_ok s o = true -> op_clean s o = true -> forall c, step s o <> Crash c.
Proof. exact nc_step_bindfree. Qed.
Print Assumptions C05_no_crash_step_bindfree.

Theorem C05_no_crash_bindfree : forall mh os s o,
  (0 < mh)%nat -> forallb op_nobind os = true -> run_clean (init mh) os = Some s ->
  op_ok s o = true -> op_clean s o = true -> forall c, step s o <> Crash c.
Proof. exact run_no_crash_bindfree. Qed.
Print Assumptions C05_no_crash_bindfree.

Theorem C05_parallel_no_crash_refuted :
  ~ (forall s p, Inv s -> plan_ok s p = true -> par_plan_clean s p = true -> forall c, parStabilize p s <> Crash c).
Proof. exact nc_parStabilize_refuted. Qed.
Print Assumptions C05_parallel_no_crash_refuted.

Theorem C05_parallel_history_no_crash_refuted :
  ~ (forall mh os s o, (0 < mh)%nat -> run_clean (init mh) os = Some s ->
       op_ok s o = true -> op_clean s o = true -> forall c, step s o <> Crash c).
Proof. exact run_no_crash_par_refuted. Qed.
Print Assumptions C05_parallel_history_no_crash_refuted.
