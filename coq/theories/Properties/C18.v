(** C18 — the recompute queue returns nodes lowest height first, each exactly once.

    This file holds only the property theorems.  Each is closed by [exact] of a lemma
    proved in HeapProofs.v (and AdjustProofs.v for the height repair), with
    [Print Assumptions] beneath it.  Abstraction: the queue is the multiset [Heap.ids w]
    of nodes, each keyed by the height [Heap.hinOf w n] it was queued at. *)
From incr Require Import Base Heap HeapSpec HeapProofs.

(** The empty queue satisfies the representation invariant. *)
Theorem C18_inv_init : forall k, inv (Heap.empty k).
Proof. exact heap_inv_empty. Qed.
Print Assumptions C18_inv_init.

(** Every operation sequence issued under the engine's preconditions keeps the invariant,
    and no such operation can fault. *)
Theorem C18_inv_preserved : forall w os w', inv w -> run w os w' -> inv w'.
Proof. exact heap_run_inv. Qed.
Print Assumptions C18_inv_preserved.

Theorem C18_no_fault : forall w o, inv w -> pre w o -> exists r w', step w o = Ok (r, w').
Proof. exact heap_step_total. Qed.
Print Assumptions C18_no_fault.

(** add: the node is queued at the given height; nothing else moves. *)
Theorem C18_add : forall w n h, inv w -> Heap.mem w n = false -> 0 <= h ->
  exists w', Heap.add w n h = Ok w' /\ inv w' /\ Heap.ids w' ≡ₚ n :: Heap.ids w /\
             forall m, Heap.hinOf w' m = if decide (m = n) then h else Heap.hinOf w m.
Proof. exact heap_add_spec. Qed.
Print Assumptions C18_add.

(** remove: exactly that node leaves; nothing is lost or duplicated. *)
Theorem C18_remove : forall w n, inv w -> Heap.mem w n = true ->
  exists w', Heap.remove w n = Ok w' /\ inv w' /\ Heap.ids w ≡ₚ n :: Heap.ids w' /\
             forall m, Heap.hinOf w' m = if decide (m = n) then unset else Heap.hinOf w m.
Proof. exact heap_remove_spec. Qed.
Print Assumptions C18_remove.

(** re-heighting a queued node neither loses nor duplicates any node. *)
Theorem C18_fix : forall w n h, inv w -> Heap.mem w n = true -> 0 <= h ->
  exists w', Heap.fix_ w n h = Ok w' /\ inv w' /\ Heap.ids w' ≡ₚ Heap.ids w /\
             forall m, Heap.hinOf w' m = if decide (m = n) then h else Heap.hinOf w m.
Proof. exact heap_fix_spec. Qed.
Print Assumptions C18_fix.

(** remove-min hands back a queued node of the smallest height, and only that node leaves. *)
Theorem C18_removeMin : forall w n w', inv w -> Heap.removeMin w = Some (n, w') ->
  is_min w n /\ inv w' /\ Heap.ids w ≡ₚ n :: Heap.ids w' /\
  forall m, Heap.hinOf w' m = if decide (m = n) then unset else Heap.hinOf w m.
Proof. exact heap_removeMin_spec. Qed.
Print Assumptions C18_removeMin.

Theorem C18_removeMin_none : forall w, inv w -> (Heap.removeMin w = None <-> Heap.ids w = []).
Proof. exact heap_removeMin_none. Qed.
Print Assumptions C18_removeMin_none.

(** take-min-block hands back exactly the nodes of the smallest height. *)
Theorem C18_takeMinBlock : forall w b w', inv w -> Heap.takeMinBlock w = (b, w') ->
  inv w' /\ Heap.ids w ≡ₚ b ++ Heap.ids w' /\
  (forall n m, n ∈ b -> m ∈ Heap.ids w -> Heap.hinOf w n <= Heap.hinOf w m) /\
  (forall n m, n ∈ b -> m ∈ Heap.ids w' -> Heap.hinOf w n < Heap.hinOf w m) /\
  (b = [] <-> Heap.ids w = []) /\
  forall m, Heap.hinOf w' m = if bool_decide (m ∈ b) then unset else Heap.hinOf w m.
Proof. exact heap_takeMinBlock_spec. Qed.
Print Assumptions C18_takeMinBlock.

(** clear (and any drain by remove-min) returns every queued node exactly once, heights
    never decreasing, and leaves the queue empty. *)
Theorem C18_clear : forall w l w', inv w -> Heap.clear w = (l, w') ->
  l ≡ₚ Heap.ids w /\ nondecreasing w l /\ inv w' /\ Heap.ids w' = [] /\ Heap.len w' = 0.
Proof. exact heap_clear_spec. Qed.
Print Assumptions C18_clear.

Theorem C18_drain : forall w l w', inv w -> Heap.drain (length (Heap.ids w)) w = (l, w') ->
  l ≡ₚ Heap.ids w /\ nondecreasing w l /\ inv w' /\ Heap.ids w' = [].
Proof. exact heap_drain_spec. Qed.
Print Assumptions C18_drain.

(** the reported length is the number queued; the lazy cursor never overshoots. *)
Theorem C18_len : forall w, inv w -> Heap.len w = Z.of_nat (length (Heap.ids w)).
Proof. exact heap_len_spec. Qed.
Print Assumptions C18_len.

Theorem C18_cursor_sound : forall w h, inv w -> Heap.minHeight w = Some h ->
  forall m, m ∈ Heap.ids w -> h <= Heap.hinOf w m.
Proof. exact heap_cursor_sound. Qed.
Print Assumptions C18_cursor_sound.

(** outside the property's domain: a negative height faults (the Go code indexes heights[-1]) *)
Theorem C18_negative_height_faults : forall w n h, h < 0 -> Heap.add w n h = Crash HeapNegativeHeight.
Proof. exact heap_add_negative. Qed.
Print Assumptions C18_negative_height_faults.
