(** C02 over whole histories of the bind-free fragment, with no wfb hypothesis (proofs: StaticHistory.v). *)
From incr Require Import Base Heap HeapSpec EngineDefs Engine EngineRun EngineWf Spec EngineInv PassInv PassProofs
     Par ParProofs ParSerial StaticHistory.

Theorem C02_history_bindfree : forall mh os1 o os2 sf,
  (0 < mh)%nat -> hist_run (init mh) (os1 ++ o :: os2) = Some sf -> is_pass o = true ->
  exists s1 s2, hist_run (init mh) os1 = Some s1 /\ step s1 o = Ok (s2, None) /\
    forall evs n args r, log s2 = evs ++ log s1 -> EvInvoked n args r ∈ evs ->
      args = map (valueOf s2) (decl (nd s2 n)) /\ r = value (nd s2 n) /\ recomputedAt (nd s2 n) = stabNum s1.
Proof. exact C02_history. Qed.
Print Assumptions C02_history_bindfree.

