(** C08, the ordering half that C08_history.v leaves open ("F25"): within a serial pass NO node of
    the generation a bind is about to replace -- the nodes its function created, directly or through
    nested binds -- has run before the swap.  (After the swap none runs ever again:
    C08_never_runs_after_invalidation.)

    [sub s n a]: node [n] was created in the scope of the bind whose lhs-change node is [a], directly
    ([scope n = Some a]) or in a nested generation.
    [chainQ Q fuel s n] / [loopQ Q fuel s] are [recomputeChain] / [passLoop] (plan-free) with a
    monitor: [Q s n] holds at EVERY call [recomputeNodeSerial _ [] s n] the chain / the loop makes
    (they follow the successful calls exactly as the two functions do).
    [QOrd base s a]: if [a] is a lhs-change node then in [s] (i) no registered node [n] with
    [sub s n a] carries the stamp of this pass ([isDone]), and (ii) every function / cutoff event
    of such a node logged since the pass began ([base] = the log at the start) is followed by an
    [EvNec n]: it belongs to an earlier period of necessity (the node left the graph and came back).

    [C08_binds_order_pass]: from any state with [Inv], [ValInvB], [Tplain], every recompute of the
    plan-free serial pass satisfies [QOrd]: whenever a bind's lhs-change node is recomputed -- the
    swap -- nothing of the generation it is about to replace has run in this pass.
    The proof is a pass-ORDER invariant [OD] that the mid-pass invariants [PInv] / [LInvC] do not
    carry: a registered node created under bind [b] that has run (or is being recomputed) witnesses
    that no node still owed a recompute reaches [b]'s lhs-change node, so [b] will not swap any more.
    [C08_binds_order_taken] / [_direct]: it is established when a node is taken from the queue (a
    minimum, above its scopes' lhs-change nodes: [height_ok]) or recomputed directly
    ([canRecomputeImmediately] refuses a node whose scope's lhs-change node is not strictly below
    everything queued -- the F25 guard); [C08_binds_order_recompute] / [_swap]: it is kept by every
    recompute (a recompute adds edges only below owed nodes: the parents of the nodes that stay
    registered do not change).  [C08_binds_scope_registered]: a registered node's scope is registered.
    Proofs: PassBindOrder.v. *)
From incr Require Import Base Heap HeapSpec HeapProofs EngineDefs Engine EngineRun EngineWf Spec EngineLemmas EngineLocal
     EngineInv EngineInvProofs PassInv PassProofs PassPlanProofs PassBind PassBindProofs PassBindSwap PassBindSwapProofs
     PassBindSwapStep PassBindOps PassBindSwapLog PassBindOrder SpecProofs.

Theorem C08_binds_order_pass : forall s,
  Inv s -> ValInvB s -> Tplain s ->
  let s1 := EngineLocal.passStart s in
  loopQ (QOrd (log s1)) (passFuel s1) s1.
Proof. exact pass_order. Qed.
Print Assumptions C08_binds_order_pass.

(* the invariant gives the statement *)
Theorem C08_binds_order_point : forall s a,
  OD s (Some a) -> forall n, sub s n a -> inGraph (nd s n) = true -> isDone s n = false.
Proof. exact OD_not_done. Qed.
Print Assumptions C08_binds_order_point.

(* established when a node is taken from the queue ... *)
Theorem C08_binds_order_taken : forall s m w,
  PInv s -> LInvC s None -> Heap.removeMin (heap s) = Some (m, w) -> OD s None ->
  OD (s <| heap := w |>) (Some m).
Proof. exact OD_pop. Qed.
Print Assumptions C08_binds_order_taken.

(* ... or recomputed directly: the guard *)
Theorem C08_binds_order_direct : forall s m c b,
  PInv s -> canRecomputeImmediately s m c = true -> inGraph (nd s c) = true -> sub s c b ->
  forall x, x ∈ Heap.ids (heap s) -> height (nd s b) < height (nd s x).
Proof. exact imm_low. Qed.
Print Assumptions C08_binds_order_direct.

(* kept by the recompute of a node that is not a lhs-change node ... *)
Theorem C08_binds_order_recompute : forall fuel s m s' imm,
  Tplain s -> PInv s -> LInvC s (Some m) -> inGraph (nd s m) = true -> isLhs (nkind (nd s m)) = false ->
  recomputeNodeSerial fuel [] s m = Ok (s', None, imm) -> PInv s' ->
  OD s (Some m) -> OD s' imm.
Proof. exact OD_step. Qed.
Print Assumptions C08_binds_order_recompute.

(* ... and by a swap *)
Theorem C08_binds_order_swap : forall fuel s a s' imm,
  Tplain s -> PInv s -> LInvC s (Some a) -> inGraph (nd s a) = true -> nkind (nd s a) = KBindLhs a ->
  recomputeNodeSerial fuel [] s a = Ok (s', None, imm) -> PInv s' ->
  OD s (Some a) -> imm = None /\ OD s' None.
Proof. exact OD_bind. Qed.
Print Assumptions C08_binds_order_swap.

Theorem C08_binds_scope_registered : forall s n b,
  PInv s -> inGraph (nd s n) = true -> scope (nd s n) = Some b -> inGraph (nd s b) = true.
Proof. exact scope_reg. Qed.
Print Assumptions C08_binds_scope_registered.

(** Non-vacuity: the F25 shape, [exO_ops].  Node 2 (a Map over var 1) is an outer input of the
    single-input node 6 that the bind (lhs-change node 3, at the height of node 2) built; var 1 and
    the bind's input both change.  In the pass node 2 is recomputed first (10), node 6 is owed, its
    direct recompute is refused (the bind is queued at the height of node 6's scope), the bind swaps
    and invalidates node 6: no function event of node 6 in the pass. *)
Example C08_binds_order_ex :
  match histB_run (init 64) exO_ops with
  | Some s =>
    inGraph (nd s 6%nat) && bool_decide (scope (nd s 6%nat) = Some 3%nat) && bool_decide (parents (nd s 6%nat) = [2%nat]) &&
    match stabilize [] false s with
    | Ok (s', None) =>
      let evs := take (length (log s') - length (log s)) (log s') in
      bool_decide (log s' = evs ++ log s) &&
      bool_decide (EvInvoked 2 [9] 10 ∈ evs) && bool_decide (EvBindFn 3 1 (Some 7%nat) ∈ evs) && bool_decide (EvInval 6 ∈ evs) &&
      forallb (fun e => negb (bool_decide (ev_node e = Some 6%nat))) evs
    | _ => false
    end
  | None => false
  end = true.
Proof. exact exO_results. Qed.
