(** C01 (state-level half) — whenever the engine is in a well-formed, locally consistent state,
    the value read from every observer equals what evaluating the graph's current definition
    from scratch on the current input values gives.

    This file holds only the property theorems.  Each is closed by [exact] of a lemma proved
    in SpecProofs.v, with [Print Assumptions] beneath it.

    Model: Engine.v (the operational model, validated against the Go code by trace replay).
    Oracle: [Spec.eval] — the from-scratch evaluator; it reads only node kinds, declared inputs,
    bind case tables, the vars' values, the constants and the held value of parity cutoffs
    ([C01_eval_reads_only]); binds are evaluated by evaluating the case their input selects
    (nested binds, binds returning outer nodes or other binds included), a MapN over its
    CURRENT declared inputs, an equality cutoff as the identity.

    The theorems hold for EVERY state, reachable or not, that satisfies
      [wfb s]          the quiescent structural invariant of EngineWf.v,
      [closed s]       ids below the creation counter; Always nodes have one earlier input;
                       a bind main node [S b] has its record and its lhs-change node [b];
                       lhs-change nodes are referenced only as the first input of their main
                       node; observers observe value-holding nodes         (SpecProofs.v),
      [templates_ok s] no bind template contains a parity (history dependent) cutoff — a
                       restriction on the program, shown necessary by
                       [C01_templates_ok_needed]                            (SpecProofs.v),
      [consistent s]   every registered node is valid and holds its function applied to the
                       current values of its declared inputs; every bind's right-hand side is
                       the instantiation of the case its input selects     (Spec.v).
    That these four hold whenever Stabilize returns nil is the engine-invariant half of C01. *)
From incr Require Import Base Heap HeapSpec EngineDefs Engine EngineWf Spec SpecProofs.

(** every observer reads the from-scratch value, for every fuel above an explicit bound
    ([rank s n + 1]: one more than the number of registered nodes strictly lower than the
    observed one) which never exceeds the creation counter *)
Theorem C01_consistent_implies_spec : forall s,
  wfb s = true -> closed s = true -> templates_ok s = true -> consistent s = true ->
  forall o n, obs s !! o = Some n ->
  exists fuel, (fuel <= next s)%nat /\
    forall fuel', (fuel <= fuel')%nat -> eval s fuel' n = Some (valueOf s n).
Proof. exact C01_consistent_implies_spec_proof. Qed.
Print Assumptions C01_consistent_implies_spec.

(** the same for every registered node that holds a value, not only the observed ones *)
Theorem C01_registered_nodes : forall s,
  wfb s = true -> closed s = true -> templates_ok s = true -> consistent s = true ->
  forall n, inGraph (nd s n) = true -> notLhs s n = true ->
  (rank s n + 1 <= next s)%nat /\
  forall fuel, (rank s n + 1 <= fuel)%nat -> eval s fuel n = Some (valueOf s n).
Proof. exact consistent_registered_eval. Qed.
Print Assumptions C01_registered_nodes.

(** the executable check of Spec.v (fuel [next s + 64]) *)
Theorem C01_observers_agree : forall s,
  wfb s = true -> closed s = true -> templates_ok s = true -> consistent s = true ->
  observers_agree s = true.
Proof. exact C01_observers_agree_proof. Qed.
Print Assumptions C01_observers_agree.

(** the evaluators are monotone in the fuel: a value, once produced, is THE value *)
Theorem C01_eval_monotone : forall s fuel fuel' n v,
  (fuel <= fuel')%nat -> eval s fuel n = Some v -> eval s fuel' n = Some v.
Proof. exact eval_mono. Qed.
Print Assumptions C01_eval_monotone.

(** the oracle reads only the program and its inputs *)
Theorem C01_eval_reads_only : forall s s',
  (forall n, nkind (nd s' n) = nkind (nd s n) /\ decl (nd s' n) = decl (nd s n)
             /\ value (nd s' n) = value (nd s n)) ->
  (forall b, b_lhs (bd s' b) = b_lhs (bd s b) /\ b_cases (bd s' b) = b_cases (bd s b)) ->
  forall fuel n, eval s' fuel n = eval s fuel n.
Proof. exact eval_reads_only. Qed.
Print Assumptions C01_eval_reads_only.

(** non-vacuity: states reached by [Engine.run] (a MapN under an equality cutoff feeding a bind
    with three cases — a map of its input, an outer node, a nested bind over an outer node —
    read through an Always node; a MapN input added, then removed) satisfy all hypotheses *)
Theorem C01_example_hypotheses :
  ex_hyps (ex_state ex_ops1) = true /\ ex_hyps (ex_state ex_ops2) = true
  /\ ex_hyps (ex_state ex_ops3) = true.
Proof. exact (conj ex1_hypotheses_hold (conj ex2_hypotheses_hold ex3_hypotheses_hold)). Qed.
Print Assumptions C01_example_hypotheses.

Theorem C01_example_conclusion :
  let s := ex_state ex_ops3 in
  obs s !! 7%nat = Some 6%nat /\ valueOf s 6%nat = 7 /\ eval s (next s) 6%nat = Some 7
  /\ rank s 6%nat = 11%nat /\ next s = 16%nat /\ observers_agree s = true.
Proof. exact ex3_conclusion. Qed.
Print Assumptions C01_example_conclusion.

(** [templates_ok] cannot be dropped *)
Theorem C01_templates_ok_needed :
  let s := ex_state ex_parity_ops in
  wfb s = true /\ closed s = true /\ consistent s = true
  /\ templates_ok s = false /\ observers_agree s = false.
Proof. exact templates_ok_needed. Qed.
Print Assumptions C01_templates_ok_needed.
