(** What a serial pass on a graph WITH binds returns, modulo fuel (the model's recursion fuel is
    the one hypothesis: [stabilize ... <> OutOfFuel]).  No crash (C05: [EngineInvProofs.nc_stabilize]);
    a plan-free pass returns no error or the rejection of an edge by a swapping bind ([ECycle] /
    [EHeightLimit]: these can arise with binds even without any fault), and when it returns no
    error it converges; a pass in which the function of [x] fails / panics returns that error,
    such a rejection, or nothing.  This is what the "retry" of Properties/C07_binds.v needs in
    place of the bind-free [C07_static_plan_free_pass_total].  Proofs: PassBindTotal.v. *)
From incr Require Import Base Heap HeapSpec HeapProofs EngineDefs Engine EngineRun EngineWf Spec EngineLemmas EngineLocal
     EngineInv EngineInvProofs PassInv PassProofs PassPlanProofs PassBind PassBindProofs PassBindSwap PassBindSwapProofs
     PassBindSwapStep PassBindOps PassBindFault PassBindTotal.

Theorem C07_binds_plan_free_pass_returns : forall s,
  Inv s -> stabilize [] false s <> OutOfFuel ->
  exists s' e, stabilize [] false s = Ok (s', e) /\ (e = None \/ e = Some ECycle \/ e = Some EHeightLimit).
Proof. exact passS_total. Qed.
Print Assumptions C07_binds_plan_free_pass_returns.

Theorem C07_binds_plan_free_pass_total : forall s,
  Inv s -> ValInvB s -> Tplain s -> stabilize [] false s <> OutOfFuel ->
  (exists s', stabilize [] false s = Ok (s', None) /\ consistent s' = true /\ Inv s' /\ ValInvB s' /\ Tplain s') \/
  (exists s' e, stabilize [] false s = Ok (s', Some e) /\ (e = ECycle \/ e = EHeightLimit)).
Proof. exact passS_total_converges. Qed.
Print Assumptions C07_binds_plan_free_pass_total.

Theorem C07_binds_failPlan_result : forall s x s' e,
  Inv s -> ValInvB s -> Tplain s -> stabilize (failPlan x) false s = Ok (s', e) ->
  e = None \/ e = Some (EUser x) \/ e = Some ECycle \/ e = Some EHeightLimit.
Proof. exact failPlan_resultB. Qed.
Print Assumptions C07_binds_failPlan_result.

Theorem C07_binds_panicPlan_result : forall s x s' e,
  Inv s -> ValInvB s -> Tplain s -> stabilize (panicPlan x) false s = Ok (s', e) ->
  e = None \/ e = Some (EPanic x) \/ e = Some ECycle \/ e = Some EHeightLimit.
Proof. exact panicPlan_resultB. Qed.
Print Assumptions C07_binds_panicPlan_result.

Theorem C07_binds_fault_pass_no_crash : forall s x k, Inv s -> nocrash (stabilize (faultPlan x k) false s).
Proof. exact fault_pass_no_crash. Qed.
Print Assumptions C07_binds_fault_pass_no_crash.

(** Non-vacuity: the retry after the failing bind function of [exF_ops] returns with no error. *)
Example C07_binds_total_ex : exists s s' s'',
  Inv s /\ ValInvB s /\ Tplain s /\ stabilize (failPlan 2) false s = Ok (s', Some (EUser 2%nat)) /\
  stabilize [] false s' = Ok (s'', None).
Proof.
  destruct exF_fail as (s & s' & _ & I & V & T & H & _).
  assert (Hc : match histF_run (init 64) (take 7 exF_ops) with
               | Some s0 => match stabilize (failPlan 2) false s0 with
                            | Ok (s1, _) => match stabilize [] false s1 with Ok (_, None) => true | _ => false end
                            | _ => false end
               | None => false end = true) by (vm_compute; reflexivity).
  destruct exF_fail as (s0 & s1 & E0 & I0 & V0 & T0 & H0 & _). rewrite E0, H0 in Hc.
  destruct (stabilize [] false s1) as [[s2 [e|]]| |] eqn:E2; try discriminate Hc.
  exists s0, s1, s2. auto 10.
Qed.
