(** C02 / C03 / C11 on graphs with binds for a ParallelStabilize pass under ANY well-formed, clean
    plan: var writes and any number of faults (functions of Map-like nodes, cutoff functions; errors
    and panics; several nodes of one height block may fault in one pass).

    [C02_C03_binds_parallel_any_faults]: a pass under a plan [q] of faults that returns
    [Ok (s', e)], [e] not a rejected edge, satisfies [PassLogPQ (fun n => exists k, inPlan q n k) e s s']:
    - [plr_last] (C02 / C11): the LAST run event of the current period of necessity of a node that
      is registered and not queued in [s'] (of ANY registered node if [e] is nothing) reports the
      arguments / result / cutoff decision that [s'] holds; the node carries the pass's stamp;
    - [plr_triple], [plr_pair] (C03, exact parallel form): at most two run events of a node without
      an [EvNec] of it in between, two only in a period of necessity that began in this pass; a
      faulting recompute logs no run event;
    - [plr_keep], [plr_changed]: a registered node without the pass's stamp and not registered anew
      keeps value and change stamp, and -- unless it is a target of the plan (a panic resets the
      stamp of the panicking node) -- its recompute stamp; a changed value carries the pass's
      change stamp.
    [C02_C03_binds_parallel_any_plan]: with var writes in the plan the pass logs exactly the events
    of the pass under the faults alone, whose final state satisfies the above; the nodes differ
    only in value / pending / setAt of written vars.
    Proofs: ParBindMultiFaultParLog.v (instance [X := LGP] of the block induction of
    ParBindMultiFaultPar.v). *)
From incr Require Import Base Heap HeapSpec HeapProofs EngineDefs Engine EngineRun EngineWf Spec EngineLemmas EngineLocal
     EngineInv EngineInvProofs PassInv PassProofs PassPlanProofs PassBind PassBindProofs PassBindSwap PassBindSwapProofs
     PassBindSwapStep PassBindOps PassBindFault PassBindWrites PassBindTotal PassBindMixed PassBindFaultGen
     ParBind ParBindStep ParBindHistory ParBindWrites ParBindFault PassBindMultiFault ParBindEverything
     ParBindMultiFaultPar ParBindMultiFaultParLog SpecProofs.

Theorem C02_C03_binds_parallel_any_faults : forall s q s' e,
  nowrites q -> Inv s -> ValInvB s -> Tplain s -> plan_ok s q = true -> par_plan_clean s q = true ->
  parStabilize q s = Ok (s', e) -> rejected e = false -> PassLogPQ (fun n => exists k, inPlan q n k) e s s'.
Proof. exact parQ_log. Qed.
Print Assumptions C02_C03_binds_parallel_any_faults.

Theorem C02_C03_binds_parallel_any_plan : forall s p s' e,
  Inv s -> ValInvB s -> Tplain s -> plan_ok s p = true -> par_plan_clean s p = true ->
  parStabilize p s = Ok (s', e) -> rejected e = false ->
  exists t', parStabilize (fo p) s = Ok (t', e) /\ PassLogPQ (fun n => exists k, inPlan p n k) e s t' /\
    log s' = log t' /\ (forall m, vps (nd t' m) (nd s' m)).
Proof. exact parA_log. Qed.
Print Assumptions C02_C03_binds_parallel_any_plan.

(** Non-vacuity: as in C13_binds_parallel_multi_fault: the bind 4 ran before the two faults of its
    block ([EvBindFn 4 3 (Some 10)]), is not queued and carries the stamp; nodes 2 and 3 are queued *)
Example C02_C03_binds_parallel_multi_fault_ex :
  match histA_run (init 64) (take 11 exA_ops) with
  | Some s =>
    op_ok s (ParStabilize (fo exA_plan)) && op_clean s (ParStabilize (fo exA_plan)) &&
    match parStabilize (fo exA_plan) s with
    | Ok (s1, Some (EUser 2%nat)) =>
      bool_decide (take 13 (log s1) =
        [EvUpd 4; EvUpd 1; EvUpd 0; EvPassEnd XUser; EvErrH 3; EvFault 3 WFn FPanic; EvErrH 2; EvFault 2 WFn FErr;
         EvInval 9; EvUnnec 9; EvNec 10; EvBindFn 4 3 (Some 10%nat); EvPassStart]) &&
      bool_decide (drop 13 (log s1) = log s) &&
      bool_decide (filter (fun n => inGraph (nd s1 n) && (changedAt (nd s1 n) =? stabNum s)) (seq 0 (next s1)) = [0; 1; 4]%nat) &&
      negb (inHeap s1 4%nat) && (recomputedAt (nd s1 4%nat) =? stabNum s) && inHeap s1 2%nat && inHeap s1 3%nat
    | _ => false
    end
  | None => false
  end = true.
Proof. exact exAL_results. Qed.
