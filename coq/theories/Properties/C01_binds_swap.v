(** C01 with binds present, passes in which binds SWAP (stage B2) — CONDITIONAL on one step.

    The loop invariant [PassBindSwap.LInvC] (the value clauses of PassBind.LInvB, with "clean" for a
    lhs-change node meaning: the right-hand side of its bind is the instantiation of the case its
    input selects; the structure comes from [EngineInvProofs.PInv], the mid-pass structural
    invariant, which is carried alongside) is
    - established at the start of a pass from [Inv] and [ValInvB] ([C01_swap_start]),
    - preserved by [recomputeNodeSerial] on every node that is NOT a lhs-change node
      ([C01_swap_step]; bind main nodes and nodes created by bind functions included),
    - and at the end of the loop gives [consistent] ([C01_swap_pass], hence [observers_agree]).
    What is NOT proved is that the recompute of a lhs-change node -- the bind function runs and
    the bind swaps its right-hand side ([Engine.bindLhsStabilize]: inst, changeParent,
    invalidateNode, propagateInvalidity) -- preserves [LInvC]: this is the explicit hypothesis
    [bind_value_spec] of [C01_swap_pass] (its structural half is [EngineInvProofs.bind_spec_holds]).
    Evidence for it: [PassBindSwap.vc_trace] evaluates every clause of [LInvC] before every
    [recomputeNodeSerial] and after every chain of every plan-free pass: no failing clause on the
    replayed histories of the profiles binds, C01, chain, pardrop (400 histories, 3,665 passes,
    nested binds included).
    Proofs: PassBindSwapProofs.v. *)
From incr Require Import Base Heap HeapSpec EngineDefs Engine EngineRun EngineWf Spec SpecProofs EngineLemmas
     EngineInv EngineInvProofs PassInv PassProofs PassBind PassBindProofs PassBindSwap PassBindSwapProofs.

Theorem C01_swap_start : forall s, Inv s -> ValInvB s -> LInvC (passStart s) None.
Proof. exact LInvC_start. Qed.
Print Assumptions C01_swap_start.

Theorem C01_swap_step : forall fuel s m s' imm,
  PInv s -> LInvC s (Some m) -> inGraph (nd s m) = true -> isLhs (nkind (nd s m)) = false ->
  recomputeNodeSerial fuel [] s m = Ok (s', None, imm) ->
  PInv s' /\ LInvC s' imm.
Proof. exact rnsC_nonlhs. Qed.
Print Assumptions C01_swap_step.

Theorem C01_swap_pass :
  bind_value_spec -> forall s s',
  Inv s -> ValInvB s -> stabilize [] false s = Ok (s', None) -> templates_ok s' = true ->
  consistent s' = true /\ observers_agree s' = true /\ Inv s' /\ wfb s' = true.
Proof. exact passC_observers_agree. Qed.
Print Assumptions C01_swap_pass.

(** Non-vacuity / evidence: the first pass of [exB_ops] runs the bind function of bind 2 (input
    value 2, new right-hand side root 6); no clause of [LInvC] fails at any step of it, and it ends
    [consistent]. *)
Example C01_swap_ex : pass_codesC exS_pre = [] /\
  match stabilize [] false exS_pre with
  | Ok (s', None) => consistent s' && bool_decide (EvBindFn 2 2 (Some 6%nat) ∈ log s')
  | _ => false
  end = true.
Proof. exact exS_codes. Qed.
