(** C01 with binds present, passes in which binds SWAP (stage B2).

    UNCONDITIONAL for graphs all of whose bind templates satisfy [PassBindSwapStep.tplain]: [TNil]
    occurs only as a whole case (which [EngineInv.Inv] demands anyway, [texp_wf]); NESTED binds
    ([TBind] inside templates, to any depth) are allowed: [C01_swap_pass_plain] -- a serial pass without a plan
    from a state satisfying [Inv] and [ValInvB] ends [consistent], with every observer reading the
    from-scratch value, however many binds swap in it.  The step behind it is
    [C01_swap_bind_step]: the recompute of a lhs-change node (the bind function runs: inst,
    changeParent with becameNecessary / adjustHeights / teardown of the old right-hand side,
    invalidation of the discarded generation) preserves the loop invariant [LInvC]; its
    structural half is [EngineInvProofs.bind_spec_holds], whose proof is replayed to obtain the
    intermediate states.

    The earlier conditional form (hypothesis [bind_value_spec]) is kept:

    The loop invariant [PassBindSwap.LInvC] (the value clauses of PassBind.LInvB, with "clean" for a
    lhs-change node meaning: the right-hand side of its bind is the instantiation of the case its
    input selects; the structure comes from [EngineInvProofs.PInv], the mid-pass structural
    invariant, which is carried alongside) is
    - established at the start of a pass from [Inv] and [ValInvB] ([C01_swap_start]),
    - preserved by [recomputeNodeSerial] on every node that is NOT a lhs-change node
      ([C01_swap_step]; bind main nodes and nodes created by bind functions included),
    - and at the end of the loop gives [consistent] ([C01_swap_pass], hence [observers_agree]).
    What is NOT proved is that the recompute of a lhs-change node -- the bind function runs and
    the bind swaps its right-hand side ([Engine.bindLhsStabilize]: inst, changeParent,
    invalidateNode, propagateInvalidity) -- preserves [LInvC]: this is the explicit hypothesis
    [bind_value_spec] of [C01_swap_pass] (its structural half is [EngineInvProofs.bind_spec_holds]).
    Evidence for it: [PassBindSwap.vc_trace] evaluates every clause of [LInvC] before every
    [recomputeNodeSerial] and after every chain of every plan-free pass: no failing clause on the
    replayed histories of the profiles binds, C01, chain, pardrop (400 histories, 3,665 passes,
    nested binds included).
    Proofs: PassBindSwapProofs.v. *)
From incr Require Import Base Heap HeapSpec EngineDefs Engine EngineRun EngineWf Spec SpecProofs EngineLemmas
     EngineInv EngineInvProofs PassInv PassProofs PassBind PassBindProofs PassBindSwap PassBindSwapProofs
     PassBindSwapStep.

Theorem C01_swap_start : forall s, Inv s -> ValInvB s -> LInvC (passStart s) None.
Proof. exact LInvC_start. Qed.
Print Assumptions C01_swap_start.

Theorem C01_swap_step : forall fuel s m s' imm,
  PInv s -> LInvC s (Some m) -> inGraph (nd s m) = true -> isLhs (nkind (nd s m)) = false ->
  recomputeNodeSerial fuel [] s m = Ok (s', None, imm) ->
  PInv s' /\ LInvC s' imm.
Proof. exact rnsC_nonlhs. Qed.
Print Assumptions C01_swap_step.

Theorem C01_swap_pass :
  bind_value_spec -> forall s s',
  Inv s -> ValInvB s -> stabilize [] false s = Ok (s', None) -> templates_ok s' = true ->
  consistent s' = true /\ observers_agree s' = true /\ Inv s' /\ wfb s' = true.
Proof. exact passC_observers_agree. Qed.
Print Assumptions C01_swap_pass.

(** the step for a bind with plain templates (all binds of the state: [Tplain]) *)
Theorem C01_swap_bind_step : forall fuel s b s' imm,
  Tplain s -> PInv s -> LInvC s (Some b) -> inGraph (nd s b) = true -> nkind (nd s b) = KBindLhs b ->
  recomputeNodeSerial fuel [] s b = Ok (s', None, imm) -> PInv s' -> LInvC s' imm /\ Tplain s'.
Proof. exact bind_step. Qed.
Print Assumptions C01_swap_bind_step.

(** the pass, unconditionally, for plain templates *)
Theorem C01_swap_pass_plain : forall s s',
  Inv s -> ValInvB s -> Tplain s -> stabilize [] false s = Ok (s', None) -> templates_ok s' = true ->
  consistent s' = true /\ observers_agree s' = true /\ Inv s' /\ wfb s' = true.
Proof. exact passS_observers_agree. Qed.
Print Assumptions C01_swap_pass_plain.

(** and the quiescent invariants again: passes chain *)
Theorem C01_swap_pass_invariants : forall s s',
  Inv s -> ValInvB s -> Tplain s -> stabilize [] false s = Ok (s', None) -> ValInvB s' /\ Tplain s' /\ CF s s'.
Proof. exact passS_ValInvB. Qed.
Print Assumptions C01_swap_pass_invariants.

Theorem C01_swap_tplain_b_sound : forall s, tplain_b s = true -> Tplain s.
Proof. exact tplain_b_sound. Qed.
Print Assumptions C01_swap_tplain_b_sound.

(** Non-vacuity of [C01_swap_pass_plain]: [exS_pre] (reached by a clean history) satisfies its
    hypotheses, and its pass runs the bind function of bind 2 *)
Example C01_swap_plain_ex :
  run_clean (init 64) (take 5 exB_ops) = Some exS_pre /\ Inv exS_pre /\ ValInvB exS_pre /\ Tplain exS_pre.
Proof. split; [exact exS_pre_run|exact exS_pre_hyps]. Qed.

(** Non-vacuity / evidence: the first pass of [exB_ops] runs the bind function of bind 2 (input
    value 2, new right-hand side root 6); no clause of [LInvC] fails at any step of it, and it ends
    [consistent]. *)
Example C01_swap_ex : pass_codesC exS_pre = [] /\
  match stabilize [] false exS_pre with
  | Ok (s', None) => consistent s' && bool_decide (EvBindFn 2 2 (Some 6%nat) ∈ log s')
  | _ => false
  end = true.
Proof. exact exS_codes. Qed.
