(** C07 / C12 / C01 on graphs with binds: ParallelStabilize under ANY well-formed, clean plan -- var
    writes and ANY NUMBER of faults (functions of Map / Map2 / MapN nodes, cutoff functions; errors
    and panics; [par_plan_clean]: no fault of a bind function) -- and histories over the WHOLE
    alphabet of the bind development with every such plan under either stabilizer.

    The parallel stabilizer runs the rest of a height block after the first fault, so several nodes
    of one block can fault in one pass; it returns the FIRST error of the block in queue order.
    [C07_binds_parallel_any_faults]: a parallel pass under a plan of faults that returns
    [Ok (s', e)], [e] not a rejected edge: [Inv], [ValInvB], [Tplain] hold in [s']; [e] is nothing
    and [s'] is consistent, or [e] is the error [EUser x] / [EPanic x] of a fault [(x, _, AFail k)]
    of the plan and [x] is queued in [s'] (so is every other node that faulted: [ValInvB s']).
    [C07_C12_binds_parallel_any_plan]: the same for a plan with var writes as well; moreover the
    pass under the faults of the plan alone ([fo p]) returns the same result and logs exactly the
    same events, its nodes differing only in value / pending / setAt of written vars.
    [C07_binds_parallel_any_plan_retry]: a plan-free retry by EITHER stabilizer converges:
    consistent, observers read the from-scratch values.
    [C07_binds_parallel_fires]: which fault fires at a parallel recompute is decided by the node's
    kind and the plan alone.
    [C01_history_binds_all_plans]: [histA_run] is [histE_run] of C01_history_binds_everything with
    the restriction "at most one fault per parallel plan" dropped ([isAnyPass]); after every
    plan-free pass of either stabilizer in such a history everything is consistent and every
    observer reads the from-scratch value; the invariants hold at every boundary.
    Proofs: ParBindMultiFaultPar.v (one induction over the height blocks, generic in an extra
    invariant; per-node reduction to one fault by [rnp_fire]). *)
From incr Require Import Base Heap HeapSpec HeapProofs EngineDefs Engine EngineRun EngineWf Spec EngineLemmas EngineLocal
     EngineInv EngineInvProofs PassInv PassProofs PassPlanProofs PassBind PassBindProofs PassBindSwap PassBindSwapProofs
     PassBindSwapStep PassBindOps PassBindFault PassBindWrites PassBindTotal PassBindMixed PassBindFaultGen
     ParBind ParBindStep ParBindHistory ParBindWrites ParBindFault PassBindMultiFault ParBindEverything
     ParBindMultiFaultPar SpecProofs.

Theorem C07_binds_parallel_any_faults : forall s q s' e,
  nowrites q -> Inv s -> ValInvB s -> Tplain s -> plan_ok s q = true -> par_plan_clean s q = true ->
  parStabilize q s = Ok (s', e) -> rejected e = false ->
  Inv s' /\ ValInvB s' /\ Tplain s' /\ CF s s' /\
  ((e = None /\ consistent s' = true) \/ (exists x k, inPlan q x k /\ e = Some (faultErr x k) /\ inHeap s' x = true)).
Proof. exact parQ_fault. Qed.
Print Assumptions C07_binds_parallel_any_faults.

Theorem C07_C12_binds_parallel_any_plan : forall s p s' e,
  Inv s -> ValInvB s -> Tplain s -> plan_ok s p = true -> par_plan_clean s p = true ->
  parStabilize p s = Ok (s', e) -> rejected e = false ->
  Inv s' /\ ValInvB s' /\ Tplain s' /\ CF s s' /\
  (e = None \/ exists x k, inPlan p x k /\ e = Some (faultErr x k) /\ inHeap s' x = true) /\
  exists t', parStabilize (fo p) s = Ok (t', e) /\ log s' = log t' /\ (forall m, vps (nd t' m) (nd s' m)) /\
    (e = None -> consistent t' = true).
Proof. exact parA_any. Qed.
Print Assumptions C07_C12_binds_parallel_any_plan.

Theorem C07_binds_parallel_any_plan_retry : forall s p s' e s'',
  Inv s -> ValInvB s -> Tplain s -> templates_ok s = true -> plan_ok s p = true -> par_plan_clean s p = true ->
  parStabilize p s = Ok (s', e) -> rejected e = false ->
  (stabilize [] false s' = Ok (s'', None) \/ parStabilize [] s' = Ok (s'', None)) ->
  consistent s'' = true /\ observers_agree s'' = true /\ Inv s'' /\ ValInvB s'' /\ Tplain s''.
Proof. exact parA_retry. Qed.
Print Assumptions C07_binds_parallel_any_plan_retry.

Theorem C07_binds_parallel_fires : forall fuel q s m, nowrites q ->
  (forall b, nkind (nd s m) = KBindLhs b -> b = m) ->
  recomputeNodeParallel fuel q s m = recomputeNodeParallel fuel (onePlan m (fireK q (nkind (nd s m)) m)) s m.
Proof. exact rnp_fire. Qed.
Print Assumptions C07_binds_parallel_fires.

Theorem C01_history_binds_all_plans : forall mh os1 o os2 sf,
  (0 < mh)%nat -> histA_run (init mh) (os1 ++ o :: os2) = Some sf ->
  o = Stabilize [] \/ o = ParStabilize [] ->
  exists s1 s2, histA_run (init mh) os1 = Some s1 /\ step s1 o = Ok (s2, None) /\
    consistent s2 = true /\ observers_agree s2 = true /\ Inv s2 /\ ValInvB s2 /\ Tplain s2.
Proof. exact histA_everything. Qed.
Print Assumptions C01_history_binds_all_plans.

Theorem C01_history_binds_all_plans_invariants : forall os s0 s,
  Inv s0 -> ValInvB s0 -> Tplain s0 -> templates_ok s0 = true -> histA_run s0 os = Some s ->
  Inv s /\ ValInvB s /\ Tplain s /\ templates_ok s = true.
Proof. exact histA_inv. Qed.
Print Assumptions C01_history_binds_all_plans_invariants.

Theorem C01_history_binds_all_plans_includes : forall os s0 s, histE_run s0 os = Some s -> histA_run s0 os = Some s.
Proof. exact histE_histA. Qed.
Print Assumptions C01_history_binds_all_plans_includes.

(** Non-vacuity: [exA_ops]: in one parallel pass the bind 4 swaps its right-hand side, node 2's
    function fails, node 3's function writes var 1 and panics (same height block), the fault of node
    6 is not reached: result [EUser 2] (the first of the block), nodes 2 and 3 queued, 3's stamp
    reset, var 1 holds 9, node 6 did not run; the plan-free parallel retry converges *)
Example C01_history_binds_all_plans_ex :
  match histA_run (init 64) exA_ops with Some s => consistent s && observers_agree s | None => false end = true.
Proof. exact exA_runs. Qed.

Example C07_binds_parallel_multi_fault_ex :
  match histA_run (init 64) (take 11 exA_ops) with
  | Some s =>
    op_ok s (ParStabilize exA_plan) && op_clean s (ParStabilize exA_plan) &&
    match parStabilize exA_plan s with
    | Ok (s1, Some (EUser 2%nat)) =>
      bool_decide (take 13 (log s1) =
        [EvUpd 4; EvUpd 1; EvUpd 0; EvPassEnd XUser; EvErrH 3; EvFault 3 WFn FPanic; EvErrH 2; EvFault 2 WFn FErr;
         EvInval 9; EvUnnec 9; EvNec 10; EvBindFn 4 3 (Some 10%nat); EvPassStart]) &&
      inHeap s1 2%nat && inHeap s1 3%nat && (recomputedAt (nd s1 3%nat) =? 0) && (value (nd s1 1%nat) =? 9) &&
      negb (inHeap s1 6%nat) && negb (recomputedAt (nd s1 6%nat) =? stabNum s)
    | _ => false
    end
  | None => false
  end = true.
Proof. exact exA_results. Qed.
