(** C01 / C02 / C03 / C04 along whole histories of the bind-free fragment, from [init], with NO
    [wfb] hypothesis: wf-prover's [EngineInv.Inv] (clean histories) supplies the structural
    invariant, pass-prover's [PassInv.ValInv] the value invariant, ParSerial the parallel pass.

    [hist_run s os = Some s']: every operation of [os] is in the common alphabet
    (New{Var,Return,Map,Map2,MapN,Cutoff,Always}, Observe, Unobserve, SetVar, UpdateVar,
    AddInput, RemoveInput, [Stabilize []], StabilizeCancelled), well-formed ([op_ok]), clean
    ([EngineInv.op_clean]: top-level operands, [AddInput n a] with [a < n]) and returns
    [Ok (_, None)].  It is a boolean computation ([hist_ok]). *)
From incr Require Import Base Heap HeapSpec EngineDefs Engine EngineRun EngineWf Spec EngineInv PassInv PassProofs
     Par ParProofs ParSerial StaticHistory.

(** (0) both invariants at EVERY boundary of the history *)
(* C05_history_bindfree: see Properties/C05_history.v *)

(** (1) after every pass of the history: every registered node locally consistent, every observer
    reads [Spec.eval] of the program ([observers_agree]), [wfb], [ValInv] *)
Theorem C01_history_bindfree : forall mh os1 o os2 sf,
  (0 < mh)%nat -> hist_run (init mh) (os1 ++ o :: os2) = Some sf -> is_pass o = true ->
  exists s1 s2, hist_run (init mh) os1 = Some s1 /\ step s1 o = Ok (s2, None) /\
    consistent s2 = true /\ observers_agree s2 = true /\ wfb s2 = true /\ ValInv s2.
Proof. exact C01_history. Qed.
Print Assumptions C01_history_bindfree.

(** (2) every function invocation of every pass of the history saw the values its inputs hold
    when that pass returns *)
(* C02_history_bindfree: see Properties/C02_history.v *)

(** (3) in every pass of the history exactly the owed nodes ran, each once *)
(* C03_history_bindfree: see Properties/C03_history.v *)

(** (4a) at every pass boundary of the history, ParallelStabilize (any fair schedule of the blocks)
    instead of Stabilize succeeds and leaves the same node records, observers, registry, counters
    and update events *)
(* C04_history_bindfree: see Properties/C04_history.v *)

(** (4b) histories in which SOME passes are run by ParallelStabilize.  [ObsEq]: every field of the
    state equal except the layout of the recompute heap (same queued set) and the order of the
    log (same update events, in the same order).

    FULL STATEMENT (not proved): for every [os'] obtained from [os] by replacing any subset of its
    passes, the mixed history runs and reaches [ObsEq] states at every boundary.  PROVED:
    - [mixed os os']: any common prefix, then a first replaced pass, then only steady-state
      operations (node creation, Set / Update, passes of either kind, in any mixture): whenever
      both histories run, they agree at every boundary;
    - if every pass from the first replaced one on is parallel, the mixed history does run.
    MISSING for the full statement: (i) Observe / Unobserve / AddInput / RemoveInput respect
    [ObsEq] (a congruence of becameNecessaryRecursive, removeParents, adjustHeights under a
    change of heap layout); (ii) the serial pass is total on the fragment (no fuel escape), which
    would turn "whenever both run" into "the mixed history runs" for serial passes after a
    parallel one. *)
(* C04_history_mixed_partial: see Properties/C04_history.v *)

(* C04_history_switch_to_parallel: see Properties/C04_history.v *)

(** two passes (serial or parallel, in any combination) from [ObsEq] states end in [ObsEq] states *)
(* C04_passes_agree: see Properties/C04_history.v *)

(** Non-vacuity: a history of 23 operations from [init 16]: a diamond (0 -> 2, 3 -> 4), a parity
    cutoff (5) that cuts in two passes and lets a change through in the last, a MapN (7) with
    AddInput / RemoveInput, unobserve and re-observe, six passes; and two mixed variants of it *)
Example C01_history_ex :
  length hx = 23%nat /\ hist_ok 16 hx = true /\
  cut_verdicts hx_final = [(5%nat, false); (5%nat, true); (5%nat, true)] /\
  obsValues hx_final = [(8%nat, 7); (10%nat, 5)].
Proof. split; [reflexivity|]. split; [vm_compute; reflexivity|]. split; vm_compute; reflexivity. Qed.

Example C04_history_mixed_ex :
  mixed hx hx_mixed /\ mixed_ok 16 hx_mixed = true /\ mixed_ok 16 hx_switched = true.
Proof. split; [exact hx_mixed_pair|]. split; vm_compute; reflexivity. Qed.
