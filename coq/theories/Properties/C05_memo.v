(** C05 (and the C06 / C10 corollaries) over histories WITH MEMOIZED BINDS
    (incrutil.BindMemoized: [NewBindMemo], [PurgeMemo], [ClearMemo]).

    Properties/C05.v proves the invariance of [EngineInv.Inv] over clean histories, where
    "clean" excludes memoized binds.  This file states the same theorems for the variant
    [EngineInvM.Inv] / [EngineInvM.run_clean] (EngineInvM.v, proofs EngineInvMProofs.v), whose
    [op_clean] ADMITS the three memo operations; the only extra demand is that the templates of
    a memoized bind contain no nested bind ([texp_nobind]; a nested bind built by a memoized
    bind's function would be a top-level bind created in the middle of a pass).  Everything
    else is as in C05.v: operations and templates name top-level nodes only, AddInput only
    towards an older node, ParallelStabilize only with plans that inject no fault into a bind
    function, nothing crashed or ran out of fuel, nothing rejected for a cycle / the height limit.

    What is different in the invariant: a memoized bind builds its right-hand sides in the scope
    it lives in itself (top level), so the built nodes carry no scope and outlive the bind's
    rebuilds; they are never invalidated, and a cached root may become the right-hand side
    again later.  Acyclicity of declarations is therefore stated with a GHOST owner map that
    is existentially quantified inside the invariant ([sc_acyclic]; Engine.v is unchanged):
    a top-level node built by the function of the memoized bind [b] is ordered as a node of the
    scope of [b], and every cached root is below the bind's main node in that order.

    [EngineInvM.Inv] implies [EngineWf.wfb] ([C05_memo_invariant_implies_wfb]), so the graph is
    structurally consistent at every boundary of a clean history with memoized binds
    ([C05_memo_wf_every_boundary]); both stabilizers are covered.  The variant also carries
    crash-freedom ([C05_memo_no_crash_step], [C05_memo_no_crash]; ParallelStabilize excepted as in
    C05.v, [C05_memo_par_crash_refuted]) and the C08 history theorems
    ([C08_memo_never_runs_after_invalidation], [C08_memo_swap_invalidates_old_generation] for
    plain binds; for memoized binds see Properties/C09_memo.v). *)
From incr Require Import Base Heap HeapSpec EngineDefs Engine EngineWf EngineLemmas EngineInvM EngineInvMProofs.

Theorem C05_memo_init : forall mh, (0 < mh)%nat -> Inv (init mh).
Proof. exact Inv_init. Qed.
Print Assumptions C05_memo_init.

Theorem C05_memo_invariant_implies_wfb : forall s, Inv s -> wfb s = true.
Proof. exact Inv_wfb. Qed.
Print Assumptions C05_memo_invariant_implies_wfb.

(** creating a memoized bind ([is_new] includes [NewBindMemo]) *)
Theorem C05_memo_step_new : forall s o s' e,
  Inv s -> op_ok s o = true -> op_clean s o = true -> is_new o = true -> step s o = Ok (s', e) -> Inv s'.
Proof. exact Inv_step_new. Qed.
Print Assumptions C05_memo_step_new.

(** purging an entry of / clearing the cache of a memoized bind *)
Theorem C05_memo_step_purge_clear : forall s o s' e,
  Inv s -> is_memo_op o = true -> step s o = Ok (s', e) -> Inv s'.
Proof. exact Inv_step_memo_op. Qed.
Print Assumptions C05_memo_step_purge_clear.

(** the recomputation of ANY bind's lhs-change node in the middle of a pass — memoized (cache hit:
    the cached root becomes the right-hand side again without running the function; cache miss:
    the function runs, builds top-level nodes and the root is cached) or not — preserves the
    mid-pass invariant [PInv], unless the re-parenting of the main node is rejected *)
Theorem C05_memo_bind_recompute : forall fuel p s b s' e,
  PInv s -> plan_ok s p = true -> nkind (nd s b) = KBindLhs b -> inGraph (nd s b) = true ->
  bindLhsStabilize fuel p s b = Ok (s', e) ->
  rejected_err e \/
  (PInv s' /\ plan_ok s' p = true /\ stabNum s' = stabNum s /\ kstable s s' /\
   (e = None \/ ((e = Some (EUser b) \/ e = Some (EPanic b)) /\ exists k, AFail k ∈ actions_of p b WFn))).
Proof. exact bind_full. Qed.
Print Assumptions C05_memo_bind_recompute.

Theorem C05_memo_bind_recompute_memoized : forall fuel p s b s' e,
  PInv s -> plan_ok s p = true -> nkind (nd s b) = KBindLhs b -> inGraph (nd s b) = true ->
  b_memo (bd s b) = true ->
  bindLhsStabilize fuel p s b = Ok (s', e) ->
  rejected_err e \/
  (PInv s' /\ plan_ok s' p = true /\ stabNum s' = stabNum s /\ kstable s s' /\
   (e = None \/ ((e = Some (EUser b) \/ e = Some (EPanic b)) /\ exists k, AFail k ∈ actions_of p b WFn))).
Proof. exact bind_full_memo. Qed.
Print Assumptions C05_memo_bind_recompute_memoized.

(** every operation, from ANY state satisfying the invariant *)
Theorem C05_memo_step : forall s o s' e,
  Inv s -> op_ok s o = true -> op_clean s o = true -> step s o = Ok (s', e) ->
  e <> Some ECycle -> e <> Some EHeightLimit -> Inv s'.
Proof. exact Inv_step. Qed.
Print Assumptions C05_memo_step.

(** whole histories *)
Theorem C05_memo_run_clean_from : forall s os s', Inv s -> run_clean s os = Some s' -> Inv s'.
Proof. exact Inv_run_clean_from. Qed.
Print Assumptions C05_memo_run_clean_from.

Theorem C05_memo_run_clean : forall mh os s, (0 < mh)%nat -> run_clean (init mh) os = Some s -> Inv s.
Proof. exact Inv_run_clean. Qed.
Print Assumptions C05_memo_run_clean.

Theorem C05_memo_wf_every_boundary : forall mh os s,
  (0 < mh)%nat -> run_clean (init mh) os = Some s -> wfb s = true.
Proof. exact wf_every_boundary. Qed.
Print Assumptions C05_memo_wf_every_boundary.

(** C06 and C10 are consequences of the invariant alone, so they hold at every boundary of a
    clean history with memoized binds as well *)
Theorem C06_memo_registered_iff_reachable : forall s n, Inv s -> (inGraph (nd s n) = true <-> reachable s n).
Proof. exact registered_iff_reachable. Qed.
Print Assumptions C06_memo_registered_iff_reachable.

Theorem C10_memo_registered_iff_last_necessary : forall s n,
  Inv s -> (inGraph (nd s n) = true <-> lastNU (log s) n = Some true).
Proof. exact registered_iff_last_necessary. Qed.
Print Assumptions C10_memo_registered_iff_last_necessary.

Theorem C10_memo_invalidated_iff_invalid : forall s n, Inv s -> (EvInval n ∈ log s <-> valid (nd s n) = false).
Proof. exact invalidated_iff_invalid. Qed.
Print Assumptions C10_memo_invalidated_iff_invalid.

(** no fault: a well-formed clean operation other than ParallelStabilize never crashes, memoized
    binds and the memo operations included, also when it is rejected half-way *)
Theorem C05_memo_no_crash_step : forall s o,
  Inv s -> op_ok s o = true -> op_clean s o = true -> is_parstabilize o = false ->
  forall c, step s o <> Crash c.
Proof. exact nc_step. Qed.
Print Assumptions C05_memo_no_crash_step.

Theorem C05_memo_no_crash : forall mh os s o,
  (0 < mh)%nat -> run_clean (init mh) os = Some s ->
  op_ok s o = true -> op_clean s o = true -> is_parstabilize o = false ->
  forall c, step s o <> Crash c.
Proof. exact run_no_crash. Qed.
Print Assumptions C05_memo_no_crash.

Theorem C05_memo_bind_recompute_no_crash : forall fuel p s b,
  PInv s -> plan_ok s p = true -> nkind (nd s b) = KBindLhs b -> inGraph (nd s b) = true ->
  forall c, bindLhsStabilize fuel p s b <> Crash c.
Proof. exact nc_bind. Qed.
Print Assumptions C05_memo_bind_recompute_no_crash.

Theorem C05_memo_par_crash_refuted : exists os s,
  run_clean (init 8) os = Some s /\ op_ok s (ParStabilize []) = true /\ op_clean s (ParStabilize []) = true /\
  step s (ParStabilize []) = Crash NilDeref.
Proof. exact par_crash_refuted. Qed.
Print Assumptions C05_memo_par_crash_refuted.

(** C08 over histories with memoized binds: nothing runs after its invalidation; the swap of a
    PLAIN bind invalidates the whole old generation (a memoized bind has no generation of its own:
    its right-hand sides are top-level nodes and are never invalidated, Properties/C09_memo.v) *)
Theorem C08_memo_never_runs_after_invalidation : forall mh os s l_after e l_before n,
  (0 < mh)%nat -> run_clean (init mh) os = Some s ->
  log s = l_after ++ e :: l_before -> ev_runs e = Some n -> EvInval n ∉ l_before.
Proof. exact history_never_runs_after_invalidation. Qed.
Print Assumptions C08_memo_never_runs_after_invalidation.

Theorem C08_memo_swap_invalidates_old_generation : forall fuel p s b s',
  PInv s -> plan_ok s p = true -> nkind (nd s b) = KBindLhs b -> inGraph (nd s b) = true ->
  b_memo (bd s b) = false ->
  bindLhsStabilize fuel p s b = Ok (s', None) ->
  exists x root l1 l2,
    log s' = l2 ++ EvBindFn b x root :: l1 ++ log s /\
    Forall (fun ev => ev_runs ev = None) l1 /\ Forall (fun ev => ev_runs ev = None) l2 /\
    (b_rhs (bd s b) <> None -> forall n, n ∈ b_rhsNodes (bd s b) -> EvInval n ∈ l2).
Proof. exact swap_log. Qed.
Print Assumptions C08_memo_swap_invalidates_old_generation.

(** the standing exclusion "observers on bind-scope nodes": observing a LIVE scope node and then
    swapping the bind leaves a registered, invalid, isolated node behind.  [wfb] accepts that
    state, [Inv] (clause registered => valid) does not — the exclusion is a limit of the
    invariant (lifting it needs the invalidation of NECESSARY nodes verified: unlinking inside
    [invalidateNode], a non-empty invalidation queue), no defect was found there *)
Theorem C05_memo_inner_observer_outside_invariant : exists s n,
  run_unrejected (init 16) h_inner = Some s /\ wfb s = true /\
  inGraph (nd s n) = true /\ valid (nd s n) = false /\ parents (nd s n) = [] /\ children (nd s n) = [] /\
  ~ Inv s.
Proof. exact inner_observer_outside_invariant. Qed.
Print Assumptions C05_memo_inner_observer_outside_invariant.

(** non-vacuity: a clean history with a memoized bind — cache misses, a cache hit, a purge, a
    clear, both stabilizers — runs to a well-formed state; the bind function ran 4 times in 5
    passes *)
Example C05_memo_clean_history : exists s,
  run_clean (init 16) h_memo = Some s /\ wfb s = true /\ bindfn_count s = 4%nat.
Proof. exact clean_history_with_memo. Qed.
Print Assumptions C05_memo_clean_history.

(** the cache hit is real: three passes with the values 1, 2, 1 run the function twice, and the
    third right-hand side is the node cached for the value 1 *)
Example C05_memo_cache_hit : exists s,
  run_clean (init 16) h_memo_hit = Some s /\ bindfn_count s = 2%nat /\
  b_rhs (bd s 2%nat) = Some 6%nat /\ b_cache (bd s 2%nat) = [(1, Some 6%nat); (2, Some 8%nat)].
Proof. exact memo_cache_hit. Qed.
Print Assumptions C05_memo_cache_hit.
