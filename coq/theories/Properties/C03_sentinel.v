(** C03 (clause (c), sentinels) — a watching Sentinel runs in every pass and, when it fires,
    wakes the node it watches exactly once; its watch edge stays consistent.

    This file holds only the property theorems; each is closed by [exact] of a lemma of
    SentinelProofs.v and followed by [Print Assumptions].

    Vocabulary (Sentinel.v).  A history [ops : list op] over [ONewVar v], [ONewMap f a],
    [ONewSentinel w], [OObserve n], [OUnobserve n], [OSetVar n v], [OUnwatch x],
    [OStabilize fires] is played from the empty graph [init] by [run c init ops]; nodes are
    named by creation index; [fires] lists the sentinels whose predicate returns true in that
    pass.  [head : cfg] is /repo at HEAD; the three switches of [cfg] turn off, one each, the
    repairs 640a5e6 (cfg_relink_on_return), 2d28149 (cfg_order_watch_edge) and 8b0f30c
    (cfg_start_attached).  For a sentinel [x]: [watched] is the node it watches ([None] after
    Unwatch), [lchild] / [lparent] are the two halves of the watch edge (the sentinel lists
    the node as a child / the node lists the sentinel as a parent), [reg] is registration
    with the graph, [queued] membership of the recompute heap.  [last_pass c ops fires] is
    the pass [OStabilize fires] performed after [ops], with its log: [runs] (Map function
    invocations with their argument) and [evals] (sentinel predicate evaluations).

    The model is compared with the library on generated histories, under Stabilize and under
    ParallelStabilize, by harness/cmd/sentineltrace and SentinelRun.v. *)
From incr Require Import Base Sentinel SentinelProofs.
Local Open Scope nat_scope.

(** 1. At every operation boundary of every history: a sentinel that still watches is
    registered at height 0 and the two halves of its watch edge agree; while the watched
    node is in the graph both halves are present, the node is strictly above the sentinel,
    and the sentinel is queued.  A sentinel that no longer watches (and every other node) has
    no half of a watch edge, and such a sentinel is neither registered nor queued. *)
Theorem C03_sentinel_watch_edge : forall ops x, watch_stmt head ops x.
Proof. exact watch_edge_invariant. Qed.
Print Assumptions C03_sentinel_watch_edge.

(** 2a. In every pass: a watching sentinel whose node is in the graph has its predicate
    evaluated exactly once; if it fires and the node is a Map, the Map's function runs exactly
    once in that pass.  (A Var is not woken: varIncr.Stale() is always false.) *)
Theorem C03_sentinel_wakes : forall ops fires x w, pass_stmt head ops fires x w.
Proof. exact sentinel_pass. Qed.
Print Assumptions C03_sentinel_wakes.

(** 2b. After any pass, operations that neither write a var nor observe anything (creating
    nodes and sentinels, unobserving, unwatching, passes in which no sentinel fires) leave
    nothing to compute: a pass in which no sentinel fires runs no Map function. *)
Theorem C03_sentinel_quiet_pass :
  forall ops fires1 qs, Forall quiet qs ->
    runs (snd (last_pass head (ops ++ [OStabilize fires1] ++ qs) [])) = [].
Proof. exact quiet_pass_runs_nothing. Qed.
Print Assumptions C03_sentinel_quiet_pass.

(** 3. After every pass, every node in the graph holds its from-scratch value (a var's current
    value pushed through the Map functions): sentinels, firing or not, do not change values.
    [C03_sentinel_values_defined] says every Var and Map has such a value. *)
Theorem C03_sentinel_values :
  forall ops fires m v,
    let l' := nodes (fst (last_pass head ops fires)) in
    reg (nd l' m) = true -> scratch l' m v -> val (nd l' m) = v.
Proof. exact values_after_pass. Qed.
Print Assumptions C03_sentinel_values.

Theorem C03_sentinel_values_defined :
  forall ops fires m,
    let l' := nodes (fst (last_pass head ops fires)) in
    isSent (nd l' m) = false ->
    exists v, scratch l' m v /\ (reg (nd l' m) = true -> val (nd l' m) = v).
Proof. exact values_defined. Qed.
Print Assumptions C03_sentinel_values_defined.

(** 4. Each repaired line is load-bearing: with one switch off a history violates statement 1
    (and, for 8b0f30c, statement 2a). *)
Theorem C03_sentinel_relink_refuted : ~ watch_stmt (Cfg false true true) hist_relink 2.
Proof. exact relink_refuted. Qed.
Print Assumptions C03_sentinel_relink_refuted.

Theorem C03_sentinel_order_refuted : ~ watch_stmt (Cfg true false true) hist_order 1.
Proof. exact order_refuted. Qed.
Print Assumptions C03_sentinel_order_refuted.

Theorem C03_sentinel_start_refuted : ~ watch_stmt (Cfg true true false) hist_start 2.
Proof. exact start_refuted. Qed.
Print Assumptions C03_sentinel_start_refuted.

Theorem C03_sentinel_start_pass_refuted : ~ pass_stmt (Cfg true true false) hist_start [2] 2 1.
Proof. exact start_pass_refuted. Qed.
Print Assumptions C03_sentinel_start_pass_refuted.
