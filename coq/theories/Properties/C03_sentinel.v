(** C03 (clause (c), sentinels) — a watching Sentinel runs in every pass and, when it fires,
    wakes the node it watches exactly once; its watch edge stays consistent.

    This file holds only the property theorems; each is closed by [exact] of a lemma of
    SentinelProofs.v and followed by [Print Assumptions].

    Vocabulary (Sentinel.v).  A history [ops : list op] over [ONewVar v], [ONewMap f a],
    [ONewSentinel w], [OObserve n], [OUnobserve n], [OSetVar n v], [OUnwatch x] (a no-op
    for a sentinel that no longer watches), [OStabilize fires] and [OStabilizeStopped fires
    ran failed panicked] (a pass stopped by failing predicates) is played from the empty graph [init] by [run c init ops]; nodes are
    named by creation index; [fires] lists the sentinels whose predicate returns true in that
    pass.  [head : cfg] is /repo at HEAD; the three switches of [cfg] turn off, one each, the
    repairs 640a5e6 (cfg_relink_on_return), 2d28149 (cfg_order_watch_edge) and 8b0f30c
    (cfg_start_attached); a fourth, cfg_requeue_panicked, turns off the requeue in
    recomputePanicked.  For a sentinel [x]: [watched] is the node it watches ([None] after
    Unwatch), [lchild] / [lparent] are the two halves of the watch edge (the sentinel lists
    the node as a child / the node lists the sentinel as a parent), [reg] is registration
    with the graph, [queued] membership of the recompute heap.  [last_pass c ops fires] is
    the pass [OStabilize fires] performed after [ops], with its log: [runs] (Map function
    invocations with their argument) and [evals] (sentinel predicate evaluations).

    [OStabilizeStopped fires ran failed panicked]: the predicates of the sentinels [failed]
    returned an error, those of [panicked] panicked, [ran] are the nodes recomputed before the
    pass stopped; every theorem below quantifies over histories that contain such passes,
    with arbitrary lists.  [last_stopped c ops fires ran failed panicked] is that pass
    performed after [ops], with its log.

    The model is compared with the library on generated histories, under Stabilize and under
    ParallelStabilize, by harness/cmd/sentineltrace and SentinelRun.v. *)
From incr Require Import Base Sentinel SentinelProofs.
Local Open Scope nat_scope.

(** 1. At every operation boundary of every history: a sentinel that still watches is
    registered at height 0 and the two halves of its watch edge agree; while the watched
    node is in the graph both halves are present, the node is strictly above the sentinel,
    and the sentinel is queued.  A sentinel that no longer watches (and every other node) has
    no half of a watch edge, and such a sentinel is neither registered nor queued. *)
Theorem C03_sentinel_watch_edge : forall ops x, watch_stmt head ops x.
Proof. exact watch_edge_invariant. Qed.
Print Assumptions C03_sentinel_watch_edge.

(** 2a. In every pass: a watching sentinel whose node is in the graph has its predicate
    evaluated exactly once; if it fires and the node is a Map, the Map's function runs exactly
    once in that pass.  (A Var is not woken: varIncr.Stale() is always false.) *)
Theorem C03_sentinel_wakes : forall ops fires x w, pass_stmt head ops fires x w.
Proof. exact sentinel_pass. Qed.
Print Assumptions C03_sentinel_wakes.

(** 2b. After any pass, operations that neither write a var nor observe anything (creating
    nodes and sentinels, unobserving, unwatching, passes in which no sentinel fires) leave
    nothing to compute: a pass in which no sentinel fires runs no Map function. *)
Theorem C03_sentinel_quiet_pass :
  forall ops fires1 qs, Forall quiet qs ->
    runs (snd (last_pass head (ops ++ [OStabilize fires1] ++ qs) [])) = [].
Proof. exact quiet_pass_runs_nothing. Qed.
Print Assumptions C03_sentinel_quiet_pass.

(** 3. After every pass, every node in the graph holds its from-scratch value (a var's current
    value pushed through the Map functions): sentinels, firing or not, do not change values.
    [C03_sentinel_values_defined] says every Var and Map has such a value. *)
Theorem C03_sentinel_values :
  forall ops fires m v,
    let l' := nodes (fst (last_pass head ops fires)) in
    reg (nd l' m) = true -> scratch l' m v -> val (nd l' m) = v.
Proof. exact values_after_pass. Qed.
Print Assumptions C03_sentinel_values.

Theorem C03_sentinel_values_defined :
  forall ops fires m,
    let l' := nodes (fst (last_pass head ops fires)) in
    isSent (nd l' m) = false ->
    exists v, scratch l' m v /\ (reg (nd l' m) = true -> val (nd l' m) = v).
Proof. exact values_defined. Qed.
Print Assumptions C03_sentinel_values_defined.

(** 4. Each repaired line is load-bearing: with one switch off a history violates statement 1
    (and, for 8b0f30c, statement 2a). *)
Theorem C03_sentinel_relink_refuted : ~ watch_stmt (Cfg false true true true) hist_relink 2.
Proof. exact relink_refuted. Qed.
Print Assumptions C03_sentinel_relink_refuted.

Theorem C03_sentinel_order_refuted : ~ watch_stmt (Cfg true false true true) hist_order 1.
Proof. exact order_refuted. Qed.
Print Assumptions C03_sentinel_order_refuted.

Theorem C03_sentinel_start_refuted : ~ watch_stmt (Cfg true true false true) hist_start 2.
Proof. exact start_refuted. Qed.
Print Assumptions C03_sentinel_start_refuted.

Theorem C03_sentinel_start_pass_refuted : ~ pass_stmt (Cfg true true false true) hist_start [2] 2 1.
Proof. exact start_pass_refuted. Qed.
Print Assumptions C03_sentinel_start_pass_refuted.

(** 5. Passes stopped by a failing (erroring or panicking) predicate.  Theorems 1-3 above
    already range over histories with such passes; these are the instances asked for.

    5a. After a stopped pass every watching sentinel whose node is in the graph is queued and
    its watch edge is intact (whatever ran, whichever predicates failed or panicked). *)
Theorem C03_sentinel_stopped_pass_requeues :
  forall ops fires ran failed panicked x w, stopped_stmt head ops fires ran failed panicked x w.
Proof. exact stopped_pass_requeues. Qed.
Print Assumptions C03_sentinel_stopped_pass_requeues.

(** without the line of recomputePanicked that puts the node back on the heap
    ([cfg_requeue_panicked] off) a panicking sentinel drops out of the heap: 5a fails *)
Theorem C03_sentinel_requeue_panicked_refuted :
  ~ stopped_stmt (Cfg true true true false) hist_panic [] [] [] [2] 2 1.
Proof. exact requeue_panicked_refuted. Qed.
Print Assumptions C03_sentinel_requeue_panicked_refuted.

(** 5b. A sentinel whose predicate was evaluated and failed in the stopped pass is queued
    after it. *)
Theorem C03_sentinel_failed_stays_queued :
  forall ops fires ran failed panicked x,
    let r := last_stopped head ops fires ran failed panicked in
    x ∈ failed ++ panicked -> x ∈ evals (snd r) -> queued (nd (nodes (fst r)) x) = true.
Proof. exact failed_sentinel_stays_queued. Qed.
Print Assumptions C03_sentinel_failed_stays_queued.

(** 5c. Only listed nodes run in a stopped pass: a Map function that runs belongs to [ran]. *)
Theorem C03_sentinel_stopped_pass_runs_listed :
  forall ops fires ran failed panicked m,
    m ∈ map fst (runs (snd (last_stopped head ops fires ran failed panicked))) -> m ∈ ran.
Proof. exact stopped_pass_runs_listed. Qed.
Print Assumptions C03_sentinel_stopped_pass_runs_listed.

(** 5d. The retry: the pass after a stopped pass evaluates every watching sentinel whose node
    is in the graph exactly once, wakes the Map of each one that fires exactly once, and
    leaves every node of the graph at its from-scratch value. *)
Theorem C03_sentinel_retry :
  forall ops fires ran failed panicked fires',
    let ops' := ops ++ [OStabilizeStopped fires ran failed panicked] in
    (forall x w, pass_stmt head ops' fires' x w) /\
    (forall m v, let l' := nodes (fst (last_pass head ops' fires')) in
                 reg (nd l' m) = true -> scratch l' m v -> val (nd l' m) = v).
Proof. exact retry_after_stopped_pass. Qed.
Print Assumptions C03_sentinel_retry.
