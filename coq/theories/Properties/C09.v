(** C09 — BindMemoized behaves like Bind: a reused right-hand side equals a fresh one.

    This file holds only the property theorems (closed by [exact]; [Print Assumptions] beneath).

    Model.  In Engine.v a memoized bind ([NewBindMemo], `incrutil.BindMemoized`) differs from a
    plain bind in one place: when its input takes a value whose right-hand side is in the cache,
    the cached root is linked again and the bind function does not run; a freshly built
    right-hand side is created in the scope the bind itself lives in (so that it outlives the
    bind's rebuilds) and is added to the cache.  [Spec.eval] deliberately does not look at the
    cache: from scratch, a memoized bind MEANS what the plain bind with the same function means.
    Observational equivalence with Bind is therefore: the engine's values agree with [Spec.eval]
    (C01's theorems, which hold for every state, memoized binds included), and [Spec.eval] is
    blind to memoisation (below).  That the engine keeps memoized graphs locally consistent is
    checked on every run by replaying the `memo` and exhaustive key-sequence streams on the model
    ([c01_hyp_trace]) and against the implementation. *)
From incr Require Import Base Heap HeapSpec EngineDefs Engine EngineWf Spec SpecProofs.

(** the from-scratch meaning of a program does not depend on which binds are memoized, nor on
    what their caches hold: switching memoisation on or off, purging or clearing a cache
    changes no value [eval] computes *)
Theorem C09_spec_ignores_memo : forall s b,
  (forall f fuel n, eval (updb s b (set b_memo f)) fuel n = eval s fuel n) /\
  (forall f fuel n, eval (updb s b (set b_cache f)) fuel n = eval s fuel n).
Proof. exact SpecProofs.C09_spec_ignores_memo. Qed.
Print Assumptions C09_spec_ignores_memo.

(** hence a locally consistent state shows every observer the value the same program WITHOUT
    memoisation denotes: C01's theorem composed with the lemma above *)
Theorem C09_memo_equals_plain_bind_meaning : forall s,
  wfb s = true -> closed s = true -> templates_ok s = true -> consistent s = true ->
  forall o n, obs s !! o = Some n ->
  exists fuel, forall fuel', (fuel <= fuel')%nat ->
    forall b, eval (updb s b (set b_memo (fun _ => false))) fuel' n = Some (valueOf s n).
Proof.
  exact (fun s Hw Hc Ht Hk o n Ho =>
    match C01_consistent_implies_spec_proof s Hw Hc Ht Hk o n Ho with
    | ex_intro _ fuel (conj _ H) =>
      ex_intro _ fuel (fun fuel' Hle b =>
        eq_trans (proj1 (SpecProofs.C09_spec_ignores_memo s b) (fun _ => false) fuel' n) (H fuel' Hle))
    end).
Qed.
Print Assumptions C09_memo_equals_plain_bind_meaning.

(** non-vacuity: a memoized bind driven through the key sequence 0,1,0,2,1 (cache hits on the
    third and fifth pass) with an outer input written in between reaches a state in which all
    four hypotheses hold, the observer reads the from-scratch value, and the cache was used *)
Definition memo_history : list op :=
  [NewVar 0 false; NewVar 3 false; NewMap (Aff 2 1) 1;
   NewBindMemo [TRet 7; TMap (Aff 3 2) (TOuter 2); TMap2 (Lin2 1 2 0) TX (TOuter 2)] 0;
   Observe 4; Stabilize [];
   SetVar 0 1; Stabilize []; SetVar 0 0; Stabilize []; SetVar 1 5; SetVar 0 2; Stabilize [];
   SetVar 0 1; Stabilize []].
Definition memo_state : state :=
  match run (init 256) memo_history with Ok s => s | _ => init 256 end.
Example C09_nonvacuous :
  wfb memo_state = true /\ closed memo_state = true /\ templates_ok memo_state = true /\
  consistent memo_state = true /\ observers_agree memo_state = true /\
  length (b_cache (bd memo_state 3)) = 3%nat /\ b_gen (bd memo_state 3) = 3%nat.
Proof. vm_compute. repeat split; reflexivity. Qed.
