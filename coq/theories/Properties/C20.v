(** C20 — ParallelStabilize honours the configured degree of parallelism.

    This file holds only the property theorems, each closed by [exact] of a lemma of
    BatchProofs.v with [Print Assumptions] beneath it.

    The model (Batch.v) is the transition system of [parallelBatch] for a height block of
    [w] nodes and parallelism [p]; a schedule is any list of step labels, so the theorems
    quantify over every interleaving.  Two variants: [Semaphore] (a channel slot is held
    for the whole duration of the node computation -- the discipline the option promises)
    and [Current] (parallel_batch.go as it is: the goroutine frees its slot BEFORE it runs
    the node computation).  Which variant the library implements is decided on every run by
    cmd/batchgate on the real code (coq/run/cases_C20.v, [M] against [Semaphore],
    [AsIs] against [Current]).  Partial: the Go scheduler is not modelled. *)
From incr Require Import Base Batch BatchProofs.
Local Open Scope nat_scope.

(** At most [p] node computations are in progress at every reachable state, for every
    width, every parallelism and every schedule. *)
Theorem C20_bound : forall (w p : nat) (sch : bschedule),
  running (bexec Semaphore w p sch) <= p /\ running (bexec Semaphore w p sch) <= w.
Proof. exact batch_bound. Qed.
Print Assumptions C20_bound.

(** the same for the high-water mark over a whole schedule *)
Theorem C20_bound_high_water : forall (w p : nat) (sch : bschedule),
  high_water Semaphore p (binit w) sch <= p.
Proof. exact batch_high_water_bound. Qed.
Print Assumptions C20_bound_high_water.

(** The bound is tight: some schedule has [min w p] computations in progress. *)
Theorem C20_bound_tight : forall w p : nat,
  exists sch, running (bexec Semaphore w p sch) = Nat.min w p.
Proof. exact batch_bound_tight. Qed.
Print Assumptions C20_bound_tight.

(** With a parallelism of one, node computations never overlap. *)
Corollary C20_p1_serial : forall (w : nat) (sch : bschedule),
  running (bexec Semaphore w 1 sch) <= 1 /\ high_water Semaphore 1 (binit w) sch <= 1.
Proof. exact batch_p1_serial. Qed.
Print Assumptions C20_p1_serial.

(** No deadlock (both variants): when no step is enabled, all [w] items are done; and each
    enabled step lowers a measure that starts at [4 * w], so every maximal schedule is
    finite and finishes the block. *)
Theorem C20_progress : forall (v : variant) (w p : nat) (sch : bschedule), 1 <= p ->
  stuck v p (bexec v w p sch) = true -> finished w (bexec v w p sch) = true.
Proof. exact batch_no_deadlock. Qed.
Print Assumptions C20_progress.

Theorem C20_terminates : forall v p s l, enabled v p s l = true -> measure (bstep v p s l) < measure s.
Proof. exact bstep_measure. Qed.
Print Assumptions C20_terminates.

(** The code as it is does NOT honour the option: for every width and every parallelism
    there is a schedule with all [w] computations in progress at once. *)
Theorem C20_current_refuted : forall w p : nat, 1 <= p ->
  exists sch, running (bexec Current w p sch) = w.
Proof. exact batch_current_refuted. Qed.
Print Assumptions C20_current_refuted.

Corollary C20_current_exceeds : forall w p : nat, 1 <= p -> p < w ->
  exists sch, p < running (bexec Current w p sch).
Proof. exact batch_current_exceeds. Qed.
Print Assumptions C20_current_exceeds.

(** What the gate harness must see when nobody finishes, per variant. *)
Theorem C20_predict_semaphore : forall w p, predict Semaphore w p = Nat.min w p.
Proof. exact predict_semaphore. Qed.
Print Assumptions C20_predict_semaphore.

Theorem C20_predict_current : forall w p, 1 <= p -> predict Current w p = w.
Proof. exact predict_current. Qed.
Print Assumptions C20_predict_current.
