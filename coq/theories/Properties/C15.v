(** C15 — time-driven nodes are a function of the clock alone and advancing never fails.

    This file holds only the property theorems; each is closed by [exact] of a lemma of
    ClockProofs.v and followed by [Print Assumptions].

    Vocabulary (Clock.v).  A configuration [cfg : list kind] lists the nodes in creation
    order: [KAt when], [KIntervals start every], [KStep initial steps], [KSnapshot input at
    before] and the vars [KVar v0] that snapshots read; [cfg_ok now0 cfg] says intervals
    are positive and start no later than the clock ([AtIntervals] reads the clock when it is
    created) and a snapshot's input is a var.  [run gd (init now0 cfg) ops] plays a sequence
    of [OAdvance t] (any t: jumps, equal times, rewinds), [OObserve n], [OUnobserve n],
    [OSetInput n v], [OStabilize] on the model of clock.go / step_function.go inside the part
    of graph.go these nodes use; the result is [Ok s], [Crash] (a Go run-time fault) or
    [OutOfFuel].  [gd = false] is SetStale as it was when this component was written
    (graph.go before the repair), [gd = true] is SetStale with the repair (nothing is done
    for a node that has no height, i.e. is not in the graph).  [isNecessary x] is the
    library's own notion (an observer, or a dependent that is itself necessary).

    The value laws hold for BOTH variants, for every operation sequence that does not
    fault — in particular, in the repaired variant, for nodes whose trigger passed while
    they were outside the graph.  [C15_advance_total] is the full "advancing never fails"
    for the repaired variant; [C15_advance_total_refuted] is its failure for the code as it
    was: advancing past the trigger of a never-observed node indexes heights[-1]. *)
From incr Require Import Base Clock ClockProofs.

(** Clock.Now() is the largest time advanced to (rewinds are ignored). *)
Theorem C15_now :
  forall gd cfg now0 ops s s',
    cfg_ok now0 cfg -> Inv cfg s -> run gd s ops = Ok s' ->
    Inv cfg s' /\ now s' = clock_after (now s) ops.
Proof. exact run_Inv. Qed.
Print Assumptions C15_now.

(** At(when): after any successful pass in which it is necessary, true iff now >= when. *)
Theorem C15_at :
  forall gd now0 cfg ops s n x when,
    cfg_ok now0 cfg ->
    run gd (init now0 cfg) (ops ++ [OStabilize]) = Ok s ->
    nodes s !! n = Some x -> kind_ x = KAt when -> isNecessary x = true ->
    value (own_ x) = b2z (when <=? now s) /\ now s = clock_after now0 ops.
Proof. exact at_correct. Qed.
Print Assumptions C15_at.

(** AtIntervals(every) created at [start]: floor((now - start) / every).  The clock never
    runs backwards, so [start <= now] and Go's truncating division of the (clamped) elapsed
    time is this floor. *)
Theorem C15_intervals :
  forall gd now0 cfg ops s n x start every,
    cfg_ok now0 cfg ->
    run gd (init now0 cfg) (ops ++ [OStabilize]) = Ok s ->
    nodes s !! n = Some x -> kind_ x = KIntervals start every -> isNecessary x = true ->
    value (own_ x) = (now s - start) / every /\ start <= now s /\ now s = clock_after now0 ops.
Proof. exact intervals_correct. Qed.
Print Assumptions C15_intervals.

(** StepFunction: the value of the last step at or before now, the initial value if none;
    [C15_step_closed_form] says what [step_closed] is: of two steps at the same time the
    later-listed wins. *)
Theorem C15_step :
  forall gd now0 cfg ops s n x initial steps,
    cfg_ok now0 cfg ->
    run gd (init now0 cfg) (ops ++ [OStabilize]) = Ok s ->
    nodes s !! n = Some x -> kind_ x = KStep initial steps -> isNecessary x = true ->
    value (own_ x) = step_closed initial steps (now s) /\ now s = clock_after now0 ops.
Proof. exact step_correct. Qed.
Print Assumptions C15_step.

Theorem C15_step_closed_form :
  forall steps now,
    match last_step steps now with
    | Some st => exists i, steps !! i = Some st /\ s_at st <= now /\
                 forall j st', steps !! j = Some st' -> s_at st' <= now ->
                   s_at st' < s_at st \/ (s_at st' = s_at st /\ (j <= i)%nat)
    | None => forall st, st ∈ steps -> now < s_at st
    end.
Proof. exact last_step_spec. Qed.
Print Assumptions C15_step_closed_form.

(** Snapshot: at every moment (not only after a pass) its value is [snapshot_closed], a
    function of the operations alone: [before] until the first pass at or after its time in
    which it is observed, from then on the value its input had in that pass. *)
Theorem C15_snapshot :
  forall gd now0 cfg ops s n x p at_ before v0,
    cfg_ok now0 cfg -> cfg !! p = Some (KVar v0) ->
    run gd (init now0 cfg) ops = Ok s ->
    nodes s !! n = Some x -> kind_ x = KSnapshot p at_ before ->
    value (own_ x) = snapshot_closed n p at_ before now0 v0 ops.
Proof. exact snapshot_correct. Qed.
Print Assumptions C15_snapshot.

(** Advance wakes no node whose trigger has not been reached: a node it marks has a
    trigger time at or before the time advanced to, and nodes it does not mark are left
    exactly as they were. *)
Theorem C15_no_early_wake :
  forall gd now0 cfg ops s t n x,
    cfg_ok now0 cfg -> run gd (init now0 cfg) ops = Ok s ->
    n ∈ due s t -> nodes s !! n = Some x ->
    exists tau, trigger_of (kind_ x) tau /\ tau <= t.
Proof. exact due_has_trigger. Qed.
Print Assumptions C15_no_early_wake.

Theorem C15_advance_only_due :
  forall gd s t s',
    Advance gd s t = Ok s' -> forall m, m ∉ due s t -> nodes s' !! m = nodes s !! m.
Proof. exact advance_only_due. Qed.
Print Assumptions C15_advance_only_due.

(** The repaired variant: every sequence of operations on existing nodes runs to the end —
    no fault ([Crash]), no pass that does not end ([OutOfFuel]) — whether or not the nodes
    Advance wakes are necessary, and the graph's invariant holds of the result ([Inv]: a
    node outside the graph has no height, stamps or heap entry; a node in the graph has a
    height, and is queued or holds the value of its closed form; necessary = in the graph;
    no stamp exceeds the pass number)... *)
Theorem C15_advance_total :
  forall cfg now0 ops,
    cfg_ok now0 cfg -> Forall (op_ok (length cfg)) ops ->
    exists s, run true (init now0 cfg) ops = Ok s /\ Inv cfg s.
Proof. exact advance_total_full. Qed.
Print Assumptions C15_advance_total.

(** ...in particular it never yields a fault... *)
Theorem C15_never_crashes :
  forall cfg now0 ops,
    cfg_ok now0 cfg -> Forall (op_ok (length cfg)) ops ->
    forall w, run true (init now0 cfg) ops <> Crash w.
Proof. exact advance_total. Qed.
Print Assumptions C15_never_crashes.

(** ...Clock.Advance itself always succeeds on a reachable state, for any jump, and keeps
    the invariant... *)
Theorem C15_advance_never_fails :
  forall cfg now0 ops s t,
    cfg_ok now0 cfg -> run true (init now0 cfg) ops = Ok s ->
    exists s', Advance true s t = Ok s' /\ Inv cfg s' /\ now s' = Z.max (now s) t.
Proof. exact advance_never_fails. Qed.
Print Assumptions C15_advance_never_fails.

(** ...and the same from any state satisfying the invariant. *)
Theorem C15_graph_not_corrupted :
  forall cfg now0 ops s,
    cfg_ok now0 cfg -> Inv cfg s -> Forall (op_ok (length cfg)) ops ->
    exists s', run true s ops = Ok s' /\ Inv cfg s'.
Proof. exact run_total. Qed.
Print Assumptions C15_graph_not_corrupted.

(** In both variants a pass always ends within the model's fuel (every node is recomputed
    at most once per pass), so [OutOfFuel] is not an outcome the value laws silently
    exclude. *)
Theorem C15_pass_ends :
  forall gd cfg now0 ops s,
    cfg_ok now0 cfg -> run gd (init now0 cfg) ops = Ok s -> exists s', Stabilize s = Ok s'.
Proof. exact pass_ends. Qed.
Print Assumptions C15_pass_ends.

(** The code as it was: the full statement fails.  One At node that is never observed, one
    Advance onto its time: SetStale adds it to the recompute heap at height -1. *)
Theorem C15_advance_total_refuted :
  exists (now0 : Z) (cfg : list kind) (ops : list op),
    cfg_ok now0 cfg /\ Forall (op_ok (length cfg)) ops /\
    run false (init now0 cfg) ops = Crash HeapNegativeHeight.
Proof. exact advance_total_refuted. Qed.
Print Assumptions C15_advance_total_refuted.
