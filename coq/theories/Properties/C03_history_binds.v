(** C03 along whole histories of programs WITH binds, from [init] (the fragment of
    Properties/C07_binds.v: swapping binds, nested templates, failing / panicking functions in
    earlier passes): in every plan-free pass no node runs twice in one period of necessity, every
    registered node one of whose inputs changed runs, nothing but Always nodes is left stale, and a
    node that stays registered and does not run keeps its value and stamps.  See
    Properties/C03_binds_swap.v for the reading of [evs] and the double-run example.
    Proofs: PassBindHistory.v. *)
From incr Require Import Base Heap HeapSpec EngineDefs Engine EngineRun EngineWf Spec EngineLemmas EngineLocal
     EngineInv EngineInvProofs PassInv PassProofs PassPlanProofs PassBind PassBindProofs PassBindSwap PassBindSwapProofs
     PassBindSwapStep PassBindOps PassBindSwapLog PassBindFault PassBindHistory.

Theorem C03_history_binds : forall mh os1 os2 sf,
  (0 < mh)%nat -> histF_run (init mh) (os1 ++ Stabilize [] :: os2) = Some sf ->
  exists s1 s2, histF_run (init mh) os1 = Some s1 /\ stabilize [] false s1 = Ok (s2, None) /\
    (forall evs pre e mid e' post n, log s2 = evs ++ log s1 -> evs = pre ++ e :: mid ++ e' :: post ->
       ev_node e = Some n -> ev_node e' = Some n -> EvNec n ∈ mid) /\
    (forall n p, inGraph (nd s2 n) = true -> p ∈ parents (nd s2 n) -> changedAt (nd s2 p) = stabNum s1 ->
       recomputedAt (nd s2 n) = stabNum s1) /\
    (forall n, inGraph (nd s2 n) = true -> isStale s2 n = true -> nkind (nd s2 n) = KAlways) /\
    (forall evs n, log s2 = evs ++ log s1 -> inGraph (nd s2 n) = true -> EvNec n ∉ evs ->
       recomputedAt (nd s2 n) <> stabNum s1 ->
       value (nd s2 n) = value (nd s1 n) /\ recomputedAt (nd s2 n) = recomputedAt (nd s1 n) /\
       changedAt (nd s2 n) = changedAt (nd s1 n)).
Proof. exact histF_once. Qed.
Print Assumptions C03_history_binds.

Example C03_history_binds_ex : exists sf, histF_run (init 64) (take 13 exF_ops ++ Stabilize [] :: []) = Some sf.
Proof. exact exF_runs. Qed.
