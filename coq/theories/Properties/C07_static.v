(** C07 (bind-free fragment) — a node function that returns an error: the pass returns that
    error, leaves the graph in a state that satisfies the structural invariant [wfb] and the
    quiescent value invariant [PassInv.ValInv] (the failed node and everything the pass had not
    reached yet are still queued; what it had reached is consistent), and a fault-free retry
    succeeds and converges: every registered node locally consistent, every observer reading the
    from-scratch value.

    [failPlan x] = [[(x, WFn, AFail FErr)]]: the function of node [x] returns an error whenever
    it is invoked in this pass.  Serial pass, state satisfying [wfb] and [ValInv].
    [panicPlan x] = [[(x, WFn, AFail FPanic)]]: the function of node [x] panics; the pass recovers
    the panic and returns [EPanic x]; same conclusions ([C07_static_panic_and_retry]).  After a
    recovered panic the node's [recomputedAt] stamp is reset to 0 while its [changedAt] stamp is
    kept, so [changedAt <= recomputedAt] is not an invariant; the stamp clause of [ValInv]
    ([PassInv.stamps_node]) says that both stamps lie between 0 and the pass counter (strictly
    below it between passes).
    Proofs: PassPlanProofs.v. *)
From incr Require Import Base Heap HeapSpec EngineDefs Engine EngineRun EngineWf Spec EngineLemmas EngineLocal
     EngineInv EngineInvProofs PassInv PassProofs PassPlanProofs PassPlanProofs2.

Theorem C07_static_error_and_retry : forall s x s' e,
  wfb s = true -> ValInv s -> stabilize (failPlan x) false s = Ok (s', Some e) ->
  e = EUser x /\ wfb s' = true /\ ValInv s' /\ inHeap s' x = true /\
  exists s'', stabilize [] false s' = Ok (s'', None) /\ consistent s'' = true /\
              observers_agree s'' = true /\ wfb s'' = true /\ ValInv s''.
Proof. exact pass_fail_retry. Qed.
Print Assumptions C07_static_error_and_retry.

(** the same for a node function that panics: the recovered panic is returned as [EPanic x] *)
Theorem C07_static_panic_and_retry : forall s x s' e,
  wfb s = true -> ValInv s -> stabilize (panicPlan x) false s = Ok (s', Some e) ->
  e = EPanic x /\ wfb s' = true /\ ValInv s' /\ inHeap s' x = true /\
  exists s'', stabilize [] false s' = Ok (s'', None) /\ consistent s'' = true /\
              observers_agree s'' = true /\ wfb s'' = true /\ ValInv s''.
Proof. exact pass_panic_retry. Qed.
Print Assumptions C07_static_panic_and_retry.

(** the step behind it: the failing recompute restores the node's stamp and puts it back into
    the queue; no node record changes, and the loop invariant holds again (with nothing "about to
    run"), so the nodes the pass had not reached are still owed and queued *)
Theorem C07_static_failed_recompute : forall h0 base fuel x s s' e imm,
  Struct s -> LInv h0 base s (Some x) -> mapKind (nkind (nd s x)) = true ->
  recomputeNodeSerial fuel (failPlan x) s x = Ok (s', e, imm) ->
  e = Some (EUser x) /\ imm = None /\ LInv h0 base s' None /\ chainPost s x s' /\ inHeap s' x = true /\
  (forall y, nd s' y = nd s y).
Proof. exact failed_step. Qed.
Print Assumptions C07_static_failed_recompute.

(** every other recompute of that pass is the plan-free one *)
Theorem C07_static_other_recomputes : forall fuel x s m,
  isBindKind (nkind (nd s m)) = false -> (m <> x \/ mapKind (nkind (nd s m)) = false) ->
  recomputeNodeSerial fuel (failPlan x) s m = recomputeNodeSerial fuel [] s m.
Proof. exact rns_failPlan_other. Qed.
Print Assumptions C07_static_other_recomputes.

(** a plan-free pass of a state satisfying the invariants cannot fail (used for the retry) *)
Theorem C07_static_plan_free_pass_total : forall s,
  wfb s = true -> ValInv s -> exists s', stabilize [] false s = Ok (s', None).
Proof. exact pass_total. Qed.
Print Assumptions C07_static_plan_free_pass_total.

(** Histories.  [static_run2 s os s']: every operation is of the fragment ([static_op2]: those of
    C01_static, passes whose plan only writes vars, passes in which one node function returns an
    error), well-formed, leaves [wfb] true, and has no error result other than the error of the
    failing function ([outcome_ok]).  Along such a history the quiescent invariant holds ... *)
Theorem C07_static_run_invariants : forall s os s',
  wfb s = true -> ValInv s -> static_run2 s os s' -> wfb s' = true /\ ValInv s'.
Proof. exact static_run2_inv. Qed.
Print Assumptions C07_static_run_invariants.

(** ... and whatever writes and failures the earlier passes had, every plan-free pass of the
    history succeeds and ends with every registered node locally consistent and every observer
    reading the from-scratch value of its node. *)
Theorem C07_static_history : forall s0 os1 os2 s',
  wfb s0 = true -> ValInv s0 -> static_run2 s0 (os1 ++ Stabilize [] :: os2) s' ->
  exists s1 s2, static_run2 s0 os1 s1 /\ step s1 (Stabilize []) = Ok (s2, None) /\
                consistent s2 = true /\ observers_agree s2 = true /\ wfb s2 = true /\ ValInv s2.
Proof. exact static_history2_consistent. Qed.
Print Assumptions C07_static_history.

Theorem C07_static_run2_b_sound : forall os s s', static_run2_b s os = Some s' -> static_run2 s os s'.
Proof. exact static_run2_b_sound. Qed.
Print Assumptions C07_static_run2_b_sound.

(** Non-vacuity of the history theorem: [ex_ops], then a pass in which node 4's function fails,
    a pass whose plan writes var 0, and a plan-free pass, from [init 64]. *)
Example C07_static_ex_history :
  wfb (init 64) = true /\ ValInv (init 64) /\
  exists s', static_run2 (init 64)
               (ex_ops ++ [Stabilize (failPlan 4); Stabilize [(9%nat, WFn, ASet 0%nat 8)]] ++ Stabilize [] :: []) s'.
Proof. split; [exact (proj1 init_hyps)|]. split; [exact (proj2 init_hyps)|exact ex_history2_runs]. Qed.

(** Non-vacuity: in [ex_pre] the function of node 4 (the bottom of the diamond) fails: nodes 3, 5,
    2 have run, 4 is re-queued with the Always node 7 and the MapN 9 it feeds. *)
Example C07_static_ex :
  wfb ex_pre = true /\ ValInv ex_pre /\ stabilize (failPlan 4) false ex_pre = Ok (ex_fpost, Some (EUser 4%nat)) /\
  rev (log ex_fpost) =
    [EvPassStart; EvInvoked 3 [3] 6; EvInvoked 5 [4; 4] 1; EvInvoked 2 [3] 4; EvFault 4 WFn FErr; EvErrH 4;
     EvPassEnd XUser; EvUpd 0; EvUpd 1; EvUpd 2; EvUpd 3; EvUpd 5] /\
  Heap.ids (heap ex_fpost) = [4; 7; 9]%nat.
Proof.
  split; [exact (proj1 ex_pre_hyps)|]. split; [exact (proj2 ex_pre_hyps)|]. split; [exact ex_fpass|].
  split; vm_compute; reflexivity.
Qed.

(** ** On top of the structural invariant [EngineInv.Inv] (C05): no per-step [wfb] hypothesis *)

(** the invariants at every boundary of a clean ([EngineInv.run_clean]) history of the fragment
    ([static_op2]) from the empty graph *)
Theorem C07_history_invariants : forall mh os s,
  (0 < mh)%nat -> forallb static_op2 os = true -> run_clean (init mh) os = Some s ->
  Inv s /\ binds s = ∅ /\ ValInv s /\ wfb s = true /\ ObsInv s.
Proof. exact frag_history_inv. Qed.
Print Assumptions C07_history_invariants.

(** whatever writes and failures ([EUser] / [EPanic] of a single failing or panicking node
    function) the earlier passes
    of such a history had, every plan-free pass succeeds and ends with every registered node
    locally consistent and every observer reading the from-scratch value of its node *)
Theorem C07_history_bindfree : forall mh os1 os2 s',
  (0 < mh)%nat -> forallb static_op2 (os1 ++ Stabilize [] :: os2) = true ->
  run_clean (init mh) (os1 ++ Stabilize [] :: os2) = Some s' ->
  exists s1 s2, run_clean (init mh) os1 = Some s1 /\ step s1 (Stabilize []) = Ok (s2, None) /\
                consistent s2 = true /\ observers_agree s2 = true /\ Inv s2 /\ ValInv s2.
Proof. exact history_planfree_pass. Qed.
Print Assumptions C07_history_bindfree.

(** what a pass of the fragment can return *)
Theorem C07_static_panicPlan_result : forall s x s' e,
  wfb s = true -> ValInv s -> stabilize (panicPlan x) false s = Ok (s', e) -> e = None \/ e = Some (EPanic x).
Proof. exact panicPlan_result. Qed.
Print Assumptions C07_static_panicPlan_result.

Theorem C07_static_failPlan_result : forall s x s' e,
  wfb s = true -> ValInv s -> stabilize (failPlan x) false s = Ok (s', e) -> e = None \/ e = Some (EUser x).
Proof. exact failPlan_result. Qed.
Print Assumptions C07_static_failPlan_result.

(** Non-vacuity: [ex_history2] ([ex_ops], a pass in which node 4's function fails, a pass whose
    plan writes var 0, a plan-free pass) is a clean history of the fragment. *)
Example C07_history_ex :
  forallb static_op2 ex_history2 = true /\ exists s', run_clean (init 64) ex_history2 = Some s'.
Proof. exact ex_history2_clean. Qed.

(** Non-vacuity for panics: in [ex_pre] the function of node 4 panics; and [ex_history3] ([ex_ops],
    a pass in which node 4's function panics, one in which it returns an error, a plan-free pass)
    is a clean history of the fragment. *)
Example C07_static_panic_ex :
  wfb ex_pre = true /\ ValInv ex_pre /\ stabilize (panicPlan 4) false ex_pre = Ok (ex_ppost, Some (EPanic 4%nat)) /\
  Heap.ids (heap ex_ppost) = [4; 7; 9]%nat.
Proof.
  split; [exact (proj1 ex_pre_hyps)|]. split; [exact (proj2 ex_pre_hyps)|]. split; [exact ex_ppass|].
  vm_compute; reflexivity.
Qed.

Example C07_history_panic_ex :
  forallb static_op2 ex_history3 = true /\ exists s', run_clean (init 64) ex_history3 = Some s'.
Proof. exact ex_history3_clean. Qed.
