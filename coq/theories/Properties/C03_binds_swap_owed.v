(** C03, "whoever ran was owed", for serial passes without a plan on graphs with binds, binds MAY
    swap: a node that is registered when the pass returns and ran in the pass ([recomputedAt] = the
    pass number) was queued when the pass began, or has an input stamped as changed in this pass,
    or became necessary in this pass ([EvNec n] among the events of the pass: the nodes a bind
    function created, and the nodes a swap linked again).  Together with Properties/C03_binds_swap.v
    ((a) events => ran, (b) once per period of necessity, (c) owed => ran, (d) untouched nodes keep
    value and stamps) this is C03 for swapping passes; not covered: nodes that ran and are out of
    the graph when the pass returns (their stamps are reset).
    Hypotheses as in Properties/C02_binds_swap.v.  Proofs: PassBindSwapOwed.v. *)
From incr Require Import Base Heap HeapSpec HeapProofs EngineDefs Engine EngineRun EngineWf Spec EngineLemmas EngineLocal
     EngineInv EngineInvProofs PassInv PassProofs PassPlanProofs PassBind PassBindProofs PassBindSwap
     PassBindSwapProofs PassBindSwapStep PassBindOps PassBindSwapLog PassBindFault PassBindWrites PassBindSwapHandlers
     PassBindSwapOwed PassBindHistoryW.

Theorem C03_binds_swap_ran_was_owed : forall s s',
  Inv s -> ValInvB s -> Tplain s -> stabilize [] false s = Ok (s', None) ->
  forall evs n, log s' = evs ++ log s -> inGraph (nd s' n) = true -> recomputedAt (nd s' n) = stabNum s ->
    n ∈ Heap.ids (heap s) \/ (exists p, p ∈ parents (nd s' n) /\ changedAt (nd s' p) = stabNum s) \/ EvNec n ∈ evs.
Proof. exact passS_ran_was_owed. Qed.
Print Assumptions C03_binds_swap_ran_was_owed.

(** the loop invariant behind it, across the recompute of a lhs-change node *)
Theorem C03_binds_swap_owed_bind_step : forall h0 s b s' evs new,
  PInv s -> PInv s' -> LInvC s (Some b) -> inGraph (nd s b) = true -> bfr s b s' ->
  log s' = new ++ log s -> LO h0 s (Some b) evs -> LO h0 s' None (new ++ evs).
Proof. exact LO_bind. Qed.
Print Assumptions C03_binds_swap_owed_bind_step.

(** C11, pass half, for swapping passes: a cutoff that held left the node's value and change stamp
    alone, and no node that is registered at the end ran on its account (each has another reason) *)
Theorem C11_cut_stops_propagation_binds_swap : forall s s',
  Inv s -> ValInvB s -> Tplain s -> stabilize [] false s = Ok (s', None) ->
  forall evs pre n old new post, log s' = evs ++ log s -> evs = pre ++ EvCutoff n old new true :: post ->
    EvNec n ∉ pre -> inGraph (nd s' n) = true ->
    changedAt (nd s' n) < stabNum s /\ value (nd s' n) = old /\
    forall c, inGraph (nd s' c) = true -> recomputedAt (nd s' c) = stabNum s ->
      c ∈ Heap.ids (heap s) \/ (exists p, p ∈ parents (nd s' c) /\ p <> n /\ changedAt (nd s' p) = stabNum s) \/ EvNec c ∈ evs.
Proof. exact passS_cut_stops. Qed.
Print Assumptions C11_cut_stops_propagation_binds_swap.

(** along whole histories from the empty graph (Properties/C12_binds.v's [histW_run]) *)
Theorem C03_history_binds_ran_was_owed : forall mh os1 os2 sf,
  (0 < mh)%nat -> histW_run (init mh) (os1 ++ Stabilize [] :: os2) = Some sf ->
  exists s1 s2, histW_run (init mh) os1 = Some s1 /\ stabilize [] false s1 = Ok (s2, None) /\
    forall evs n, log s2 = evs ++ log s1 -> inGraph (nd s2 n) = true -> recomputedAt (nd s2 n) = stabNum s1 ->
      n ∈ Heap.ids (heap s1) \/ (exists p, p ∈ parents (nd s2 n) /\ changedAt (nd s2 p) = stabNum s1) \/ EvNec n ∈ evs.
Proof. exact histW_ran_was_owed. Qed.
Print Assumptions C03_history_binds_ran_was_owed.

(** Non-vacuity: the double-run pass of Properties/C03_binds_swap.v ([exD_run]); node 1 is registered
    at the end and ran: its reason is that it became necessary again in the pass. *)
Example C03_binds_swap_owed_ex : exists s s', stabilize [] false s = Ok (s', None) /\
  Inv s /\ ValInvB s /\ Tplain s /\ inGraph (nd s' 1%nat) = true.
Proof. destruct exD_run as (s & s' & _ & H & I & V & T & _ & _ & Hg). exists s, s'. auto. Qed.
