(** C02 / C03 / C11 on graphs with binds for a FAULTED ParallelStabilize pass: the function (WFn) or
    cutoff function (WCut) of one node [x] returns an error or panics ([fplan x w k]).  (Any number of
    faults and var writes: C02_C03_binds_parallel_multi_fault.v, which subsumes this file.)

    [C02_C03_binds_parallel_faulted_pass]: such a pass that returns [Ok (s', e)] ([e] nothing -- the
    fault was not reached -- or the fault's error) satisfies [PassLogPF x e s s']:
    - [plq_last] (C02 / C11): the LAST run event (function invocation, bind function, cutoff) of the
      current period of necessity of a node that is registered and NOT QUEUED in [s'] -- runs before
      the fault and runs of the rest of the faulting node's height block alike -- reports the
      arguments / result / cutoff decision that [s'] holds, and the node carries the pass's stamp.
      (A node that is queued in [s'] is owed another run: the pass stopped before it, so nothing is
      claimed about its earlier run -- this covers the double run K10/K11 cut short by the fault;
      Always nodes, which are queued again when the pass ends, fall under the same exclusion.
      If [e] is nothing -- the fault was not reached -- the clause holds for EVERY registered node,
      Always nodes included.)
    - [plq_triple], [plq_pair] (C03, the exact parallel form): at most two run events of a node
      without an [EvNec] of it in between, and two only in a period of necessity that began in this
      pass.  The faulting recompute itself logs no run event, only [EvFault] / [EvErrH].
    - [plq_keep], [plq_changed]: a registered node without the pass's stamp and not registered anew
      keeps value and change stamp -- and, unless it is the faulting node (a panic resets that
      stamp to 0), its recompute stamp; a changed value carries the pass's change stamp.
    Proofs: ParBindFaultLog.v (invariant [LGP] of ParBindLog.v carried through the blocks of
    ParBindFault.v). *)
From incr Require Import Base Heap HeapSpec HeapProofs EngineDefs Engine EngineRun EngineWf Spec EngineLemmas EngineLocal
     EngineInv EngineInvProofs PassInv PassProofs PassPlanProofs PassBind PassBindProofs PassBindSwap PassBindSwapProofs
     PassBindSwapStep PassBindOps PassBindFault PassBindWrites PassBindTotal PassBindMixed PassBindFaultGen
     ParBind ParBindStep ParBindHistory ParBindWrites ParBindLog ParBindHandlers ParBindFault ParBindFaultLog SpecProofs.

Theorem C02_C03_binds_parallel_faulted_pass : forall x w k s s' e,
  Inv s -> ValInvB s -> Tplain s -> par_plan_clean s (fplan x w k) = true ->
  parStabilize (fplan x w k) s = Ok (s', e) -> rejected e = false -> PassLogPF x e s s'.
Proof. exact parF_log_any. Qed.
Print Assumptions C02_C03_binds_parallel_faulted_pass.

(** with var writes in the plan besides the one fault: the pass logs exactly the events of the pass
    under the fault alone, returns the same result, and its nodes differ from that pass's only in
    value / pending / setAt of written vars; what is queued there is queued here *)
Theorem C02_C03_binds_parallel_writes_and_fault : forall s p x w k s' e,
  Inv s -> ValInvB s -> Tplain s -> plan_ok s p = true -> par_plan_clean s p = true -> fo p = fplan x w k ->
  parStabilize p s = Ok (s', e) -> rejected e = false ->
  exists t', parStabilize (fplan x w k) s = Ok (t', e) /\ PassLogPF x e s t' /\ log s' = log t' /\
    (forall m, vps (nd t' m) (nd s' m)) /\ (forall m, inHeap t' m = true -> inHeap s' m = true).
Proof. exact parM_log. Qed.
Print Assumptions C02_C03_binds_parallel_writes_and_fault.

(** Non-vacuity: after [exPF_ops], the function of node 4 panics in a parallel pass: the bind 2 ran
    before ([EvBindFn 2 3 (Some 7)]), is not queued and carries the stamp; node 4 is queued, stamp 0 *)
Example C02_C03_binds_parallel_faults_ex :
  match histP_run (init 64) exPF_ops with
  | Some s =>
    par_plan_clean s (panPlan 4%nat WFn) &&
    match parStabilize (panPlan 4%nat WFn) s with
    | Ok (s1, Some (EPanic 4%nat)) =>
      bool_decide (take 13 (log s1) =
        [EvUpd 7; EvUpd 3; EvUpd 2; EvUpd 0; EvPassEnd XPanic; EvErrH 4; EvFault 4 WFn FPanic; EvInval 6;
         EvUnnec 1; EvUnnec 6; EvNec 7; EvBindFn 2 3 (Some 7%nat); EvPassStart]) &&
      bool_decide (drop 13 (log s1) = log s) &&
      negb (inHeap s1 2%nat) && (recomputedAt (nd s1 2%nat) =? stabNum s) &&
      inHeap s1 4%nat && (recomputedAt (nd s1 4%nat) =? 0)
    | _ => false
    end
  | None => false
  end = true.
Proof. exact exPFL_panic. Qed.
