(** C13 on graphs with binds: the update handlers at the end of a ParallelStabilize pass under a plan
    with ANY NUMBER of faults (functions of Map-like nodes, cutoff functions; errors and panics;
    several nodes of one height block may fault in one pass).

    [C13_binds_parallel_any_faults]: the log of such a pass is
    [EvPassStart], pass events, [EvPassEnd (classify e)], handler events [H]; [H] has no
    duplicates; [EvUpd n] is in [H] iff [n] is registered when the pass returns and carries the
    pass's change stamp -- the nodes that changed before the pass stopped, faulted pass or not --;
    [EvObsUpd o v] is in [H] iff observer [o] observes such a node, [v] its value.  (As in the
    serial case the model -- like the library -- DOES run the update handlers of a failed pass.)
    Proofs: ParBindMultiFaultParLog.v (instance [X := HInv] of the block induction of
    ParBindMultiFaultPar.v). *)
From incr Require Import Base Heap HeapSpec HeapProofs EngineDefs Engine EngineRun EngineWf Spec EngineLemmas EngineLocal
     EngineInv EngineInvProofs PassInv PassProofs PassPlanProofs PassBind PassBindProofs PassBindSwap PassBindSwapProofs
     PassBindSwapStep PassBindOps PassBindFault PassBindWrites PassBindTotal PassBindMixed PassBindFaultGen
     ParBind ParBindStep ParBindHistory ParBindWrites ParBindFault PassBindMultiFault ParBindEverything
     ParBindMultiFaultPar ParBindMultiFaultParLog SpecProofs.

Theorem C13_binds_parallel_any_faults : forall s q s' e,
  nowrites q -> Inv s -> ValInvB s -> Tplain s -> plan_ok s q = true -> par_plan_clean s q = true ->
  parStabilize q s = Ok (s', e) -> rejected e = false ->
  exists L H,
    rev (log s') = rev (log s) ++ [EvPassStart] ++ L ++ [EvPassEnd (classify e)] ++ H /\
    Forall passEv L /\ Forall EngineLocal.isHandlerEv H /\ NoDup H /\
    (forall n, EvUpd n ∈ H <-> inGraph (nd s' n) = true /\ changedAt (nd s' n) = stabNum s) /\
    (forall o v, EvObsUpd o v ∈ H <->
       exists n, obs s' !! o = Some n /\ changedAt (nd s' n) = stabNum s /\ v = valueOf s' n).
Proof. exact parQ_handlers. Qed.
Print Assumptions C13_binds_parallel_any_faults.

(** with var writes in the plan as well: the log, and so the handler events, are those of the pass
    under the faults of the plan alone ([t'], same result [e]); the deferred writes are applied
    after the handlers ran and touch neither [inGraph] nor [changedAt], so the handler set reads the
    same on [s']; an observer's event carries the value its node held when the computations ended
    ([valueOf t']), not a deferred write *)
Theorem C13_binds_parallel_any_plan : forall s p s' e,
  Inv s -> ValInvB s -> Tplain s -> plan_ok s p = true -> par_plan_clean s p = true ->
  parStabilize p s = Ok (s', e) -> rejected e = false ->
  exists t' L H,
    parStabilize (fo p) s = Ok (t', e) /\
    rev (log s') = rev (log s) ++ [EvPassStart] ++ L ++ [EvPassEnd (classify e)] ++ H /\
    Forall passEv L /\ Forall EngineLocal.isHandlerEv H /\ NoDup H /\
    (forall n, EvUpd n ∈ H <-> inGraph (nd s' n) = true /\ changedAt (nd s' n) = stabNum s) /\
    (forall o v, EvObsUpd o v ∈ H <->
       exists n, obs s' !! o = Some n /\ changedAt (nd s' n) = stabNum s /\ v = valueOf t' n).
Proof. exact parA_handlers. Qed.
Print Assumptions C13_binds_parallel_any_plan.

(** Non-vacuity: the faults of [exA_plan] after the first eleven operations of [exA_ops]: nodes 2 and
    3 fault in one block after the bind 4 swapped; handlers [EvUpd 0; EvUpd 1; EvUpd 4] (the two set
    vars and the bind's lhs-change node) = the registered nodes with the pass's change stamp *)
Example C13_binds_parallel_multi_fault_ex :
  match histA_run (init 64) (take 11 exA_ops) with
  | Some s =>
    op_ok s (ParStabilize (fo exA_plan)) && op_clean s (ParStabilize (fo exA_plan)) &&
    match parStabilize (fo exA_plan) s with
    | Ok (s1, Some (EUser 2%nat)) =>
      bool_decide (take 13 (log s1) =
        [EvUpd 4; EvUpd 1; EvUpd 0; EvPassEnd XUser; EvErrH 3; EvFault 3 WFn FPanic; EvErrH 2; EvFault 2 WFn FErr;
         EvInval 9; EvUnnec 9; EvNec 10; EvBindFn 4 3 (Some 10%nat); EvPassStart]) &&
      bool_decide (drop 13 (log s1) = log s) &&
      bool_decide (filter (fun n => inGraph (nd s1 n) && (changedAt (nd s1 n) =? stabNum s)) (seq 0 (next s1)) = [0; 1; 4]%nat) &&
      negb (inHeap s1 4%nat) && (recomputedAt (nd s1 4%nat) =? stabNum s) && inHeap s1 2%nat && inHeap s1 3%nat
    | _ => false
    end
  | None => false
  end = true.
Proof. exact exAL_results. Qed.
