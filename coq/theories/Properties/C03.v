(** C03 — Only necessary nodes with a changed input recompute, at most once per pass.

    FUNCTION-LEVEL theorems about the engine model, proved in EngineLocal.v.  Statements only,
    closed by [exact]; [Example]s by [vm_compute] on states reached by [Engine.run (init 256) ...].

    Vocabulary (EngineLocal.v): [passEpilogue s evs] = [s] with [evs] and then the handler events
    logged, the handler set emptied and the pass number advanced; [hev s k] = the handler event of
    key [k]; [successTail s n] = the success path of [recomputeNodeSerial] after [stabilizeNode]
    (see [C13_recomputeNodeSerial_unfold]). *)
From incr Require Import Base Heap HeapSpec EngineDefs Engine EngineWf EngineLocal.

(** ** 1. A pass over an empty heap runs nothing *)
Theorem C03_idle_pass_runs_nothing : forall p c s,
  status s = 0 -> Heap.cnt (heap s) <= 0 -> setDuring s = [] -> setRemoved s = [] ->
  stabilize p c s = Ok (passEpilogue s [EvPassEnd XOk; EvPassStart], None).
Proof. exact C03_idle_pass_runs_nothing. Qed.
Print Assumptions C03_idle_pass_runs_nothing.

(* without assuming the deferred lists empty: still no error, and exactly the two brackets
   followed by the handler events of [handlers s] (which is [[]] in a well-formed state) *)
Theorem C03_idle_pass_events : forall p c s s' e,
  status s = 0 -> ids_below s -> plan_ok s p = true ->
  Forall (fun v => isVar s v = true) (setDuring s ++ setRemoved s) ->
  Heap.cnt (heap s) <= 0 -> stabilize p c s = Ok (s', e) ->
  e = None /\ rev (log s') = rev (log s) ++ [EvPassStart; EvPassEnd XOk] ++ map (hev s) (handlers s).
Proof. exact C03_idle_pass_events. Qed.
Print Assumptions C03_idle_pass_events.

Theorem C03_wfb_transients : forall s, wfb s = true ->
  status s = 0 /\ setDuring s = [] /\ setRemoved s = [] /\ handlers s = [] /\ invq s = [].
Proof. exact wfb_transients. Qed.
Print Assumptions C03_wfb_transients.

Example C03_ex_idle :
  let s := reach ex12 in
  wfb s = true /\ Heap.cnt (heap s) = 0 /\
  match stabilize [(1%nat, WFn, AFail FPanic)] false (s <| log := [] |>) with
  | Ok (s', e) => e = None /\ rev (log s') = [EvPassStart; EvPassEnd XOk] /\ nodes s' = nodes s
  | _ => False end.
Proof. vm_compute. repeat split. Qed.

(** ** 2. The exact condition under which a dependent is queued (both directions) *)
Theorem C03_child_queued_only_if_owed : forall s c,
  shouldRecomputeChild s c = true <->
  inHeap s c = false /\ isNecessary (nd s c) = true /\ valid (nd s c) = true /\
  ((hasStaler (nkind (nd s c)) = false /\ recomputedAt (nd s c) < stabNum s) \/ isStale s c = true).
Proof. exact C03_child_queued_only_if_owed. Qed.
Print Assumptions C03_child_queued_only_if_owed.

Example C03_ex_owed :
  let s := reach (ex12 ++ [SetVar 0%nat 4]) <| status := 1 |> in
  shouldRecomputeChild s 1%nat = true /\      (* necessary, valid, not queued, not yet run in this pass *)
  match recomputeNodeSerial 10 [] s 1%nat with  (* once it has run in this pass: no longer *)
  | Ok (s', _, _) => shouldRecomputeChild s' 1%nat = false
  | _ => False end /\
  shouldRecomputeChild (reach [NewVar 3 false; NewMap (Aff 1 1) 0%nat]) 1%nat = false. (* unnecessary: never *)
Proof. vm_compute. repeat split. Qed.

(** ** 3. Every non-failing recompute stamps the node with the pass number.
    PARTIAL.  Full statement: [recomputeNodeSerial fuel p s n = Ok (s', None, imm) ->
    is_Some (nodes s !! n) -> recomputedAt (nd s' n) = stabNum s] for EVERY kind of node.
    Proved for every kind but a bind's lhs-change node: its stabilize step relinks and tears down
    parts of the graph, and in an arbitrary (ill-formed) state that can reach the node itself;
    the statement for [KBindLhs] needs the graph invariant and belongs with the whole-history
    theorems.  The error half is [C07_failed_node_stays_scheduled] (all kinds). *)
Theorem C03_recompute_stamps_partial : forall fuel p s n s' imm,
  recomputeNodeSerial fuel p s n = Ok (s', None, imm) ->
  is_Some (nodes s !! n) -> (forall b, nkind (nd s n) <> KBindLhs b) ->
  recomputedAt (nd s' n) = stabNum s /\ stabNum s' = stabNum s.
Proof. exact C03_recompute_stamps_partial. Qed.
Print Assumptions C03_recompute_stamps_partial.

Theorem C03_failed_recompute_restores_stamp : forall fuel p s n s' e imm,
  recomputeNodeSerial fuel p s n = Ok (s', Some e, imm) -> (forall m, e <> EPanic m) ->
  is_Some (nodes s !! n) ->
  inHeap s' n = true /\ recomputedAt (nd s' n) = recomputedAt (nd s n) /\ imm = None.
Proof. exact C07_failed_node_stays_scheduled. Qed.
Print Assumptions C03_failed_recompute_restores_stamp.

Example C03_ex_stamp :
  let s := reach (ex12 ++ [SetVar 0%nat 4]) <| status := 1 |> in
  stabNum s = 2 /\ recomputedAt (nd s 1%nat) = 1 /\
  match recomputeNodeSerial 10 [] s 1%nat with
  | Ok (s', e, imm) => e = None /\ recomputedAt (nd s' 1%nat) = 2 /\ value (nd s' 1%nat) = 5
  | _ => False end.
Proof. vm_compute. repeat split. Qed.

(** ** 4. What the pass loop recomputes: the node the heap hands out, which was queued; a chain
       continues only into a dependent that was owed a recompute and passed
       [canRecomputeImmediately]; and no owed dependent is left behind *)
Theorem C03_popped_is_queued : forall fuel p s always r,
  passLoop (S fuel) p s always = Ok r -> 0 < Heap.cnt (heap s) ->
  exists n w, Heap.removeMin (heap s) = Some (n, w) /\ n ∈ Heap.ids (heap s) /\
    (HeapSpec.inv (heap s) -> inHeap s n = true) /\
    let always' := if isAlways (nkind (nd s n)) then always ++ [n] else always in
    exists s1 e1 at1, recomputeChain fuel p (s <| heap := w |>) n = Ok (s1, e1, at1) /\
      match e1 with
      | Some _ => r = (s1, e1, at1, always')
      | None => passLoop fuel p s1 always' = Ok r
      end.
Proof. exact C03_popped_is_queued. Qed.
Print Assumptions C03_popped_is_queued.

Theorem C03_chain_step : forall fuel p s n r,
  recomputeChain (S fuel) p s n = Ok r ->
  exists s1 e1 imm, recomputeNodeSerial fuel p s n = Ok (s1, e1, imm) /\
    match e1, imm with
    | None, Some c =>
      c ∈ children (nd s1 n) /\ shouldRecomputeChild s1 c = true /\
      canRecomputeImmediately s1 n c = true /\ recomputeChain fuel p s1 c = Ok r
    | _, _ => r = (s1, e1, n)
    end.
Proof. exact C03_chain_step. Qed.
Print Assumptions C03_chain_step.

Theorem C03_immediate_child_is_owed : forall fuel p s n s' e c,
  recomputeNodeSerial fuel p s n = Ok (s', e, Some c) ->
  e = None /\ c ∈ children (nd s' n) /\ shouldRecomputeChild s' c = true /\
  canRecomputeImmediately s' n c = true.
Proof. exact C03_immediate_child_is_owed. Qed.
Print Assumptions C03_immediate_child_is_owed.

Theorem C03_no_child_missed : forall s n s' e imm,
  successTail s n = Ok (s', e, imm) ->
  forall c, c ∈ children (nd s' n) -> shouldRecomputeChild s' c = true -> imm = Some c.
Proof. exact C03_no_child_missed. Qed.
Print Assumptions C03_no_child_missed.

(* the var 0 is recomputed as the popped node; its only dependent 1 is handed back at once *)
Example C03_ex_chain :
  let s := reach (ex12 ++ [SetVar 0%nat 4]) <| status := 1 |> in
  Heap.ids (heap s) = [0%nat] /\
  match recomputeNodeSerial 10 [] s 0%nat with
  | Ok (s', e, imm) => e = None /\ imm = Some 1%nat /\ inHeap s' 1%nat = false
  | _ => False end.
Proof. vm_compute. repeat split. Qed.
