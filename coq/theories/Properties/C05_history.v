(** C05 (and the value invariant) at every boundary of a history of the bind-free fragment (proofs: StaticHistory.v on top of EngineInv). *)
From incr Require Import Base Heap HeapSpec EngineDefs Engine EngineRun EngineWf Spec EngineInv PassInv PassProofs
     Par ParProofs ParSerial StaticHistory.

Theorem C05_history_bindfree : forall mh os s,
  (0 < mh)%nat -> hist_run (init mh) os = Some s -> wfb s = true /\ ValInv s /\ Inv s.
Proof. exact history_invariants. Qed.
Print Assumptions C05_history_bindfree.

