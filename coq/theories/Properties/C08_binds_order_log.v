(** C08, the ordering half, as a statement about the LOG of a serial pass (plan-free), pairing exactly
    with the statement refuted for ParallelStabilize in C08_binds_order_parallel.v.

    [C08_binds_order_log]: in the events of a plan-free serial pass from a state with [Inv], [ValInvB],
    [Tplain]: between a function or cutoff event [e] of a node [n] created by bind [a]
    ([sub s' n a]: [scope n = Some a], or through nested binds; the statement refuted for
    ParallelStabilize is the special case [scope n = Some a]) and a LATER run of [a]'s bind function ([EvBindFn a _ _], the swap that
    replaces [n]'s generation) there is an [EvNec n] or an [EvUnnec n]: the node left the graph, or
    came back, in between -- it did not run in the period of necessity in which its bind swapped.
    (The log is most recent first: [evs = pre ++ EvBindFn a x root :: mid ++ e :: post].)
    [C08_binds_order_call]: the same at every recompute of a lhs-change node, in any state of a
    pass satisfying the pass-order invariant [OD] (PassBindOrder.v); [C08_binds_run_then_gone]: the
    lifecycle half -- a run event of a node that is not registered now is followed by an [EvNec] /
    [EvUnnec] of it (from [log_ok] and "registered iff the last lifecycle event is necessary").
    Proofs: PassBindOrderLog.v ([LO], a log invariant threaded through chain and loop; the events of
    a swap are [l2 ++ EvBindFn a x root :: l1] with nothing run in [l1], [l2]: EngineInvProofs.bind_full). *)
From incr Require Import Base Heap HeapSpec HeapProofs EngineDefs Engine EngineRun EngineWf Spec EngineLemmas EngineLocal
     EngineInv EngineInvProofs PassInv PassProofs PassPlanProofs PassBind PassBindProofs PassBindSwap PassBindSwapProofs
     PassBindSwapStep PassBindOps PassBindSwapLog PassBindOrder PassBindOrderLog SpecProofs.

Theorem C08_binds_order_log : forall s s',
  Inv s -> ValInvB s -> Tplain s -> stabilize [] false s = Ok (s', None) ->
  forall evs pre x root a mid e post n, log s' = evs ++ log s ->
    evs = pre ++ EvBindFn a x root :: mid ++ e :: post ->
    ev_node e = Some n -> sub s' n a -> EvNec n ∈ mid \/ EvUnnec n ∈ mid.
Proof. exact pass_order_log. Qed.
Print Assumptions C08_binds_order_log.

Theorem C08_binds_order_call : forall s0 base s a,
  PInv s -> OD s (Some a) -> LGx s0 base s ->
  nkind (nd s a) = KBindLhs a ->
  forall evs pre e post n, log s = evs ++ base -> evs = pre ++ e :: post -> ev_node e = Some n ->
    sub s n a -> EvNec n ∈ pre \/ EvUnnec n ∈ pre.
Proof. exact QOrd2_of. Qed.
Print Assumptions C08_binds_order_call.

Theorem C08_binds_run_then_gone : forall s pre e post n,
  PInv s -> log s = pre ++ e :: post -> ev_node e = Some n -> inGraph (nd s n) = false ->
  EvNec n ∈ pre \/ EvUnnec n ∈ pre.
Proof. exact run_then_gone. Qed.
Print Assumptions C08_binds_run_then_gone.

(** Non-vacuity: the serial pass on the pre-state of the K10-facet witness [k13] of
    C08_binds_order_parallel.v has the pattern with a non-empty escape: node 15 (scope 6) runs, then
    [EvUnnec 15] / [EvNec 15] (A drops T, B links it again), then [EvBindFn 6]; see
    [C08_binds_order_parallel_serial_ex].  The F25 shape [exO_ops] (C08_binds_order.v) has the swap
    with no earlier event of the replaced node at all. *)
Example C08_binds_order_log_ex :
  match histB_run (init 64) exO_ops with
  | Some s =>
    match stabilize [] false s with
    | Ok (s', None) =>
      let evs := take (length (log s') - length (log s)) (log s') in
      bool_decide (log s' = evs ++ log s) && bool_decide (scope (nd s' 6%nat) = Some 3%nat) &&
      bool_decide (EvBindFn 3 1 (Some 7%nat) ∈ evs) &&
      forallb (fun e => negb (bool_decide (ev_node e = Some 6%nat))) evs
    | _ => false
    end
  | None => false
  end = true.
Proof. vm_compute. reflexivity. Qed.
