(** C02 — every function invocation sees the final value of each of its inputs.

    Statement for the BIND-FREE fragment of the engine model (Var/VarEqual, Return, Map, Map2 --
    duplicated inputs included --, MapN with AddInput/RemoveInput, Cutoff, Always; observe /
    unobserve; Set/Update between passes), serial pass without a fault/side-effect plan.
    Hypotheses: the structural invariant [wfb] (C05) and the quiescent value invariant
    [PassInv.ValInv] (which contains [BF]: no bind was ever created).  Proofs: PassProofs.v. *)
From incr Require Import Base Heap HeapSpec EngineDefs Engine EngineRun EngineWf Spec PassInv PassProofs.

(** For every [EvInvoked n args r] among the events the pass added: [args] are the values the
    declared inputs of [n] hold when the pass returns (so no input changed after [n]'s function
    ran), [r] is the value [n] holds then, and [n] was recomputed in this pass. *)
Theorem C02_args_are_final_static : forall s s',
  wfb s = true -> ValInv s -> stabilize [] false s = Ok (s', None) ->
  forall evs n args r, log s' = evs ++ log s -> EvInvoked n args r ∈ evs ->
    args = map (valueOf s') (decl (nd s' n)) /\ r = value (nd s' n) /\
    recomputedAt (nd s' n) = stabNum s.
Proof. exact pass_args_final. Qed.
Print Assumptions C02_args_are_final_static.

(** The same through [Engine.step] on a history operation. *)
Theorem C02_args_are_final_static_step : forall s s',
  wfb s = true -> ValInv s -> step s (Stabilize []) = Ok (s', None) ->
  forall evs n args r, log s' = evs ++ log s -> EvInvoked n args r ∈ evs ->
    args = map (valueOf s') (decl (nd s' n)) /\ r = value (nd s' n).
Proof. exact pass_args_final_step. Qed.
Print Assumptions C02_args_are_final_static_step.

(** The loop invariant behind it ([PassInv.LInv], clauses B and M): when [recomputeNodeSerial]
    is about to run on [m], nothing still owed (queued, or [m] itself) reaches a node that has
    already run in this pass, and no queued node is an ancestor of [m] -- so the inputs of [m]
    are final.  One call of [recomputeNodeSerial] preserves the invariant and cannot fail. *)
Theorem C02_step_preserves_invariant : forall h0 base fuel s m s' e imm,
  Struct s -> LInv h0 base s (Some m) ->
  recomputeNodeSerial fuel [] s m = Ok (s', e, imm) ->
  e = None /\ LInv h0 base s' imm.
Proof. exact rns_preserves_LInv. Qed.
Print Assumptions C02_step_preserves_invariant.

(** The invariant holds when the pass begins. *)
Theorem C02_invariant_at_start : forall s, wfb s = true -> ValInv s ->
  LInv (Heap.ids (heap s)) (EvPassStart :: log s) (passStart s) None.
Proof. exact LInv_start. Qed.
Print Assumptions C02_invariant_at_start.

(** The boolean checker of the quiescent invariant is sound (used to discharge [ValInv] on
    concrete states, and evaluated along replayed histories by [PassInv.vi_trace]). *)
Theorem C02_valinv_b_sound : forall s, valinv_b s = true -> ValInv s.
Proof. exact valinv_b_sound. Qed.
Print Assumptions C02_valinv_b_sound.

(** Non-vacuity: a history with a diamond, a duplicated input, a cutoff and an Always node;
    after two writes the hypotheses hold, the pass succeeds and invokes five functions. *)
Example C02_ex_hyps :
  wfb ex_pre = true /\ ValInv ex_pre /\ stabilize [] false ex_pre = Ok (ex_post, None) /\
  rev (log ex_post) =
    [EvPassStart; EvInvoked 3 [3] 6; EvInvoked 5 [4; 4] 1; EvInvoked 2 [3] 4; EvInvoked 4 [4; 6] 10;
     EvCutoff 6 0 10 true; EvInvoked 8 [0] 0; EvInvoked 9 [1; 0; 1] 2; EvPassEnd XOk;
     EvUpd 0; EvUpd 1; EvUpd 2; EvUpd 3; EvUpd 4; EvUpd 5; EvUpd 7; EvUpd 8; EvUpd 9; EvObsUpd 10 2].
Proof.
  split; [exact (proj1 ex_pre_hyps)|]. split; [exact (proj2 ex_pre_hyps)|]. split; [exact ex_pass_ok|]. vm_compute; reflexivity.
Qed.
