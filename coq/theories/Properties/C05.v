(** C05 — after every public operation the graph is structurally consistent.

    FULL STATEMENT (DESIGN.md): for every history h and state s, run h = Ok s -> wf s.
    That statement is FALSE of the faithful model: an operation rejected for the height limit
    (or a cycle) leaves the state ill-formed ([C05_rejection_refuted]), and histories that hand
    bind-created nodes to top-level operations, or declare a cycle on an unobserved node, break
    [wfb] without any error ([C05_scope_leak_refuted], [C05_scope_read_refuted],
    [C05_unobserved_cycle_refuted]).  What is proved is the invariance of [EngineInv.Inv]
    (which implies [EngineWf.wfb], [C05_invariant_implies_wfb]) over CLEAN histories
    ([EngineInv.run_clean]: every operation well-formed and clean — no memoized binds, every
    node an operation names is a top-level node, AddInput only towards an older node,
    ParallelStabilize only with plans that inject no fault into a bind function
    ([C05_par_masked_rejection_refuted] shows why) —, none crashed or ran out of fuel, none
    rejected for a cycle or the height limit).  Both stabilizers are covered:
    - for every clean history, binds and their rebuilds included: [C05_wf_every_boundary_partial];
    - per operation group, for ALL states satisfying the invariant:
      [C05_step_new] ... [C05_step_stabilize], [C05_step].

    NO FAULT ([Crash]: a nil dereference or an index fault of the library's own code):
    - [C05_no_crash_step], [C05_no_crash_partial]: from any state satisfying the invariant, a
      well-formed clean operation other than ParallelStabilize never faults — also when it is
      rejected half-way (the rest of the operation runs on a weaker invariant that survives the
      rejection).  Exhausting the model's fuel is NOT excluded: the pass fuel is fixed when the
      pass starts, and a bind template may create more nodes than that in one pass.
    - FULL STATEMENT (every clean operation) is FALSE: [C05_par_crash_refuted] — under
      ParallelStabilize the nodes of a height block keep running after one bind of the block was
      rejected for the height limit; the rejected adjustment leaves a node in the
      adjust-heights heap, below the lower bound of the next bind's adjustment, whose scan then
      returns nil while the heap is not empty: nil dereference.  Without binds ParallelStabilize
      never faults ([C05_no_crash_par_bindfree]). *)
From incr Require Import Base Heap HeapSpec EngineDefs Engine EngineWf EngineLemmas EngineInv EngineInvProofs.

Theorem C05_init : forall mh, (0 < mh)%nat -> Inv (init mh).
Proof. exact Inv_init. Qed.
Print Assumptions C05_init.

Theorem C05_invariant_implies_wfb : forall s, Inv s -> wfb s = true.
Proof. exact Inv_wfb. Qed.
Print Assumptions C05_invariant_implies_wfb.

(** what the boolean says, in Prop form: every edge recorded on both endpoints with the same
    multiplicity; every registered dependent strictly above each linked input; the node count is
    the number of registered nodes plus the number of observers; everything queued is registered
    and queued at its height; the heap invariant *)
Theorem C05_meaning : forall s, Inv s ->
  (forall c p, count_occ_n p (parents (nd s c)) = count_occ_n c (children (nd s p))) /\
  (forall c p, inGraph (nd s c) = true -> p ∈ parents (nd s c) -> height (nd s p) < height (nd s c)) /\
  numNodes s = Z.of_nat (length (filter (fun n => inGraph (nd s n) = true) (allNodes s))) + Z.of_nat (size (obs s)) /\
  (forall n, n ∈ Heap.ids (heap s) -> inGraph (nd s n) = true /\ Heap.hinOf (heap s) n = height (nd s n)) /\
  HeapSpec.inv (heap s).
Proof. exact Inv_meaning. Qed.
Print Assumptions C05_meaning.

(** per operation group: preservation from ANY state satisfying the invariant *)
Theorem C05_step_new : forall s o s' e,
  Inv s -> op_ok s o = true -> op_clean s o = true -> is_new o = true -> step s o = Ok (s', e) -> Inv s'.
Proof. exact Inv_step_new. Qed.
Print Assumptions C05_step_new.

Theorem C05_step_setvar : forall s o s' e,
  Inv s -> op_ok s o = true -> is_setvar o = true -> step s o = Ok (s', e) -> Inv s'.
Proof. exact Inv_step_setvar. Qed.
Print Assumptions C05_step_setvar.

Theorem C05_step_unobserve : forall s o s' e,
  Inv s -> op_ok s o = true -> is_unobserve o = true -> step s o = Ok (s', e) -> Inv s'.
Proof. exact Inv_step_unobserve. Qed.
Print Assumptions C05_step_unobserve.

Theorem C05_step_removeinput : forall s o s' e,
  Inv s -> op_ok s o = true -> is_removeinput o = true -> step s o = Ok (s', e) -> Inv s'.
Proof. exact Inv_step_removeinput. Qed.
Print Assumptions C05_step_removeinput.

Theorem C05_step_observe : forall s o s' e,
  Inv s -> op_ok s o = true -> op_clean s o = true -> is_observe o = true ->
  step s o = Ok (s', e) -> e <> Some EHeightLimit -> Inv s'.
Proof. exact Inv_step_observe. Qed.
Print Assumptions C05_step_observe.

Theorem C05_step_addinput : forall s o s' e,
  Inv s -> op_ok s o = true -> op_clean s o = true -> is_addinput o = true ->
  step s o = Ok (s', e) -> e <> Some ECycle -> e <> Some EHeightLimit -> Inv s'.
Proof. exact Inv_step_addinput. Qed.
Print Assumptions C05_step_addinput.

(** the pass, for every plan, on every state satisfying the invariant (bind rebuilds included) *)
Theorem C05_step_stabilize : forall s o s' e,
  Inv s -> op_ok s o = true -> is_stabilize o = true -> step s o = Ok (s', e) ->
  e <> Some ECycle -> e <> Some EHeightLimit -> Inv s'.
Proof. exact Inv_step_stabilize. Qed.
Print Assumptions C05_step_stabilize.

(** ParallelStabilize, for every plan that injects no fault into a bind function *)
Theorem C05_step_parstabilize : forall s o s' e,
  Inv s -> op_ok s o = true -> op_clean s o = true -> is_parstabilize o = true -> step s o = Ok (s', e) ->
  e <> Some ECycle -> e <> Some EHeightLimit -> Inv s'.
Proof. exact Inv_step_parstabilize. Qed.
Print Assumptions C05_step_parstabilize.

Theorem C05_step : forall s o s' e,
  Inv s -> op_ok s o = true -> op_clean s o = true -> step s o = Ok (s', e) ->
  e <> Some ECycle -> e <> Some EHeightLimit -> Inv s'.
Proof. exact Inv_step. Qed.
Print Assumptions C05_step.

(** whole histories *)
Theorem C05_wf_every_boundary_partial : forall mh os s,
  (0 < mh)%nat -> run_clean (init mh) os = Some s -> wfb s = true.
Proof. exact wf_every_boundary. Qed.
Print Assumptions C05_wf_every_boundary_partial.

(** earlier, weaker forms (kept: they are referred to elsewhere); [bind_spec] is now a theorem,
    [C05_bind_spec] *)
Theorem C05_bind_spec : bind_spec (fun _ => True).
Proof. exact bind_spec_holds. Qed.
Print Assumptions C05_bind_spec.

Theorem C05_step_stabilize_bindfree : forall s o s' e,
  Inv s -> binds s = ∅ -> op_ok s o = true -> is_stabilize o = true -> step s o = Ok (s', e) ->
  e <> Some ECycle -> e <> Some EHeightLimit -> Inv s' /\ binds s' = ∅.
Proof. exact Inv_step_stabilize_bindfree. Qed.
Print Assumptions C05_step_stabilize_bindfree.

Theorem C05_step_if_bind_spec : forall s o s' e,
  bind_spec (fun _ => True) ->
  Inv s -> op_ok s o = true -> op_clean s o = true -> step s o = Ok (s', e) ->
  e <> Some ECycle -> e <> Some EHeightLimit -> Inv s'.
Proof. exact Inv_step_cond. Qed.
Print Assumptions C05_step_if_bind_spec.

Theorem C05_wf_every_boundary_if_bind_spec : forall mh os s,
  bind_spec (fun _ => True) -> (0 < mh)%nat -> run_clean (init mh) os = Some s -> wfb s = true.
Proof. exact wf_every_boundary_cond. Qed.
Print Assumptions C05_wf_every_boundary_if_bind_spec.

(** no fault *)
Theorem C05_no_crash_step : forall s o,
  Inv s -> op_ok s o = true -> op_clean s o = true -> is_parstabilize o = false ->
  forall c, step s o <> Crash c.
Proof. exact nc_step. Qed.
Print Assumptions C05_no_crash_step.

Theorem C05_no_crash_partial : forall mh os s o,
  (0 < mh)%nat -> run_clean (init mh) os = Some s ->
  op_ok s o = true -> op_clean s o = true -> is_parstabilize o = false ->
  forall c, step s o <> Crash c.
Proof. exact run_no_crash. Qed.
Print Assumptions C05_no_crash_partial.

Theorem C05_no_crash_par_bindfree : forall mh os s o,
  (0 < mh)%nat -> forallb op_nobind os = true -> run_clean (init mh) os = Some s ->
  op_ok s o = true -> is_parstabilize o = true -> forall c, step s o <> Crash c.
Proof. exact run_no_crash_par_bindfree. Qed.
Print Assumptions C05_no_crash_par_bindfree.

Theorem C05_par_crash_refuted : exists os s,
  run_clean (init 8) os = Some s /\ op_ok s (ParStabilize []) = true /\ op_clean s (ParStabilize []) = true /\
  step s (ParStabilize []) = Crash NilDeref.
Proof. exact par_crash_refuted. Qed.
Print Assumptions C05_par_crash_refuted.

(** refutations of the unrestricted statement *)
Theorem C05_rejection_refuted : exists os s, run (init 6) os = Ok s /\ wfb s = false.
Proof. exact rejection_refuted. Qed.
Print Assumptions C05_rejection_refuted.

Theorem C05_scope_leak_refuted : exists os s, run_unrejected (init 16) os = Some s /\ wfb s = false.
Proof. exact scope_leak_refuted. Qed.
Print Assumptions C05_scope_leak_refuted.

Theorem C05_scope_read_refuted : exists os s, run_unrejected (init 256) os = Some s /\ wfb s = false.
Proof. exact scope_read_refuted. Qed.
Print Assumptions C05_scope_read_refuted.

Theorem C05_unobserved_cycle_refuted : exists os s, run_unrejected (init 16) os = Some s /\ wfb s = false.
Proof. exact unobserved_cycle_refuted. Qed.
Print Assumptions C05_unobserved_cycle_refuted.

Theorem C05_par_masked_rejection_refuted : exists os s, run_unrejected (init 6) os = Some s /\ wfb s = false.
Proof. exact par_masked_rejection_refuted. Qed.
Print Assumptions C05_par_masked_rejection_refuted.

(** non-vacuity *)
Example C05_clean_history_both_stabilizers : exists s, run_clean (init 16) h_both = Some s /\ wfb s = true.
Proof. exact clean_history_both_stabilizers. Qed.
Print Assumptions C05_clean_history_both_stabilizers.

Example C05_clean_history_with_binds : exists s, run_clean (init 16) h_binds = Some s /\ wfb s = true.
Proof. exact clean_history_with_binds. Qed.
Print Assumptions C05_clean_history_with_binds.

Example C05_clean_bindfree_history : exists s,
  forallb op_nobind h_static = true /\ run_clean (init 16) h_static = Some s.
Proof. exact clean_bindfree_history. Qed.
Print Assumptions C05_clean_bindfree_history.
