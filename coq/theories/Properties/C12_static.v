(** C12 (bind-free fragment) — a pass whose node functions write vars computes exactly what the
    write-free pass computes; the deferred writes are applied when the pass has ended.

    Serial pass [stabilize p false s] of a state satisfying [wfb] and [PassInv.ValInv] (which
    contains [BF]: no bind exists), with a plan [p] that holds only [ASet] / [AUpdate] actions
    ([writes_only]) on vars ([plan_ok]).  Proofs: PassPlanProofs.v (the simulation of one
    recompute is EngineLocal's [C12_midpass_noninterference_recompute_partial], lifted here over
    the direct-recompute chain and the pass loop). *)
From incr Require Import Base Heap HeapSpec EngineDefs Engine EngineRun EngineWf Spec EngineLemmas EngineLocal
     EngineInv EngineInvProofs PassInv PassProofs PassPlanProofs PassPlanProofs2.

(** A plan-free pass of such a state always succeeds: no crash, enough fuel, no error. *)
Theorem C12_static_plan_free_pass_total : forall s,
  wfb s = true -> ValInv s -> exists s', stabilize [] false s = Ok (s', None).
Proof. exact pass_total. Qed.
Print Assumptions C12_static_plan_free_pass_total.

(** Whole-pass noninterference.  [t'] is the result of the write-free pass, [sLp] / [sL] are the
    states of the two passes when their computations ended ([passResult]): they are equal up to
    [pending] fields and [setDuring] ([pendOnly]).  The final states have the same log (same
    invocations, arguments and results, same handler events), node records equal up to
    value / pending / setAt ([vps]), and equal up to pending outside the vars written during the
    pass; every written var holds its last deferred write (the [pending] value when the
    computations ended: successive Updates compose, EngineLocal.C12_updates_compose), is queued if
    it is in the graph, and the quiescent invariant holds again -- so the next pass propagates it. *)
Theorem C12_static_noninterference : forall s p s',
  wfb s = true -> ValInv s -> writes_only p = true -> plan_ok s p = true ->
  stabilize p false s = Ok (s', None) ->
  exists t' sLp sL at_ al, writesEnd s p s' t' sLp sL at_ al.
Proof. exact pass_writes. Qed.
Print Assumptions C12_static_noninterference.

(** C02 restated for passes with writes: the arguments of every invocation are the values the
    inputs hold when the computations of the pass have ended (before the deferred writes are
    applied), and afterwards only the written vars hold another value. *)
Theorem C12_static_args_are_final : forall s p s',
  wfb s = true -> ValInv s -> writes_only p = true -> plan_ok s p = true ->
  stabilize p false s = Ok (s', None) ->
  exists sLp at_ al,
    passResult p false s = Ok (sLp, None, at_, al) /\
    (forall evs n args r, log s' = evs ++ log s -> EvInvoked n args r ∈ evs ->
       args = map (valueOf sLp) (decl (nd sLp n)) /\ r = value (nd sLp n) /\
       recomputedAt (nd sLp n) = stabNum s) /\
    (forall n, n ∉ setDuring sLp -> value (nd s' n) = value (nd sLp n)) /\
    (forall n, recomputedAt (nd s' n) = recomputedAt (nd sLp n) /\ changedAt (nd s' n) = changedAt (nd sLp n) /\
               nkind (nd s' n) = nkind (nd sLp n) /\ decl (nd s' n) = decl (nd sLp n)).
Proof. exact pass_writes_args_final. Qed.
Print Assumptions C12_static_args_are_final.

(** The quiescent invariant after a pass with writes (the history form: such a pass can be
    followed by any operation of the fragment, C01_static). *)
Theorem C12_static_step_preserves_ValInv : forall s p s',
  wfb s = true -> ValInv s -> writes_only p = true -> plan_ok s p = true ->
  step s (Stabilize p) = Ok (s', None) -> ValInv s'.
Proof. exact step_writes_ValInv. Qed.
Print Assumptions C12_static_step_preserves_ValInv.

(** Non-vacuity: in the state [ex_pre] (diamond, duplicated input, cutoff, Always node; both vars
    written) node 4's function sets var 0 to 7 and node 9's function updates var 1 twice: same
    invocations as the write-free pass, afterwards var 0 holds 7, var 1 holds 4 + 2 + 3, both queued. *)
Example C12_static_ex :
  wfb ex_pre = true /\ ValInv ex_pre /\ writes_only ex_plan = true /\ plan_ok ex_pre ex_plan = true /\
  stabilize ex_plan false ex_pre = Ok (ex_wpost, None) /\
  log ex_wpost = log ex_post /\ value (nd ex_wpost 0%nat) = 7 /\ value (nd ex_wpost 1%nat) = 9 /\
  value (nd ex_post 0%nat) = 3 /\ value (nd ex_post 1%nat) = 4 /\
  Heap.ids (heap ex_wpost) = [0; 1; 7]%nat /\ Heap.ids (heap ex_post) = [7%nat].
Proof.
  split; [exact (proj1 ex_pre_hyps)|]. split; [exact (proj2 ex_pre_hyps)|].
  split; [exact (proj1 ex_plan_hyps)|]. split; [exact (proj1 (proj2 ex_plan_hyps))|].
  split; [exact ex_wpass_ok|]. split; [vm_compute; reflexivity|]. split; [vm_compute; reflexivity|].
  split; [vm_compute; reflexivity|]. split; [vm_compute; reflexivity|]. split; [vm_compute; reflexivity|].
  split; vm_compute; reflexivity.
Qed.

(** ** On top of the structural invariant [EngineInv.Inv] (C05) *)

(** the structural invariant (hence [wfb]) after a pass with writes *)
Theorem C12_static_Inv_after_writes : forall s p s',
  Inv s -> ValInv s -> writes_only p = true -> plan_ok s p = true ->
  stabilize p false s = Ok (s', None) -> Inv s' /\ wfb s' = true /\ ValInv s'.
Proof. exact pass_writes_Inv. Qed.
Print Assumptions C12_static_Inv_after_writes.

(** a pass with writes cannot return an error *)
Theorem C12_static_writes_no_error : forall s p s' e,
  wfb s = true -> ValInv s -> writes_only p = true -> stabilize p false s = Ok (s', e) -> e = None.
Proof. exact writes_no_error. Qed.
Print Assumptions C12_static_writes_no_error.

(** no deferred value survives the pass: if no var holds a pending value before it, none does
    after it (during the pass a var holds one only while it is filed in [setDuring]: [PendQ]) *)
Theorem C12_static_no_pending_after : forall s p s',
  wfb s = true -> ValInv s -> PendNone s -> writes_only p = true -> plan_ok s p = true ->
  stabilize p false s = Ok (s', None) -> PendNone s'.
Proof. exact pass_writes_pending. Qed.
Print Assumptions C12_static_no_pending_after.

(** histories: for every clean ([EngineInv.run_clean]) history of the fragment ([static_op2]: no
    binds, passes with writing plans or with one failing node function allowed) from the empty
    graph, every pass with a writing plan succeeds and is related to the write-free pass as in
    [C12_static_noninterference]; no structural hypothesis *)
Theorem C12_history_bindfree : forall mh os1 p os2 s',
  (0 < mh)%nat -> writes_only p = true -> forallb static_op2 (os1 ++ Stabilize p :: os2) = true ->
  run_clean (init mh) (os1 ++ Stabilize p :: os2) = Some s' ->
  exists s1 s2, run_clean (init mh) os1 = Some s1 /\ step s1 (Stabilize p) = Ok (s2, None) /\
    (exists t' sLp sL at_ al, writesEnd s1 p s2 t' sLp sL at_ al) /\ Inv s2 /\ ValInv s2.
Proof. exact history_writes_pass. Qed.
Print Assumptions C12_history_bindfree.

Example C12_static_ex_pending : PendNone ex_pre.
Proof. apply pendnone_b_sound. vm_compute. reflexivity. Qed.
