(** C04: ParallelStabilize yields the same result for every schedule (statements only). *)
From incr Require Import Base Heap HeapSpec EngineDefs Engine Par ParProofs.

(** Block level.  [s] is a state in the middle of a parallel pass, [B] the part of a height
    block that ParallelStabilize hands to its workers (the bind lhs-change nodes of the block
    have already run, one at a time), [p] a plan without action for the nodes of [B]: every
    processing order succeeds without error, and any two orders end in states equal up to the
    order inside heap buckets and the order of log events, with the same set of always nodes. *)
Theorem C04_block_confluence : forall fuel1 fuel2 p s B h o1 o2,
  block_ok s B h -> graph_ok s -> quiet p B -> o1 ≡ₚ B -> o2 ≡ₚ B ->
  exists r1 r2, run_block fuel1 p s o1 = Ok r1 /\ run_block fuel2 p s o2 = Ok r2 /\
                sim_blk r1 r2 /\ r1.1.2 = None.
Proof. exact block_confluence. Qed.
Print Assumptions C04_block_confluence.

(** The same with node functions that call Var.Set / Var.Update (no faults): [sets_ok] says that
    the pass is running, that the functions of the block only set vars, and that no var is set by
    two different nodes of the block (the user's functions are race free among themselves). *)
Theorem C04_block_confluence_sets : forall fuel1 fuel2 p s B h o1 o2,
  block_ok s B h -> graph_ok s -> sets_ok p s B -> o1 ≡ₚ B -> o2 ≡ₚ B ->
  exists r1 r2, run_block fuel1 p s o1 = Ok r1 /\ run_block fuel2 p s o2 = Ok r2 /\
                sim_blk r1 r2 /\ r1.1.2 = None.
Proof. exact block_confluence_sets. Qed.
Print Assumptions C04_block_confluence_sets.

(** Pass level, bind-free graphs ([pass_ok]), node functions that may set vars but do not fail and
    do not set the same var from two nodes of one height ([plan_par_ok]): whatever order each block
    is processed in, the pass returns the same error and ≈-related states. *)
Theorem C04_pass_schedule_independent : forall sched1 sched2 p s t e,
  fair sched1 -> fair sched2 -> plan_par_ok p s -> pass_ok s ->
  parStabilizeS sched1 p s = Ok (t, e) ->
  exists t', parStabilizeS sched2 p s = Ok (t', e) /\ t ≈ t' /\ (status s = 0 -> e = None).
Proof. exact pass_schedule_independent_sets. Qed.
Print Assumptions C04_pass_schedule_independent.

(** ... in particular the schedule [Engine.parStabilize] models (queue order) against any other *)
Theorem C04_parStabilize_any_schedule : forall sched p s t e,
  fair sched -> plan_par_ok p s -> pass_ok s -> parStabilize p s = Ok (t, e) ->
  exists t', parStabilizeS sched p s = Ok (t', e) /\ t ≈ t'.
Proof. exact parStabilize_any_schedule. Qed.
Print Assumptions C04_parStabilize_any_schedule.

(** ≈ preserves everything observable: values, node records (hence the graph structure),
    observers, registry, counts, the queued set, the set of update-handler events. *)
Theorem C04_values_equal : forall s s', s ≈ s' ->
  (forall n, valueOf s n = valueOf s' n) /\ (forall n, nd s n = nd s' n) /\
  obs s = obs s' /\ reg s = reg s' /\ numNodes s = numNodes s' /\ binds s = binds s' /\
  Heap.ids (heap s) ≡ₚ Heap.ids (heap s') /\ (forall n, inHeap s n = inHeap s' n) /\
  updEvents s ≡ₚ updEvents s'.
Proof. exact sim_observables. Qed.
Print Assumptions C04_values_equal.

(** the boolean forms of the hypotheses are sound *)
Theorem C04_block_okb_sound : forall s B h, block_okb s B h = true -> block_ok s B h.
Proof. exact block_okb_sound. Qed.
Print Assumptions C04_block_okb_sound.
Theorem C04_graph_okb_sound : forall s, graph_okb s = true -> graph_ok s.
Proof. exact graph_okb_sound. Qed.
Print Assumptions C04_graph_okb_sound.
Theorem C04_pass_okb_sound : forall s, pass_okb s = true -> pass_ok s.
Proof. exact pass_okb_sound. Qed.
Print Assumptions C04_pass_okb_sound.

(** Non-vacuity: states reached by [Engine.run]. *)
Example C04_ex_pass_hyps : is_ok ex_state = true /\ pass_ok ex_pre /\ status ex_pre = 0.
Proof. split; [vm_compute; reflexivity|]. split; [apply pass_okb_sound; vm_compute; reflexivity|vm_compute; reflexivity]. Qed.
Print Assumptions C04_ex_pass_hyps.

Example C04_ex_block_hyps :
  is_ok ex_mid = true /\ block_ok ex_mid_s [2; 3]%nat 1 /\ graph_ok ex_mid_s /\ quiet [] [2; 3]%nat.
Proof.
  split; [vm_compute; reflexivity|].
  split; [apply block_okb_sound; vm_compute; reflexivity|].
  split; [apply graph_okb_sound; vm_compute; reflexivity|]. intros n w _. reflexivity.
Qed.
Print Assumptions C04_ex_block_hyps.

(** the two orders of that block really differ (the logs are not equal), yet are ≈ *)
Example C04_ex_block_orders_differ :
  is_ok (run_block 0 [] ex_mid_s [2; 3]%nat) = true /\ is_ok (run_block 0 [] ex_mid_s [3; 2]%nat) = true /\
  log (blk_state (run_block 0 [] ex_mid_s [2; 3]%nat)) <> log (blk_state (run_block 0 [] ex_mid_s [3; 2]%nat)).
Proof. split; [vm_compute; reflexivity|]. split; [vm_compute; reflexivity|]. vm_compute. discriminate. Qed.
Print Assumptions C04_ex_block_orders_differ.

Theorem C04_plan_par_okb_sound : forall p s, plan_par_okb p s = true -> plan_par_ok p s.
Proof. exact plan_par_okb_sound. Qed.
Print Assumptions C04_plan_par_okb_sound.

Example C04_ex_plan_hyps : plan_par_ok ex_plan ex_pre /\ plan_par_ok [] ex_pre.
Proof. split; apply plan_par_okb_sound; vm_compute; reflexivity. Qed.
Print Assumptions C04_ex_plan_hyps.

Theorem C04_sets_okb_sound : forall p s B, sets_okb p s B = true -> sets_ok p s B.
Proof. exact sets_okb_sound. Qed.
Print Assumptions C04_sets_okb_sound.

Example C04_ex_sets_hyps :
  sets_ok ex_plan ex_mid_s [2; 3]%nat /\
  targets (nodeActs ex_plan ex_mid_s 2%nat) = [0%nat] /\ targets (nodeActs ex_plan ex_mid_s 3%nat) = [1%nat].
Proof. split; [apply sets_okb_sound; vm_compute; reflexivity|]. split; vm_compute; reflexivity. Qed.
Print Assumptions C04_ex_sets_hyps.

(** * Footprints and lock sets (the race-freedom logic) *)

(** what the model's recompute of [n] does not declare as written, it does not change *)
Theorem C04_footprints_sound : forall s n s1 e, rnp_spec s n = Ok (s1, e) ->
  (forall x f, not_written (footprint s n) (LNode x f) -> field_same f s s1 x) /\
  (not_written (footprint s n) LHeap -> heap s1 = heap s) /\
  (not_written (footprint s n) LHandlers -> handlers s1 = handlers s) /\
  binds s1 = binds s /\ next s1 = next s /\ reg s1 = reg s /\ obs s1 = obs s /\ adj s1 = adj s /\
  invq s1 = invq s /\ stabNum s1 = stabNum s /\ status s1 = status s /\ numNodes s1 = numNodes s /\
  setDuring s1 = setDuring s /\ setRemoved s1 = setRemoved s /\ maxHeight s1 = maxHeight s.
Proof. exact fp_write_sound. Qed.
Print Assumptions C04_footprints_sound.

(** [rnp_spec] IS the model function on the nodes concerned *)
Theorem C04_footprints_model : forall fuel p s n,
  is_Some (nodes s !! n) -> is_lhs (nkind (nd s n)) = false -> (forall w, actions_of p n w = []) ->
  recomputeNodeParallel fuel p s n = rnp_spec s n.
Proof. exact rnp_char. Qed.
Print Assumptions C04_footprints_model.

(** what it does not declare as read does not matter: the lock-free section ... *)
Theorem C04_footprints_reads_free : forall s t n,
  nd t n = nd s n -> stabNum t = stabNum s -> binds t = binds s -> same_shape s t ->
  (forall x, Rd (LNode x FValue) [] ∈ fp_free s n -> value (nd t x) = value (nd s x)) ->
  cutv t n = cutv s n /\ newval t n = newval s n /\ localEvs t n = localEvs s n /\
  forall y, localF t n y = localF s n y.
Proof. exact fp_read_sound_free. Qed.
Print Assumptions C04_footprints_reads_free.

(** ... and the children scan under recomputeMu *)
Theorem C04_footprints_reads_child : forall t t' c,
  nd t' c = nd t c -> stabNum t' = stabNum t ->
  (readsParents t c = true -> forall q, q ∈ parents (nd t c) -> changedAt (nd t' q) = changedAt (nd t q)) ->
  wantPush t' c = wantPush t c.
Proof. exact fp_read_sound_child. Qed.
Print Assumptions C04_footprints_reads_child.

(** Lock sets, success paths: every pair of conflicting accesses of two different nodes of a block
    is covered by a common lock, except one shape of pair: a node's lock-free write of its own
    changedAt (graph.go:1243) against the read of that field by a sibling's children scan, which
    holds recomputeMu (shouldRecomputeChild -> isStale -> isStaleInRespectToParent). *)
Theorem C04_lockset : forall s B h n m a b,
  block_ok s B h -> graph_ok s -> n ∈ B -> m ∈ B -> n <> m ->
  a ∈ footprint s n -> b ∈ footprint s m -> conflict a b ->
  covered a b \/ stale_pair a b n \/ stale_pair b a m.
Proof. exact lockset. Qed.
Print Assumptions C04_lockset.

(** that pair needs a common child which is a bind main node or was already recomputed in the
    running pass; without such children everything is covered *)
Theorem C04_lockset_fresh : forall s B h n m a b,
  block_ok s B h -> graph_ok s -> n ∈ B -> m ∈ B -> n <> m ->
  (forall x c, x ∈ B -> c ∈ children (nd s x) ->
     recomputedAt (nd s c) < stabNum s /\ forall bb, nkind (nd s c) <> KBindMain bb) ->
  a ∈ footprint s n -> b ∈ footprint s m -> conflict a b -> covered a b.
Proof. exact lockset_fresh. Qed.
Print Assumptions C04_lockset_fresh.

(** NOT covered according to the lock placement of graph.go (candidates for the race detector):
    1. recomputeFailed / recomputePanicked -> recomputeHeap.addIfNotPresent takes the heap's own
       mutex, the children scan of a sibling calls addNodeUnsafe under recomputeMu only *)
Theorem C04_lockset_refuted_candidate : forall s n m, pushlist s m <> [] ->
  exists a b, a ∈ fp_fail n /\ b ∈ footprint s m /\ conflict a b /\ ~ covered a b.
Proof. exact lockset_refuted_heap. Qed.
Print Assumptions C04_lockset_refuted_candidate.

(**  2. Var.Set called by a node function writes setDuringStabilization(Value) with no lock; the
        var's own Stabilize reads it with no lock when the var is recomputed in the same block *)
Theorem C04_lockset_refuted_candidate_pending : forall s v, isVarKind (nkind (nd s v)) = true ->
  exists a b, a ∈ fp_set v /\ b ∈ footprint s v /\ conflict a b /\ ~ covered a b.
Proof. exact lockset_refuted_pending. Qed.
Print Assumptions C04_lockset_refuted_candidate_pending.

Example C04_ex_lockset_candidate_reachable : pushlist ex_mid_s 2%nat = [5%nat].
Proof. vm_compute; reflexivity. Qed.
Print Assumptions C04_ex_lockset_candidate_reachable.

(** * The bind case *)
(* C04_full (NOT proved, and false as stated with ≈): "for every state reached by a history and
   every fair scheduler, parStabilizeS sched p s ≈ parStabilize p s".  Two things stand in the way:
   (1) the model identifies nodes by creation index, and two lhs-change nodes of one block run in
   queue order, which is the order the previous block's workers queued them in: the ids of the nodes
   a bind creates depend on the schedule (C04_bind_ids_depend_on_schedule); observer values and
   update events agreed on every generated history; (2) the invariants [block_ok]/[graph_ok] after
   a lhs-change prefix are not proved (they held after every prefix of every generated history, so
   [C04_block_confluence] applied to the rest of every such block). *)

(** by construction: the lhs-change nodes of a block run first, one at a time, in queue order,
    whatever the scheduler; the scheduler orders the rest, which contains no lhs-change node *)
Theorem C04_bind_prefix_sequential : forall sched fuel p s al,
  parLoopS sched (S fuel) p s al =
  if Heap.cnt (heap s) <=? 0 then Ok (s, None, al) else
  let '(block, w) := Heap.takeMinBlock (heap s) in
  let s := s <| heap := w |> in
  r0 <-! run_block_acc fuel p s al (lhs_part s block);
  '(s', e, al') <-! rfold (block_step fuel p) (sched s (rest_part s block)) r0;
  match e with
  | Some _ => Ok (s', e, al')
  | None => parLoopS sched fuel p s' al'
  end.
Proof. exact bind_prefix_sequential. Qed.
Print Assumptions C04_bind_prefix_sequential.

Theorem C04_rest_has_no_lhs : forall sched s block n, fair sched ->
  n ∈ sched s (rest_part s block) -> isLhsNode s n = false /\ n ∈ block.
Proof. exact rest_part_no_lhs. Qed.
Print Assumptions C04_rest_has_no_lhs.

Theorem C04_model_is_queue_order : forall p s, parStabilizeS queue_order p s = parStabilize p s.
Proof. exact parStabilizeS_queue_order. Qed.
Print Assumptions C04_model_is_queue_order.

(** the finding the fix "ParallelStabilize runs a block's structural nodes first and skips nodes
    they tear down" answers: with the whole block handed out in one batch, one order of the block
    [4; 2] (two lhs-change nodes, the first tearing the second down) ends in the library's index
    out of range [-1], the other order is fine *)
Example C04_old_order_refuted :
  is_ok w_state = true /\ fair queue_order /\ fair sw_sched /\
  crashes_oob (parStabilizeS_old queue_order [] w_pre) = true /\
  ok_none (parStabilizeS_old sw_sched [] w_pre) = true.
Proof.
  split; [vm_compute; reflexivity|]. split; [exact queue_order_fair|].
  split; [exact sw_sched_fair|]. split; vm_compute; reflexivity.
Qed.
Print Assumptions C04_old_order_refuted.

(** after the fix both orders succeed with the same observer values; the node ids differ *)
Example C04_bind_ids_depend_on_schedule :
  let t1 := pass_state (parStabilizeS queue_order [] w_pre) in
  let t2 := pass_state (parStabilizeS rev_sched [] w_pre) in
  fair queue_order /\ fair rev_sched /\
  ok_none (parStabilizeS queue_order [] w_pre) = true /\ ok_none (parStabilizeS rev_sched [] w_pre) = true /\
  obsValues t1 = obsValues t2 /\ reg t1 <> reg t2.
Proof.
  cbv zeta. split; [exact queue_order_fair|]. split; [exact rev_sched_fair|].
  split; [vm_compute; reflexivity|]. split; [vm_compute; reflexivity|]. split; [vm_compute; reflexivity|]. vm_compute. discriminate.
Qed.
Print Assumptions C04_bind_ids_depend_on_schedule.

(** Faults are outside the theorems above, and the returned error cannot be schedule independent:
    ParallelStabilize keeps the FIRST error of a block (parallelBatch), so with two failing
    functions in one block the error depends on the order *)
Example C04_error_depends_on_order :
  blk_err (run_block 0 ex_fault_plan ex_mid_s [2; 3]%nat) = Some (EUser 2%nat) /\
  blk_err (run_block 0 ex_fault_plan ex_mid_s [3; 2]%nat) = Some (EUser 3%nat).
Proof. split; vm_compute; reflexivity. Qed.
Print Assumptions C04_error_depends_on_order.
