(** C04: ParallelStabilize yields the same result for every schedule (statements only). *)
From incr Require Import Base Heap HeapSpec EngineDefs Engine Par ParProofs.

(** Block level.  [s] is a state in the middle of a parallel pass, [B] the part of a height
    block that ParallelStabilize hands to its workers (the bind lhs-change nodes of the block
    have already run, one at a time), [p] a plan without action for the nodes of [B]: every
    processing order succeeds without error, and any two orders end in states equal up to the
    order inside heap buckets and the order of log events, with the same set of always nodes. *)
Theorem C04_block_confluence : forall fuel1 fuel2 p s B h o1 o2,
  block_ok s B h -> graph_ok s -> quiet p B -> o1 ≡ₚ B -> o2 ≡ₚ B ->
  exists r1 r2, run_block fuel1 p s o1 = Ok r1 /\ run_block fuel2 p s o2 = Ok r2 /\
                sim_blk r1 r2 /\ r1.1.2 = None.
Proof. exact block_confluence. Qed.
Print Assumptions C04_block_confluence.

(** Pass level, bind-free graphs: whatever order each block is processed in. *)
Theorem C04_pass_schedule_independent : forall sched1 sched2 p s t e,
  fair sched1 -> fair sched2 -> quiet_all p -> pass_ok s ->
  parStabilizeS sched1 p s = Ok (t, e) ->
  exists t', parStabilizeS sched2 p s = Ok (t', e) /\ t ≈ t' /\ (status s = 0 -> e = None).
Proof. exact pass_schedule_independent. Qed.
Print Assumptions C04_pass_schedule_independent.

(** ... in particular the schedule [Engine.parStabilize] models (queue order) against any other *)
Theorem C04_parStabilize_any_schedule : forall sched p s t e,
  fair sched -> quiet_all p -> pass_ok s -> parStabilize p s = Ok (t, e) ->
  exists t', parStabilizeS sched p s = Ok (t', e) /\ t ≈ t'.
Proof. exact parStabilize_any_schedule. Qed.
Print Assumptions C04_parStabilize_any_schedule.

(** ≈ preserves everything observable: values, node records (hence the graph structure),
    observers, registry, counts, the queued set, the set of update-handler events. *)
Theorem C04_values_equal : forall s s', s ≈ s' ->
  (forall n, valueOf s n = valueOf s' n) /\ (forall n, nd s n = nd s' n) /\
  obs s = obs s' /\ reg s = reg s' /\ numNodes s = numNodes s' /\ binds s = binds s' /\
  Heap.ids (heap s) ≡ₚ Heap.ids (heap s') /\ (forall n, inHeap s n = inHeap s' n) /\
  updEvents s ≡ₚ updEvents s'.
Proof. exact sim_observables. Qed.
Print Assumptions C04_values_equal.

(** the boolean forms of the hypotheses are sound *)
Theorem C04_block_okb_sound : forall s B h, block_okb s B h = true -> block_ok s B h.
Proof. exact block_okb_sound. Qed.
Theorem C04_graph_okb_sound : forall s, graph_okb s = true -> graph_ok s.
Proof. exact graph_okb_sound. Qed.
Theorem C04_pass_okb_sound : forall s, pass_okb s = true -> pass_ok s.
Proof. exact pass_okb_sound. Qed.
Print Assumptions C04_pass_okb_sound.

(** Non-vacuity: states reached by [Engine.run]. *)
Example C04_ex_pass_hyps : exists s, ex_state = Ok s /\ pass_ok s /\ status s = 0.
Proof. eexists. split; [vm_compute; reflexivity|]. split; [apply pass_okb_sound; vm_compute; reflexivity|reflexivity]. Qed.

Example C04_ex_block_hyps :
  exists s, ex_mid = Ok (s, [2; 3]%nat) /\ block_ok s [2; 3]%nat 1 /\ graph_ok s /\ quiet [] [2; 3]%nat.
Proof.
  eexists. split; [vm_compute; reflexivity|].
  split; [apply block_okb_sound; vm_compute; reflexivity|].
  split; [apply graph_okb_sound; vm_compute; reflexivity|]. intros n w _. reflexivity.
Qed.

(** the two orders of that block really differ (the logs are not equal), yet are ≈ *)
Example C04_ex_block_orders_differ :
  exists s s1 s2 a1 a2, ex_mid = Ok (s, [2; 3]%nat) /\
    run_block 0 [] s [2; 3]%nat = Ok (s1, None, a1) /\ run_block 0 [] s [3; 2]%nat = Ok (s2, None, a2) /\
    log s1 <> log s2.
Proof.
  do 5 eexists. split; [vm_compute; reflexivity|]. split; [vm_compute; reflexivity|].
  split; [vm_compute; reflexivity|]. vm_compute. discriminate.
Qed.
