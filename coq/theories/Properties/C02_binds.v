(** C02 with binds present — every function invocation of a serial pass without a plan in which
    no bind swaps saw the values its inputs hold when the pass returns, and returned the value its
    node holds then.  Hypotheses as in Properties/C01_binds.v ([Inv], [ValInvB], [NoLhs]).
    Proofs: PassBindProofs.v. *)
From incr Require Import Base Heap HeapSpec EngineDefs Engine EngineRun EngineWf Spec EngineLemmas
     EngineInv EngineInvProofs PassInv PassProofs PassBind PassBindProofs.

Theorem C02_binds : forall s s',
  Inv s -> ValInvB s -> NoLhs s -> stabilize [] false s = Ok (s', None) ->
  forall evs n args r, log s' = evs ++ log s -> EvInvoked n args r ∈ evs ->
    args = map (valueOf s') (decl (nd s' n)) /\ r = value (nd s' n) /\
    recomputedAt (nd s' n) = stabNum s.
Proof. exact passB_args_final. Qed.
Print Assumptions C02_binds.

(** Non-vacuity: in the pass of [exB_pre] the scope node 6 and node 4 (a dependent of the bind)
    are invoked. *)
Example C02_binds_ex :
  exists evs, log exB_post = evs ++ log exB_pre /\
    EvInvoked 6 [4] 5 ∈ evs /\ EvInvoked 4 [5] 10 ∈ evs.
Proof.
  exists (take 9 (log exB_post)). split; [vm_compute; reflexivity|].
  split; vm_compute; repeat (first [left|right]).
Qed.
