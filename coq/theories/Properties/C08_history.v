(** C08 over histories — a discarded right-hand side never runs again.

    The model's [log] accumulates the events of a whole history, most recent first.
    [ev_runs e = Some n]: [e] reports that the function ([EvInvoked]), the cutoff predicate
    ([EvCutoff]) or the bind function ([EvBindFn]) of node [n] was run.

    - [C08_never_runs_after_invalidation]: at every boundary of every clean history (both
      stabilizers; [EngineInv.run_clean], see Properties/C05.v for what "clean" excludes), an
      event that runs [n] has no [EvInval n] before it: once [n] has been invalidated none of
      its functions runs again.  (For any state satisfying the invariant:
      [C08_never_runs_after_invalidation_inv].)
    - [C08_swap_invalidates_old_generation]: the stabilization of a bind's lhs-change node [b],
      from ANY state of a pass ([EngineInvProofs.PInv], the invariant the pass proofs maintain
      between two recomputations, serial and parallel): the events it adds to the log are
      [l2 ++ EvBindFn b x root :: l1], no event of [l1] or [l2] runs anything, and — when the bind
      had a right-hand side — every node of the generation being replaced has its [EvInval] in
      [l2].  Together with the first theorem: within the swapping pass no node of the replaced
      generation has an invocation event after the [EvBindFn b _ _] of the swap, nor ever later.
    - NOT proved: "nor BEFORE the swap within the swapping pass".  It needs an invariant of the
      pass ORDER that [PInv] does not carry: every node recomputed so far in the pass lies
      strictly below everything still queued, except along a chain of direct recomputes, and
      [canRecomputeImmediately] refuses a node of scope [b] while anything is queued at or below
      [b]'s height (the F25 guard, which the model has). *)
From incr Require Import Base Heap HeapSpec EngineDefs Engine EngineRun EngineWf EngineLemmas EngineInv EngineInvProofs.

Theorem C08_never_runs_after_invalidation_inv : forall s l_after e l_before n, Inv s ->
  log s = l_after ++ e :: l_before -> ev_runs e = Some n -> EvInval n ∉ l_before.
Proof. exact never_runs_after_invalidation. Qed.
Print Assumptions C08_never_runs_after_invalidation_inv.

Theorem C08_never_runs_after_invalidation : forall mh os s l_after e l_before n,
  (0 < mh)%nat -> run_clean (init mh) os = Some s ->
  log s = l_after ++ e :: l_before -> ev_runs e = Some n -> EvInval n ∉ l_before.
Proof. exact history_never_runs_after_invalidation. Qed.
Print Assumptions C08_never_runs_after_invalidation.

Theorem C08_swap_invalidates_old_generation : forall fuel p s b s',
  PInv s -> plan_ok s p = true -> nkind (nd s b) = KBindLhs b -> inGraph (nd s b) = true ->
  bindLhsStabilize fuel p s b = Ok (s', None) ->
  exists x root l1 l2,
    log s' = l2 ++ EvBindFn b x root :: l1 ++ log s /\
    Forall (fun ev => ev_runs ev = None) l1 /\ Forall (fun ev => ev_runs ev = None) l2 /\
    (b_rhs (bd s b) <> None -> forall n, n ∈ b_rhsNodes (bd s b) -> EvInval n ∈ l2).
Proof. exact swap_log. Qed.
Print Assumptions C08_swap_invalidates_old_generation.
