(** C11 — Cutoffs stop exactly the propagation they are told to; equality ones are inert.

    FUNCTION-LEVEL theorems about the engine model, proved in EngineLocal.v.  Statements only,
    closed by [exact]; [Example]s by [vm_compute] on states reached by [Engine.run (init 256) ...].

    The statements about a recompute assume [status s = 1]: that is the status during every pass
    ([passStart] sets it, nothing called from the pass loop changes it: [pframe]), and it makes
    the writes a plan may attach to the predicate deferred ones, so that they cannot disturb the
    values the recompute reads.  [firstFault (actions_of p n WCut) = None] = "no fault is planned
    for the predicate of n".  [pendOnly s t] = [t] is [s] up to [pending] fields and [setDuring]. *)
From incr Require Import Base Heap EngineDefs Engine EngineWf EngineLocal Spec SpecProofs.

(** ** 1. A true verdict keeps the value and stops the propagation *)
Theorem C11_cut_keeps_value_and_stops : forall fuel p s n c s' e imm,
  status s = 1 -> nkind (nd s n) = KCutoff c -> firstFault (actions_of p n WCut) = None ->
  apCut c (value (nd s n)) (valueOf s (hd 0%nat (decl (nd s n)))) = true ->
  recomputeNodeSerial fuel p s n = Ok (s', e, imm) ->
  e = None /\ imm = None /\
  log s' = EvCutoff n (value (nd s n)) (valueOf s (hd 0%nat (decl (nd s n)))) true :: log s /\
  heap s' = heap s /\ handlers s' = handlers s /\
  value (nd s' n) = value (nd s n) /\ changedAt (nd s' n) = changedAt (nd s n) /\
  recomputedAt (nd s' n) = stabNum s /\
  exists t, pendOnly (upd s n (set recomputedAt (fun _ => stabNum s))) t /\
            s' = emit (EvCutoff n (value (nd s n)) (valueOf s (hd 0%nat (decl (nd s n)))) true) t.
Proof. exact C11_cut_keeps_value_and_stops. Qed.
Print Assumptions C11_cut_keeps_value_and_stops.

(* with no side effect planned for the predicate the result is explicit, whatever the status *)
Theorem C11_cut_exact : forall fuel p s n c,
  nkind (nd s n) = KCutoff c -> actions_of p n WCut = [] ->
  apCut c (value (nd s n)) (valueOf s (hd 0%nat (decl (nd s n)))) = true ->
  recomputeNodeSerial fuel p s n =
  Ok (emit (EvCutoff n (value (nd s n)) (valueOf s (hd 0%nat (decl (nd s n)))) true)
          (upd s n (set recomputedAt (fun _ => stabNum s))), None, None).
Proof. exact C11_cut_exact. Qed.
Print Assumptions C11_cut_exact.

(* [ex11] = [NewVar 3 false; NewCutoff CParity 0; NewMap (Aff 1 0) 1; Observe 2; Stabilize []] *)
Example C11_ex_cut :
  let s := reach (ex11 ++ [SetVar 0%nat 5]) in
  nkind (nd s 1%nat) = KCutoff CParity /\ value (nd s 1%nat) = 3 /\ valueOf s 0%nat = 5 /\
  match stabilize [] false (s <| log := [] |>) with
  | Ok (s', e) => e = None /\ value (nd s' 1%nat) = 3 /\ value (nd s' 2%nat) = 3 /\
      rev (log s') = [EvPassStart; EvCutoff 1%nat 3 5 true; EvPassEnd XOk; EvUpd 0%nat]
  | _ => False end.
Proof. vm_compute. repeat split. Qed.

(** ** 2. A false verdict takes the input's value, marks the node changed, files its handlers,
       and leaves no owed dependent behind *)
Theorem C11_pass_takes_input_value : forall fuel p s n c s' e imm,
  status s = 1 -> nkind (nd s n) = KCutoff c -> firstFault (actions_of p n WCut) = None ->
  apCut c (value (nd s n)) (valueOf s (hd 0%nat (decl (nd s n)))) = false ->
  recomputeNodeSerial fuel p s n = Ok (s', e, imm) ->
  e = None /\
  value (nd s' n) = valueOf s (hd 0%nat (decl (nd s n))) /\
  changedAt (nd s' n) = stabNum s /\ recomputedAt (nd s' n) = stabNum s /\
  n ∈ handlers s' /\ (forall o, o ∈ observers (nd s' n) -> o ∈ handlers s') /\
  (forall d, d ∈ children (nd s' n) -> shouldRecomputeChild s' d = true -> imm = Some d) /\
  (forall d, imm = Some d -> d ∈ children (nd s' n) /\ shouldRecomputeChild s' d = true /\
                             canRecomputeImmediately s' n d = true).
Proof. exact C11_pass_takes_input_value. Qed.
Print Assumptions C11_pass_takes_input_value.

Example C11_ex_pass :
  let s := reach (ex11 ++ [SetVar 0%nat 4]) in
  match stabilize [] false (s <| log := [] |>) with
  | Ok (s', e) => e = None /\ value (nd s' 1%nat) = 4 /\ value (nd s' 2%nat) = 4 /\
      rev (log s') = [EvPassStart; EvCutoff 1%nat 3 4 false; EvInvoked 2%nat [4] 4; EvPassEnd XOk;
                      EvUpd 0%nat; EvUpd 1%nat; EvUpd 2%nat; EvObsUpd 3%nat 4]
  | _ => False end.
Proof. vm_compute. repeat split. Qed.

(* the hypotheses at the level of the theorem: the state in which the pass recomputes node 1 *)
Example C11_ex_hyps :
  let s := reach (ex11 ++ [SetVar 0%nat 4]) <| status := 1 |> in
  status s = 1 /\ nkind (nd s 1%nat) = KCutoff CParity /\
  apCut CParity (value (nd s 1%nat)) (valueOf s (hd 0%nat (decl (nd s 1%nat)))) = false /\
  match recomputeNodeSerial 10 [] s 1%nat with
  | Ok (s', e, imm) => e = None /\ imm = Some 2%nat /\ value (nd s' 1%nat) = 4
  | _ => False end.
Proof. vm_compute. repeat split. Qed.

(** ** 3. Writing a VarEqual the value it holds is a no-op *)
Theorem C11_varequal_noop : forall s v,
  nkind (nd s v) = KVar true -> pending (nd s v) = None -> varSet s v (value (nd s v)) = Ok s.
Proof. exact C11_varequal_noop. Qed.
Print Assumptions C11_varequal_noop.

Theorem C11_varequal_noop_pass : forall s v p c s1,
  nkind (nd s v) = KVar true -> pending (nd s v) = None ->
  status s = 0 -> Heap.cnt (heap s) <= 0 -> setDuring s = [] -> setRemoved s = [] ->
  run s [SetVar v (value (nd s v))] = Ok s1 ->
  s1 = s /\ stabilize p c s1 = Ok (passEpilogue s [EvPassEnd XOk; EvPassStart], None).
Proof. exact C11_varequal_noop_pass. Qed.
Print Assumptions C11_varequal_noop_pass.

Example C11_ex_varequal :
  let h := [NewVar 3 true; NewMap (Aff 1 1) 0%nat; Observe 1%nat; Stabilize []] in
  Heap.ids (heap (reach (h ++ [SetVar 0%nat 3]))) = [] /\       (* same value: nothing queued *)
  Heap.ids (heap (reach (h ++ [SetVar 0%nat 4]))) = [0%nat] /\  (* another value: queued *)
  reach (h ++ [SetVar 0%nat 3]) = reach h.
Proof. vm_compute. repeat split. Qed.

(** ** 4. An equality cutoff always ends up holding its input's value *)
Theorem C11_equal_cutoff_consistent : forall fuel p s n s' e imm,
  status s = 1 -> nkind (nd s n) = KCutoff CEq -> firstFault (actions_of p n WCut) = None ->
  recomputeNodeSerial fuel p s n = Ok (s', e, imm) ->
  e = None /\ value (nd s' n) = valueOf s (hd 0%nat (decl (nd s n))).
Proof. exact C11_equal_cutoff_consistent. Qed.
Print Assumptions C11_equal_cutoff_consistent.

(** Spec-level inertness of equality cutoffs (proved in SpecProofs.v): the from-scratch meaning
    of a program treats a CutoffEqual node, and a CutoffEqual inside a bind template, as the
    identity; erasing every equality cutoff from the bind templates changes no node's meaning.
    Together with C01 (values agree with the from-scratch meaning after every successful pass)
    this is "inserting CutoffEqual anywhere never changes any observer value". *)
Theorem C11_equal_cutoff_inert_spec :
  (forall s n a fuel, nkind (nd s n) = KCutoff CEq -> decl (nd s n) = [a] ->
     eval s (S fuel) n = eval s fuel a)
  /\ (forall fuel ev x e, evalT (S fuel) ev x (TCut CEq e) = evalT fuel ev x e)
  /\ (forall s n a v, nkind (nd s n) = KCutoff CEq -> decl (nd s n) = [a] ->
        (denotes s n v <-> denotes s a v))
  /\ (forall ev x e v, denotesT ev x (TCut CEq e) v <-> denotesT ev x e v).
Proof. exact SpecProofs.C11_equal_cutoff_inert_spec. Qed.
Print Assumptions C11_equal_cutoff_inert_spec.

Theorem C11_erase_equal_cutoff_templates : forall s n v,
  denotes (erase_eq_templates s) n v <-> denotes s n v.
Proof. exact SpecProofs.C11_erase_equal_cutoff_templates. Qed.
Print Assumptions C11_erase_equal_cutoff_templates.
