(** C03 with binds present — in a serial pass without a plan in which no bind swaps exactly the
    owed nodes are recomputed, each once; bind main nodes and nodes created by bind functions
    included; no lhs-change node runs.  Hypotheses as in Properties/C01_binds.v.
    [k = stabNum s] is the number of the pass; a node ran in the pass iff its [recomputedAt] stamp
    is [k] when the pass returns.  Proofs: PassBindProofs.v. *)
From incr Require Import Base Heap HeapSpec EngineDefs Engine EngineRun EngineWf Spec EngineLemmas
     EngineInv EngineInvProofs PassInv PassProofs PassBind PassBindProofs.

Theorem C03_binds : forall s s',
  Inv s -> ValInvB s -> NoLhs s -> stabilize [] false s = Ok (s', None) ->
  let k := stabNum s in
  forall evs, log s' = evs ++ log s ->
  (* (a) a node with an invocation / cutoff event ran; a node that ran was registered, and was
         queued when the pass began or has an input that changed in this pass *)
  (forall e n, e ∈ evs -> ev_node e = Some n -> recomputedAt (nd s' n) = k) /\
  (forall n, recomputedAt (nd s' n) = k ->
     inGraph (nd s n) = true /\
     (n ∈ Heap.ids (heap s) \/ exists p, p ∈ parents (nd s n) /\ changedAt (nd s' p) = k)) /\
  (* (b) no node's function ran twice *)
  NoDup (invoked_of evs) /\
  (* (c) every registered node that was stale or queued when the pass began, or one of whose
         inputs changed in this pass, ran *)
  (forall n, inGraph (nd s n) = true ->
     (isStale s n = true \/ n ∈ Heap.ids (heap s) \/
      exists p, p ∈ parents (nd s n) /\ changedAt (nd s' p) = k) ->
     recomputedAt (nd s' n) = k) /\
  (* (d) a node that did not run keeps its value and stamps *)
  (forall n, recomputedAt (nd s' n) <> k ->
     value (nd s' n) = value (nd s n) /\ recomputedAt (nd s' n) = recomputedAt (nd s n)
     /\ changedAt (nd s' n) = changedAt (nd s n)) /\
  (* (e) no lhs-change node ran *)
  (forall n, recomputedAt (nd s' n) = k -> isLhs (nkind (nd s n)) = false).
Proof. exact passB_runs_owed. Qed.
Print Assumptions C03_binds.

(** C11, pass half, with binds present *)
Theorem C11_cut_stops_propagation_binds : forall s s',
  Inv s -> ValInvB s -> NoLhs s -> stabilize [] false s = Ok (s', None) ->
  forall evs n old new, log s' = evs ++ log s -> EvCutoff n old new true ∈ evs ->
    changedAt (nd s' n) < stabNum s /\ value (nd s' n) = old /\
    forall c, c ∈ children (nd s n) -> recomputedAt (nd s' c) = stabNum s ->
      c ∈ Heap.ids (heap s) \/
      exists p, p ∈ parents (nd s c) /\ p <> n /\ changedAt (nd s' p) = stabNum s.
Proof. exact passB_cut_stops. Qed.
Print Assumptions C11_cut_stops_propagation_binds.
