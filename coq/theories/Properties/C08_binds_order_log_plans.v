(** C08, the ordering half, as a statement about the LOG of a serial pass with ANY plan: var writes
    and any number of faults (errors and panics of node functions, bind functions, cutoff functions).

    [C08_binds_order_log_any_plan]: a serial pass under a well-formed plan [p] that returns
    [Ok (s', e)], [e] not a rejected edge: in its events, between a function or cutoff event of a
    node [n] created by bind [a] ([sub s' n a]: directly or through nested binds) and a LATER run of
    [a]'s bind function ([EvBindFn a _ _]) there is an [EvNec n] or an [EvUnnec n].
    [C08_binds_order_log_faults]: the same for plans of faults only (no [plan_ok] needed).  The pass
    stops at the first fault that is reached; the events of the faulting recompute are
    [EvFault] / [EvErrH] only ([C08_binds_fault_events]), and so are those of the recovery after a
    panic; the any-plan case follows because the pass logs exactly the events of the pass under the
    faults of the plan alone (C02_C03_binds_plans.v).
    Proofs: PassBindOrderLogPlans.v. *)
From incr Require Import Base Heap HeapSpec HeapProofs EngineDefs Engine EngineRun EngineWf Spec EngineLemmas EngineLocal
     EngineInv EngineInvProofs PassInv PassProofs PassPlanProofs PassBind PassBindProofs PassBindSwap PassBindSwapProofs
     PassBindSwapStep PassBindOps PassBindSwapLog PassBindFault PassBindWrites PassBindTotal PassBindMixed PassBindFaultGen
     PassBindMultiFault PassBindPlanLog PassBindOrder PassBindOrderLog PassBindOrderPlans PassBindOrderLogPlans SpecProofs.

Theorem C08_binds_order_log_any_plan : forall s p s' e,
  Inv s -> ValInvB s -> Tplain s -> plan_ok s p = true -> stabilize p false s = Ok (s', e) -> rejected e = false ->
  forall evs pre x root a mid e0 post n, log s' = evs ++ log s ->
    evs = pre ++ EvBindFn a x root :: mid ++ e0 :: post ->
    ev_node e0 = Some n -> sub s' n a -> EvNec n ∈ mid \/ EvUnnec n ∈ mid.
Proof. exact pass_order_log_any. Qed.
Print Assumptions C08_binds_order_log_any_plan.

Theorem C08_binds_order_log_faults : forall s q s' e,
  nowrites q -> Inv s -> ValInvB s -> Tplain s -> stabilize q false s = Ok (s', e) -> rejected e = false ->
  forall evs pre x root a mid e0 post n, log s' = evs ++ log s ->
    evs = pre ++ EvBindFn a x root :: mid ++ e0 :: post ->
    ev_node e0 = Some n -> sub s' n a -> EvNec n ∈ mid \/ EvUnnec n ∈ mid.
Proof. exact pass_order_log_faults. Qed.
Print Assumptions C08_binds_order_log_faults.

(* the events of a recompute at which the fault [(n, w, AFail f)] fires *)
Theorem C08_binds_fault_events : forall fuel n w f s s1 e1 imm,
  has s n -> (match w with WFn => fnKind (nkind (nd s n)) | WCut => cutKind (nkind (nd s n)) end = true) ->
  (forall b, nkind (nd s n) = KBindLhs b -> b = n /\ is_Some (binds s !! b) /\ b_memo (bd s b) = false) ->
  recomputeNodeSerial fuel [(n, w, AFail f)] s n = Ok (s1, e1, imm) ->
  exists L, log s1 = L ++ EvFault n w f :: log s /\ nbq L.
Proof. exact rns_fault_log. Qed.
Print Assumptions C08_binds_fault_events.

(** Non-vacuity: the pass of C08_binds_order_plans_ex -- the F25 shape under a plan in which node 2's
    function writes var 1 and the bind function of 3 panics: node 2 runs, the bind function is
    reached and panics; no event of node 6 (scope 3), no bind-function event at all *)
Example C08_binds_order_log_plans_ex :
  match histB_run (init 64) exO_ops with
  | Some s =>
    plan_ok s exOP_plan &&
    match stabilize exOP_plan false s with
    | Ok (s', Some (EPanic 3%nat)) =>
      let evs := take (length (log s') - length (log s)) (log s') in
      bool_decide (log s' = evs ++ log s) && bool_decide (EvInvoked 2 [9] 10 ∈ evs) &&
      bool_decide (EvFault 3 WFn FPanic ∈ evs) && bool_decide (scope (nd s' 6%nat) = Some 3%nat) &&
      forallb (fun e => negb (bool_decide (ev_node e = Some 6%nat)) && negb (isBindFn e)) evs
    | _ => false
    end
  | None => false
  end = true.
Proof. vm_compute. reflexivity. Qed.
