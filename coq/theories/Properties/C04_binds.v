(** C04 for graphs WITH binds, values only: ParallelStabilize and Stabilize agree on the values.

    [C04_binds_values]: from one state satisfying [Inv], [ValInvB], [Tplain], [templates_ok] and
    containing no CParity cutoff, the serial pass [Stabilize []] and the parallel pass
    [ParStabilize []] (both without a plan, both returning no error) end with the SAME VALUE at
    every node that existed before the pass and is registered after both (lhs-change nodes, which
    hold no value, excepted); [C04_binds_observers]: every observer reads the same value.
    Not state equality: the two stabilizers create the nodes of new right-hand sides in different
    orders (creation indices differ), and the parallel one may run a node twice (K10/K11).
    Route: both final states are [consistent] (C01_swap_pass_plain, C01_binds_parallel), so every
    registered node holds its from-scratch value [Spec.eval] (Theorem A, node form); and [eval]
    reads only what both passes leave alone -- kinds, the declared inputs of nodes other than bind
    main nodes, the values of vars and constants, the cases and the input of bind records
    ([C04_binds_frame_serial], [C04_binds_frame_parallel], [C04_binds_eval_frame]).
    The exclusion of CParity cutoffs is needed for this route ([eval] reads the HELD value of such
    a node: it is history dependent); templates are parity-free by [templates_ok].
    [C04_binds_values_pfree]: it is enough that no CParity cutoff is READ by the evaluation of the
    node in question ([pfree s n]: none among the nodes reachable from [n] through declared
    inputs, bind inputs and the outer references of bind cases); CParity cutoffs elsewhere in the
    graph do not matter.  OPEN: nodes below a CParity cutoff.  The held value of such a cutoff is
    a fold over its runs, and the parallel stabilizer may run it twice (K10/K11); since the fold
    is idempotent the values agree if every run sees the final input and the node runs under one
    stabilizer iff it runs under the other -- which I believe (the first of two runs reads inputs
    that were registered and up to date when the block started) but have not proved; replaying
    the K10 history with a CParity cutoff as the twice-run node shows no divergence.
    Proofs: ParBindC04.v. *)
From incr Require Import Base Heap HeapSpec EngineDefs Engine EngineRun EngineWf Spec SpecProofs EngineLemmas
     EngineInv EngineInvProofs PassInv PassProofs PassBind PassBindProofs PassBindSwap PassBindSwapProofs
     PassBindSwapStep PassBindOps ParBind ParBindStep ParBindC04.

Theorem C04_binds_values : forall s sS sP,
  Inv s -> ValInvB s -> Tplain s -> templates_ok s = true -> noParity s ->
  stabilize [] false s = Ok (sS, None) -> parStabilize [] s = Ok (sP, None) ->
  forall n, has s n -> inGraph (nd sS n) = true -> inGraph (nd sP n) = true -> notLhs s n = true ->
    valueOf sS n = valueOf sP n.
Proof. exact C04_binds_values_proof. Qed.
Print Assumptions C04_binds_values.

Theorem C04_binds_values_pfree : forall s sS sP,
  Inv s -> ValInvB s -> Tplain s -> templates_ok s = true ->
  stabilize [] false s = Ok (sS, None) -> parStabilize [] s = Ok (sP, None) ->
  forall n, has s n -> pfree s n -> inGraph (nd sS n) = true -> inGraph (nd sP n) = true -> notLhs s n = true ->
    valueOf sS n = valueOf sP n.
Proof. exact C04_binds_values_pfree_proof. Qed.
Print Assumptions C04_binds_values_pfree.

Theorem C04_binds_observers : forall s sS sP,
  Inv s -> ValInvB s -> Tplain s -> templates_ok s = true -> noParity s ->
  stabilize [] false s = Ok (sS, None) -> parStabilize [] s = Ok (sP, None) ->
  forall o n, obs s !! o = Some n -> obs sS !! o = Some n -> obs sP !! o = Some n -> valueOf sS n = valueOf sP n.
Proof. exact C04_binds_observers_proof. Qed.
Print Assumptions C04_binds_observers.

Theorem C04_binds_frame_serial : forall s s',
  Inv s -> ValInvB s -> Tplain s -> stabilize [] false s = Ok (s', None) -> TF s s'.
Proof. exact passTF_serial. Qed.
Print Assumptions C04_binds_frame_serial.

Theorem C04_binds_frame_parallel : forall s s',
  Inv s -> ValInvB s -> Tplain s -> parStabilize [] s = Ok (s', None) -> TF s s'.
Proof. exact passTF_par. Qed.
Print Assumptions C04_binds_frame_parallel.

Theorem C04_binds_eval_frame : forall s s',
  Inv s -> noParity s -> TF s s' -> forall F n, has s n -> eval s' F n = eval s F n.
Proof. exact eval_ext_TF. Qed.
Print Assumptions C04_binds_eval_frame.

(** Non-vacuity: from [exS_pre] (hypotheses: C01_binds_swap.C01_swap_plain_ex) both passes succeed,
    the bind swaps in each, and node 4 holds the same value after both *)
Example C04_binds_ex :
  match stabilize [] false exS_pre, parStabilize [] exS_pre with
  | Ok (sS, None), Ok (sP, None) =>
    (valueOf sS 4%nat =? valueOf sP 4%nat) && inGraph (nd sS 4%nat) && inGraph (nd sP 4%nat)
  | _, _ => false
  end = true.
Proof. exact exS_both. Qed.
