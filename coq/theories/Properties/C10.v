(** C10 — lifecycle handlers.  The model's [log] accumulates the events of a whole history
    (most recent first); the statements are about the chronological log [rev (log s)] of any
    state satisfying the invariant [EngineInv.Inv] (which holds at every operation boundary of
    a clean history, see Properties/C05.v and C06.v for the exact scope).

    - the necessity events of every node alternate, starting with became-necessary;
    - a node's function / cutoff predicate / bind function runs only while its last necessity
      event is became-necessary;
    - at every boundary a node is registered iff its last necessity event is became-necessary;
    - [EvInval n] occurs at most once per node over the whole history (the strong form: zeroNode
      does not reset validity), and a node is invalid exactly when it has been logged.
    Scope: [run_clean] allows observers on top-level nodes only. *)
From incr Require Import Base Heap HeapSpec EngineDefs Engine EngineRun EngineWf EngineLemmas EngineInv EngineInvProofs.

Theorem C10_alternation : forall s n, Inv s -> alternates n true (rev (log s)).
Proof. exact alternation. Qed.
Print Assumptions C10_alternation.

Theorem C10_runs_only_while_necessary : forall s l_after e l_before n, Inv s ->
  log s = l_after ++ e :: l_before -> ev_runs e = Some n -> lastNU l_before n = Some true.
Proof. exact runs_only_while_necessary. Qed.
Print Assumptions C10_runs_only_while_necessary.

Theorem C10_registered_iff_last_necessary : forall s n, Inv s ->
  (inGraph (nd s n) = true <-> lastNU (log s) n = Some true).
Proof. exact registered_iff_last_necessary. Qed.
Print Assumptions C10_registered_iff_last_necessary.

Theorem C10_invalidated_once : forall s n, Inv s ->
  (length (filter (fun e => e = EvInval n) (log s)) <= 1)%nat.
Proof. exact invalidated_once. Qed.
Print Assumptions C10_invalidated_once.

Theorem C10_invalidated_iff_invalid : forall s n, Inv s -> (EvInval n ∈ log s <-> valid (nd s n) = false).
Proof. exact invalidated_iff_invalid. Qed.
Print Assumptions C10_invalidated_iff_invalid.
