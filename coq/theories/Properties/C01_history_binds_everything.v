(** The combined statement for graphs WITH binds: histories from [init] over the whole alphabet
    covered by the bind development.

    [histE_run s os = Some s']: a boolean computation.  Every operation of [os] is
    - an operation of the bind fragment of C01_history_binds (New* incl. [NewBind] with plain,
      parity-free templates -- nested binds allowed --, Observe, Unobserve, SetVar, UpdateVar,
      AddInput, RemoveInput, [Stabilize []], StabilizeCancelled) or [ParStabilize []],
      well-formed and clean, returning [Ok (_, None)]; or
    - a serial pass [Stabilize p] with ANY well-formed plan [p] ([plan_ok]): var writes
      ([ASet] / [AUpdate] by node, bind or cutoff functions) and any number of faults
      [(x, w, AFail k)], [w] the function (of a Map-like node or of a bind) or the cutoff
      function of [x], [k] an error or a panic (C07_binds_multi_fault); or a parallel pass
      [ParStabilize p] whose plan has writes and at most ONE fault (this restriction is DROPPED in
      C07_binds_parallel_multi_fault.v: [C01_history_binds_all_plans] over [histA_run], which
      includes [histE_run]) ([isOneFaultPlan]; the parallel
      stabilizer keeps the first error of a block, so with two the result depends on the order)
      and is clean (no fault of a bind function, [par_plan_clean]); returning [Ok (_, e)] with
      [e] not a rejected edge.
    [C01_history_binds_everything]: after EVERY plan-free pass of either stabilizer in such a
    history every registered node is locally consistent and every observer reads the from-scratch
    value [Spec.eval]; [C01_history_binds_everything_invariants]: [Inv], [ValInvB], [Tplain],
    [templates_ok] hold at every boundary, whatever writes, errors and panics came before.
    [C12_binds_parallel_writes_and_fault]: the one pass not stated elsewhere, writes and one
    fault in one plan under ParStabilize.
    Proofs: ParBindEverything.v (over PassBindOps, PassBindFaultGen, ParBind*, ...). *)
From incr Require Import Base Heap HeapSpec HeapProofs EngineDefs Engine EngineRun EngineWf Spec EngineLemmas EngineLocal
     EngineInv EngineInvProofs PassInv PassProofs PassPlanProofs PassBind PassBindProofs PassBindSwap PassBindSwapProofs
     PassBindSwapStep PassBindOps PassBindFault PassBindWrites PassBindTotal PassBindMixed PassBindFaultGen
     ParBind ParBindStep ParBindHistory ParBindWrites ParBindFault PassBindMultiFault ParBindEverything SpecProofs.

Theorem C01_history_binds_everything : forall mh os1 o os2 sf,
  (0 < mh)%nat -> histE_run (init mh) (os1 ++ o :: os2) = Some sf ->
  o = Stabilize [] \/ o = ParStabilize [] ->
  exists s1 s2, histE_run (init mh) os1 = Some s1 /\ step s1 o = Ok (s2, None) /\
    consistent s2 = true /\ observers_agree s2 = true /\ Inv s2 /\ ValInvB s2 /\ Tplain s2.
Proof. exact histE_everything. Qed.
Print Assumptions C01_history_binds_everything.

Theorem C01_history_binds_everything_invariants : forall os s0 s,
  Inv s0 -> ValInvB s0 -> Tplain s0 -> templates_ok s0 = true -> histE_run s0 os = Some s ->
  Inv s /\ ValInvB s /\ Tplain s /\ templates_ok s = true.
Proof. exact histE_inv. Qed.
Print Assumptions C01_history_binds_everything_invariants.

Theorem C01_history_binds_everything_step : forall s o s' e,
  Inv s -> ValInvB s -> Tplain s -> templates_ok s = true -> isPlanPass o = true -> op_ok s o = true ->
  op_clean s o = true -> step s o = Ok (s', e) -> rejected e = false ->
  Inv s' /\ ValInvB s' /\ Tplain s' /\ templates_ok s' = true.
Proof. exact stepE_inv. Qed.
Print Assumptions C01_history_binds_everything_step.

(* the mixed-stabilizer fragment of C01_history_binds_both is included *)
Theorem C01_history_binds_everything_includes : forall os s0 s, histP_run s0 os = Some s -> histE_run s0 os = Some s.
Proof. exact histP_histE. Qed.
Print Assumptions C01_history_binds_everything_includes.

Theorem C12_binds_parallel_writes_and_fault : forall s p x w k s' e,
  Inv s -> ValInvB s -> Tplain s -> plan_ok s p = true -> par_plan_clean s p = true -> fo p = fplan x w k ->
  parStabilize p s = Ok (s', e) -> rejected e = false ->
  (e = None \/ e = Some (faultErr x k)) /\ Inv s' /\ ValInvB s' /\ Tplain s' /\ CF s s' /\
  (e = Some (faultErr x k) -> inHeap s' x = true).
Proof. exact parM_any. Qed.
Print Assumptions C12_binds_parallel_writes_and_fault.

(** Non-vacuity: [exE_ops] is a history of the alphabet: both stabilizers; a bind that swaps; a
    writing plan under ParStabilize; a failing node function under Stabilize with a parallel retry;
    a cutoff function that writes a var and then panics under ParStabilize with a serial retry; a
    cancelled pass; its faulting passes return [EUser 5] and [EPanic 2] *)
Example C01_history_binds_everything_ex : exists s, histE_run (init 64) exE_ops = Some s.
Proof. exact exE_runs. Qed.

Example C01_history_binds_everything_results_ex :
  match histE_run (init 64) (take 11 exE_ops) with
  | Some s =>
    match stabilize [(5%nat, WFn, AFail FErr)] false s with
    | Ok (s1, Some (EUser 5%nat)) =>
      match histE_run s1 [ParStabilize []; SetVar 0%nat 5] with
      | Some s2 =>
        match parStabilize [(2%nat, WCut, ASet 1%nat 9); (2%nat, WCut, AFail FPanic)] s2 with
        | Ok (s3, Some (EPanic 2%nat)) => inHeap s3 2%nat && (value (nd s3 1%nat) =? 9)
        | _ => false
        end
      | None => false
      end
    | _ => false
    end
  | None => false
  end = true.
Proof. exact exE_results. Qed.
