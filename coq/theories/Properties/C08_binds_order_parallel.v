(** C08, the ordering half, under ParallelStabilize: REFUTED on the model (a facet of the known finding
    K10; confirmed on the library at parallelism 1).  For the serial stabilizer no node of the generation a bind is about to replace has
    run, in its current period of necessity, before the swap within the swapping pass
    (C08_binds_order.v).  Under ParallelStabilize it can.

    [C08_binds_order_parallel_refuted]: the statement "between a function / cutoff event of a node
    [n] created by bind [a] and a LATER run of [a]'s bind function in the same parallel pass there is
    an [EvNec n] or an [EvUnnec n] (the node left the graph or came back)" is false.
    Witness [k13_ops]: bind T (lhs-change node 6, height 1) built node 15 (height 2, reads var 3);
    T's main node is the right-hand side of bind A and becomes the right-hand side of bind B in this
    pass (lhs-change nodes 8 and 10, height 2); var 3 changed, so node 15 is queued at height 2.
    The block of height 2 is {8, 10, 15}; lhs-change nodes first: A drops T -- nodes 7, 6, 15 leave
    the graph and lose their stamps --, B links T again -- 7, 6, 15 are registered anew and queued,
    node 6 BELOW the running block --; then the block still runs node 15 ([EvInvoked 15 [20] 10], K10);
    the next block is node 6: T's function runs again ([EvBindFn 6 0 (Some 17)]) and the swap
    invalidates node 15, which has just run in the period that began with B's [EvNec 15].  The pass
    ends consistent.  The serial stabilizer on the same state ([C08_binds_order_parallel_serial_ex])
    runs node 15 only BEFORE A's swap, i.e. in the earlier period of necessity, and not again before
    T's swap.  Note that no input of bind T changed in this pass: T's function re-ran only because T
    had left the graph and lost its stamp, so the situation C08's text speaks of (a swap caused by
    a changed bind input) does not arise here; it is recorded as a facet of K10.
    The pre-state satisfies [Inv], [ValInvB], [Tplain] (history theorem).
    Proofs: ParBindOrder.v. *)
From incr Require Import Base Heap HeapSpec HeapProofs EngineDefs Engine EngineRun EngineWf Spec EngineLemmas EngineLocal
     EngineInv EngineInvProofs PassInv PassProofs PassPlanProofs PassBind PassBindProofs PassBindSwap PassBindSwapProofs
     PassBindSwapStep PassBindOps PassBindSwapLog PassBindOrder ParBind ParBindStep ParBindHistory ParBindOrder SpecProofs.

Theorem C08_binds_order_parallel_refuted :
  ~ (forall s s', Inv s -> ValInvB s -> Tplain s -> parStabilize [] s = Ok (s', None) ->
       forall evs pre x root a mid e post n, log s' = evs ++ log s ->
         evs = pre ++ EvBindFn a x root :: mid ++ e :: post ->
         ev_node e = Some n -> scope (nd s' n) = Some a -> EvNec n ∈ mid \/ EvUnnec n ∈ mid).
Proof. exact order_statement_par_refuted. Qed.
Print Assumptions C08_binds_order_parallel_refuted.

(* the witness pass, its events, the scope of node 15; the pass ends consistent *)
Example C08_binds_order_parallel_ex :
  (Inv k13_pre /\ ValInvB k13_pre /\ Tplain k13_pre) /\
  parStabilize [] k13_pre = Ok (k13_post, None) /\ log k13_post = k13_evs ++ log k13_pre /\
  scope (nd k13_post 15%nat) = Some 6%nat /\ consistent k13_post = true /\
  k13_evs = take 19 k13_evs ++ EvBindFn 6 0 (Some 17%nat) :: [] ++ EvInvoked 15 [20] 10 :: drop 21 k13_evs.
Proof.
  split; [exact k13_pre_hyps|]. destruct k13_pass as (A & B & C & D).
  split; [exact A|]. split; [exact B|]. split; [exact C|]. split; [exact D|]. vm_compute. reflexivity.
Qed.

Example C08_binds_order_parallel_serial_ex :
  match stabilize [] false k13_pre with
  | Ok (s', None) =>
    bool_decide (take 39 (log s') =
      [EvUpd 17; EvUpd 16; EvObsUpd 13 10; EvObsUpd 12 5; EvUpd 11; EvUpd 10; EvUpd 9; EvUpd 8; EvUpd 7; EvUpd 6;
       EvUpd 5; EvUpd 4; EvUpd 1; EvUpd 0; EvPassEnd XOk;
       EvInvoked 17 [20] 10; EvInval 15; EvUnnec 15; EvNec 17;
       EvBindFn 6 0 (Some 17%nat);
       EvInval 14; EvUnnec 14; EvNec 3; EvNec 15; EvNec 2; EvNec 6; EvNec 7;
       EvBindFn 10 1 (Some 7%nat);
       EvUnnec 3; EvUnnec 15; EvUnnec 2; EvUnnec 6; EvUnnec 7; EvNec 16;
       EvBindFn 8 1 (Some 16%nat);
       EvInvoked 15 [20] 10; EvInvoked 5 [1] 1; EvInvoked 4 [1] 1; EvPassStart]) &&
    bool_decide (drop 39 (log s') = log k13_pre) && consistent s'
  | _ => false
  end = true.
Proof. exact k13_serial. Qed.
