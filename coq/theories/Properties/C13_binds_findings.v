(** C13 on graphs with binds under ParallelStabilize: the known finding K09 (K06 occurring under the
    parallel stabilizer itself) as a kernel-checked witness on the model.  (K06 for the serial
    stabilizer is [C13_value_statement_refuted] in C13_binds_swap.v.)

    [C13_binds_parallel_value_refuted]: "a node that is registered after a parallel pass and whose
    value changed in the pass has its update handler run" is false.  Witness [k09_ops]: the cutoff
    node 2 changes in the block of height 1 (handler filed); the lhs-change node of the outer bind
    (height 2) swaps in the next block: the old inner bind is torn down and node 2 leaves the graph
    (handler withdrawn, stamps reset); the new inner bind links node 2 again, its second recompute
    is cut off (8 = 8): node 2 is registered, holds a new value, and no [EvUpd 2] was logged.
    The positive statement is stamp-based ([C13_binds_parallel]: handlers = registered nodes with the
    pass's change stamp).  Proofs: ParBindFindings.v. *)
From incr Require Import Base Heap HeapSpec HeapProofs EngineDefs Engine EngineRun EngineWf Spec EngineLemmas EngineLocal
     EngineInv EngineInvProofs PassInv PassProofs PassPlanProofs PassBind PassBindProofs PassBindSwap PassBindSwapProofs
     PassBindSwapStep PassBindOps PassBindSwapLog PassBindSwapHandlers ParBind ParBindStep ParBindHistory ParBindLog ParBindC04
     ParBindFindings SpecProofs.

Theorem C13_binds_parallel_value_refuted :
  ~ (forall s s', Inv s -> ValInvB s -> Tplain s -> parStabilize [] s = Ok (s', None) ->
       forall evs n, log s' = evs ++ log s -> inGraph (nd s' n) = true ->
         value (nd s' n) <> value (nd s n) -> EvUpd n ∈ evs).
Proof. exact C13_value_statement_par_refuted. Qed.
Print Assumptions C13_binds_parallel_value_refuted.

Example C13_binds_K09_ex :
  match histP_run (init 64) k09_ops with
  | Some s => match parStabilize [] s with
              | Ok (s', None) =>
                bool_decide (log s' = evsOf s s' ++ log s) && inGraph (nd s' 2%nat) &&
                (value (nd s 2%nat) =? 5) && (value (nd s' 2%nat) =? 8) && negb (bool_decide (EvUpd 2%nat ∈ evsOf s s'))
              | _ => false end
  | None => false end = true.
Proof. vm_compute. reflexivity. Qed.
