(** C02 for passes in which binds SWAP -- every function invocation of a serial pass without a plan
    saw the values its inputs hold when the pass returns, and returned the value its node holds
    then, FOR NODES THAT ARE REGISTERED WHEN THE PASS RETURNS AND FOR THE RUN OF THEIR CURRENT
    PERIOD OF NECESSITY.

    With swaps a node can run, be dropped by a swapping bind (its stamps are reset), be linked
    again by a later bind of the same pass (event [EvNec n]: a new period of necessity) and run
    again (Properties/C03_binds_swap.v has the example).  [evs] are the events of the pass, most
    recent first; the invocation [EvInvoked n args r] at [evs = pre ++ _ :: post] belongs to the
    current period of [n] iff no [EvNec n] occurs in [pre].  Nodes that are out of the graph when
    the pass returns are exempt (their invocation saw the values its inputs held when it ran: the
    event is built from them, [PassBindProofs.rq_log]).

    Hypotheses: [Inv], [ValInvB], [Tplain] (bind templates, nested binds included, with [TNil] only
    as a whole case) -- the invariants of every history of the fragment of
    Properties/C01_history_binds.v.  Proofs: PassBindSwapLog.v. *)
From incr Require Import Base Heap HeapSpec EngineDefs Engine EngineRun EngineWf Spec EngineLemmas
     EngineInv EngineInvProofs PassInv PassProofs PassBind PassBindProofs PassBindSwap PassBindSwapProofs
     PassBindSwapStep PassBindOps PassBindSwapLog.

Theorem C02_binds_swap : forall s s',
  Inv s -> ValInvB s -> Tplain s -> stabilize [] false s = Ok (s', None) ->
  forall evs pre n args r post, log s' = evs ++ log s -> evs = pre ++ EvInvoked n args r :: post ->
    EvNec n ∉ pre -> inGraph (nd s' n) = true ->
    args = map (valueOf s') (decl (nd s' n)) /\ r = value (nd s' n) /\ recomputedAt (nd s' n) = stabNum s.
Proof. exact passS_args_final. Qed.
Print Assumptions C02_binds_swap.

(** Non-vacuity: the pass of [exD_run] (a pass in which two binds swap and node 1 runs twice)
    satisfies the hypotheses; its last invocation of node 1 is an instance. *)
Example C02_binds_swap_ex : exists s s', stabilize [] false s = Ok (s', None) /\
  Inv s /\ ValInvB s /\ Tplain s /\
  exists evs pre post, log s' = evs ++ log s /\ evs = pre ++ EvInvoked 1 [5] 6 :: post /\
    EvNec 1%nat ∉ pre /\ inGraph (nd s' 1%nat) = true.
Proof.
  destruct exD_run as (s & s' & _ & H & I & V & T & El & Hn & Hg). exists s, s'. split; [exact H|].
  split; [exact I|]. split; [exact V|]. split; [exact T|].
  eexists _, (take 11 (log s')), _. split; [exact El|]. split; [reflexivity|]. auto.
Qed.
