(** C03, "whoever ran was owed", for ParallelStabilize on graphs WITH binds.

    [C03_binds_parallel_ran_was_owed]: a node that is registered when a plan-free parallel pass
    returns and has run in it (its recompute stamp is the pass number) was queued when the pass
    began, or one of its current inputs carries the pass's change stamp, or it became necessary
    during the pass ([EvNec n] among the events of the pass: nodes created by a bind function,
    nodes linked again by a swap -- the nodes that may run twice, C02_C03_binds_parallel).
    Pieces: the invariant [ParBindOwed.LOP] through a node that is not a lhs-change node
    ([_step]) and through a swapping bind ([_bind_step]).  Proofs: ParBindOwed.v. *)
From incr Require Import Base Heap HeapSpec HeapProofs EngineDefs Engine EngineRun EngineWf Spec EngineLemmas EngineLocal
     EngineInv EngineInvProofs PassInv PassProofs PassPlanProofs PassBind PassBindProofs PassBindSwap
     PassBindSwapProofs PassBindSwapStep PassBindOps PassBindSwapLog PassBindSwapOwed ParBind ParBindStep ParBindHistory
     ParBindLog ParBindOwed.

Theorem C03_binds_parallel_ran_was_owed : forall s s',
  Inv s -> ValInvB s -> Tplain s -> parStabilize [] s = Ok (s', None) ->
  forall evs n, log s' = evs ++ log s -> inGraph (nd s' n) = true -> recomputedAt (nd s' n) = stabNum s ->
    n ∈ Heap.ids (heap s) \/ (exists p, p ∈ parents (nd s' n) /\ changedAt (nd s' p) = stabNum s) \/ EvNec n ∈ evs.
Proof. exact parS_ran_was_owed. Qed.
Print Assumptions C03_binds_parallel_ran_was_owed.

Theorem C03_binds_parallel_owed_step : forall h0 s m R s' evs new,
  PInv s -> LInvP s (m :: R) -> inGraph (nd s m) = true -> isLhs (nkind (nd s m)) = false ->
  stepPostB s m s' None -> LOP h0 s (m :: R) evs -> LOP h0 s' R (new ++ evs).
Proof. exact LOP_step. Qed.
Print Assumptions C03_binds_parallel_owed_step.

Theorem C03_binds_parallel_owed_bind_step : forall h0 s b R s' evs new,
  PInv s -> PInv s' -> LInvP s (b :: R) -> inGraph (nd s b) = true -> bfr s b s' -> bfrP s b R s' ->
  log s' = new ++ log s -> LOP h0 s (b :: R) evs -> LOP h0 s' R (new ++ evs).
Proof. exact LOP_bind. Qed.
Print Assumptions C03_binds_parallel_owed_bind_step.

(** Non-vacuity: the parallel pass of [exD2_pre]; node 3, which ran twice, is of the third kind *)
Example C03_binds_parallel_owed_ex :
  (Inv exD2_pre /\ ValInvB exD2_pre /\ Tplain exD2_pre) /\
  parStabilize [] exD2_pre = Ok (exD2_post, None) /\ log exD2_post = exD2_evs ++ log exD2_pre /\
  EvNec 3%nat ∈ exD2_evs.
Proof.
  split; [exact exD2_pre_hyps|]. destruct exD2_pass as [A B]. split; [exact A|]. split; [exact B|].
  apply elem_of_list_In. cbn. tauto.
Qed.
