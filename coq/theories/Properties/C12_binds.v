(** C12 on graphs WITH binds (swapping binds, nested templates) -- a pass whose node functions and
    BIND functions write vars ([ASet] / [AUpdate] actions of a writes-only plan) computes exactly
    what the write-free pass computes; the writes are deferred to the end of the pass.

    Mid-pass a write only sets the var's [pending] field and records the var in [setDuring]; a
    written var that a swapping bind drops from the graph later in the pass moves to [setRemoved]
    (its write is still applied at the end; it is not queued).  [PassBindWrites.cl] erases exactly
    [pending] / [setDuring] / [setRemoved]; every function a pass runs -- teardown, invalidation,
    becoming necessary, adjust-heights, [changeParent], [inst], the recompute tails -- commutes with
    it, and an invocation under a writes-only plan is invisible through it.

    [writesEndB s s' t' W]: [t'] is the result of the write-free pass of [s] (it exists, is
    consistent and satisfies the invariants); [s'] has the same log (same invocations, arguments,
    results, handler events), the same binds / counters / observers, node records equal up to
    value / pending / setAt, and equal up to pending outside [W] (the vars written in the pass);
    every written var that is in the graph is queued; [Inv], [ValInvB], [Tplain] hold again -- so
    the next pass propagates the writes.  Proofs: PassBindWrites.v. *)
From incr Require Import Base Heap HeapSpec EngineDefs Engine EngineRun EngineWf Spec EngineLemmas EngineLocal
     EngineInv EngineInvProofs PassInv PassProofs PassPlanProofs PassBind PassBindProofs PassBindSwap PassBindSwapProofs
     PassBindSwapStep PassBindOps PassBindFault PassBindWrites SpecProofs.

Theorem C12_binds_noninterference : forall s p s',
  Inv s -> ValInvB s -> Tplain s -> writes_only p = true -> plan_ok s p = true ->
  stabilize p false s = Ok (s', None) -> exists t' W, writesEndB s s' t' W.
Proof. exact pass_writesB. Qed.
Print Assumptions C12_binds_noninterference.

(** the steps behind it: one recompute (of any kind, a lhs-change node included), and the loop, seen
    through [cl], are those of the write-free pass *)
Theorem C12_binds_recompute : forall fuel p s n s' e imm,
  status s = 1 -> writes_only p = true ->
  recomputeNodeSerial fuel p s n = Ok (s', e, imm) ->
  recomputeNodeSerial fuel [] (cl s) n = Ok (cl s', e, imm).
Proof. exact rns_sim. Qed.
Print Assumptions C12_binds_recompute.

Theorem C12_binds_loop : forall fuel p s al s' e at_ al',
  status s = 1 -> writes_only p = true ->
  passLoop fuel p s al = Ok (s', e, at_, al') -> passLoop fuel [] (cl s) al = Ok (cl s', e, at_, al').
Proof. exact loop_sim. Qed.
Print Assumptions C12_binds_loop.

(** the write-free loop does not see [pending] / [setDuring] / [setRemoved] at all *)
Theorem C12_binds_loop_erasure : forall fuel s al, passLoop fuel [] (cl s) al = rmap clL (passLoop fuel [] s al).
Proof. exact loop_cl. Qed.
Print Assumptions C12_binds_loop_erasure.

(** Histories from the empty graph: the operations of Properties/C07_binds.v plus passes with
    writes-only plans ([histW_run]).  The invariants hold at every boundary, ... *)
Theorem C12_history_binds_invariants : forall os s0 s,
  Inv s0 -> ValInvB s0 -> Tplain s0 -> templates_ok s0 = true -> histW_run s0 os = Some s ->
  Inv s /\ ValInvB s /\ Tplain s /\ templates_ok s = true.
Proof. exact histW_inv. Qed.
Print Assumptions C12_history_binds_invariants.

(** ... every plan-free pass ends with every registered node consistent and every observer reading
    the from-scratch value -- whatever writes, failures and panics the earlier passes had -- ... *)
Theorem C12_history_binds : forall mh os1 os2 sf,
  (0 < mh)%nat -> histW_run (init mh) (os1 ++ Stabilize [] :: os2) = Some sf ->
  exists s1 s2, histW_run (init mh) os1 = Some s1 /\ step s1 (Stabilize []) = Ok (s2, None) /\
    consistent s2 = true /\ observers_agree s2 = true /\ Inv s2 /\ ValInvB s2.
Proof. exact C12_history_planfree_proof. Qed.
Print Assumptions C12_history_binds.

(** ... and every pass with writes computes what the write-free pass computes *)
Theorem C12_history_binds_writes : forall mh os1 p os2 sf,
  (0 < mh)%nat -> writes_only p = true -> p <> [] -> histW_run (init mh) (os1 ++ Stabilize p :: os2) = Some sf ->
  exists s1 s2 t' W, histW_run (init mh) os1 = Some s1 /\ stabilize p false s1 = Ok (s2, None) /\
    Inv s1 /\ ValInvB s1 /\ Tplain s1 /\ writesEndB s1 s2 t' W.
Proof. exact C12_history_writes_proof. Qed.
Print Assumptions C12_history_binds_writes.

(** Non-vacuity: [exW_ops] -- in the pass in which the bind swaps (var 0 was set), the BIND function
    sets var 1 and the function of node 4 updates var 0, the bind's own input; var 1 leaves the graph
    in that pass (the new right-hand side is [Return 5]): its write is applied but it is not queued;
    var 0 is queued and the next pass swaps the bind back. *)
Example C12_history_binds_ex : exists s, histW_run (init 64) exW_ops = Some s.
Proof. exact exW_runs. Qed.

Example C12_binds_ex : exists s s', histW_run (init 64) (take 7 exW_ops) = Some s /\
  stabilize exW_plan false s = Ok (s', None) /\
  value (nd s 0%nat) = 3 /\ value (nd s 1%nat) = 3 /\
  value (nd s' 0%nat) = 4 /\ value (nd s' 1%nat) = 9 /\ Heap.ids (heap s') = [0%nat] /\ inGraph (nd s' 1%nat) = false.
Proof.
  assert (H : match histW_run (init 64) (take 7 exW_ops) with
              | Some s => match stabilize exW_plan false s with
                          | Ok (s', None) =>
                            (value (nd s 0%nat) =? 3) && (value (nd s 1%nat) =? 3) && (value (nd s' 0%nat) =? 4) &&
                            (value (nd s' 1%nat) =? 9) && bool_decide (Heap.ids (heap s') = [0%nat]) && negb (inGraph (nd s' 1%nat))
                          | _ => false end
              | None => false end = true) by (vm_compute; reflexivity).
  destruct (histW_run (init 64) (take 7 exW_ops)) as [s|] eqn:E1; [|discriminate H].
  destruct (stabilize exW_plan false s) as [[s' [e|]]| |] eqn:E2; try discriminate H.
  exists s, s'. rewrite !andb_true_iff, !Z.eqb_eq, bool_decide_eq_true, negb_true_iff in H.
  destruct H as [[[[[A B] C] D] E] F]. split; [reflexivity|]. split; [exact E2|]. auto 10.
Qed.
