(** C13 for a FAULTED parallel pass on graphs with binds (stamp form).  (One fault; any number of
    faults and var writes: C13_binds_parallel_multi_fault.v, which subsumes this file.)

    [C13_binds_parallel_faults]: a parallel pass with one injected fault [(x, w, AFail k)] (function
    of a Map-like node or cutoff function; error or panic) that returns [Ok (s', e)], [e] not a
    rejected edge: after the end-of-pass marker [EvPassEnd (classify e)] the log holds exactly the
    update-handler events [H], each once -- [EvUpd n] for the nodes registered when the pass
    returns that carry its change stamp (those that changed before the fault stopped the pass,
    the rest of the faulting block included), [EvObsUpd o v] for their observers.  As in the
    serial stabilizer (C13_binds_writes_faults) the handlers of the nodes that did change run
    also when the pass fails; the failed node itself did not change (its stamps are restored /
    reset), so no handler runs for it.  Proofs: ParBindFault.v ([loopPFH], [parF_handlers]). *)
From incr Require Import Base Heap HeapSpec HeapProofs EngineDefs Engine EngineRun EngineWf Spec EngineLemmas EngineLocal
     EngineInv EngineInvProofs PassInv PassProofs PassPlanProofs PassPlanProofs2 PassBind PassBindProofs PassBindSwap
     PassBindSwapProofs PassBindSwapStep PassBindOps PassBindFault PassBindWrites PassBindTotal PassBindMixed PassBindFaultGen
     ParBind ParBindStep ParBindHistory ParBindWrites ParBindLog PassBindSwapLog PassBindSwapHandlers ParBindHandlers ParBindFault.

Theorem C13_binds_parallel_faults : forall x w k s s' e,
  Inv s -> ValInvB s -> Tplain s -> par_plan_clean s (fplan x w k) = true ->
  parStabilize (fplan x w k) s = Ok (s', e) -> rejected e = false ->
  exists L H,
    rev (log s') = rev (log s) ++ [EvPassStart] ++ L ++ [EvPassEnd (classify e)] ++ H /\
    Forall passEv L /\ Forall EngineLocal.isHandlerEv H /\ NoDup H /\
    (forall n, EvUpd n ∈ H <-> inGraph (nd s' n) = true /\ changedAt (nd s' n) = stabNum s) /\
    (forall o v, EvObsUpd o v ∈ H <->
       exists n, obs s' !! o = Some n /\ changedAt (nd s' n) = stabNum s /\ v = valueOf s' n).
Proof. exact parF_handlers_any. Qed.
Print Assumptions C13_binds_parallel_faults.

(* the handler-set invariant across the faulting recompute *)
Theorem C13_binds_parallel_error_step : forall x w fuel st R st' e',
  PInv st -> LInvP st (x :: R) -> inGraph (nd st x) = true -> tkw w (nkind (nd st x)) = true ->
  isDone st x = false -> recomputeNodeParallel fuel (fplan x w FErr) st x = Ok (st', e') -> HInv st -> HInv st'.
Proof. exact fault_HInv_err. Qed.
Print Assumptions C13_binds_parallel_error_step.

Theorem C13_binds_parallel_panic_step : forall x w fuel st R st' e',
  PInv st -> LInvP st (x :: R) -> inGraph (nd st x) = true -> tkw w (nkind (nd st x)) = true ->
  isDone st x = false -> recomputeNodeParallel fuel (fplan x w FPanic) st x = Ok (st', e') -> HInv st -> HInv st'.
Proof. exact fault_HInv_panic. Qed.
Print Assumptions C13_binds_parallel_panic_step.

(** Non-vacuity: C07_binds_parallel.C07_binds_parallel_error_ex / _panic_ex are instances of the
    hypotheses (a failing node function while the bind swaps; a panicking cutoff function). *)
