(** C11 along histories: "equality cutoffs and VarEqual are inert: a program and its cutoff-free
    twin are observationally equivalent over every history" -- bind-free fragment.

    [erase_op] replaces [NewCutoff CEq a] by [NewCutoff CNever a] and [NewVar v true] (VarEqual) by
    [NewVar v false]; node ids are creation indices, so both histories name the same nodes.

    STATUS: PARTIAL.  Full statement: for every [os] with [hist_ok mh os], [map erase_op os] is
    [hist_ok] too and after every pass both runs hold the same values.  Proved: the second half,
    for histories on which BOTH runs are [hist_ok] (the checker [twin_ok] evaluates both), without
    parity cutoffs and without Var.Update.  Missing:
    - that the erased history runs at all: its Observe / Unobserve / AddInput / RemoveInput must be
      shown to succeed (no height-limit or cycle rejection, no crash) because the original's did,
      i.e. that the graph STRUCTURE evolves identically in both runs -- a simulation of
      becameNecessaryRecursive / removeParents / adjustHeights under a relation that lets kinds
      flags, values, stamps and the heap differ (the same engine-wide congruence that
      C04_history_mixed_partial lacks).  On 100 generated `cutoffs` histories the twin always ran,
      with equal registered sets and equal heights after every operation;
    - parity cutoffs: their held value is an input of [Spec.eval] and no invariant ties it to the
      input's value (on the generated histories lock-step held with them as well);
    - Var.Update reads the [pending] field, which no invariant describes between operations. *)
From incr Require Import Base Heap HeapSpec EngineDefs Engine EngineRun EngineWf Spec Par StaticHistory TwinHistory.

(** after every pass of the history: the same observers, every observer reads the same value in
    both runs, and so does every node registered in both *)
Theorem C11_history_twin_partial : forall mh os1 o os2,
  (0 < mh)%nat -> twin_ok mh (os1 ++ o :: os2) = true -> is_pass o = true ->
  exists sA sB, hist_run (init mh) (os1 ++ [o]) = Some sA /\ hist_run (init mh) (map erase_op (os1 ++ [o])) = Some sB /\
    obs sA = obs sB /\
    (forall x n, obs sA !! x = Some n -> valueOf sA n = valueOf sB n) /\
    (forall n, inGraph (nd sA n) = true -> inGraph (nd sB n) = true -> valueOf sA n = valueOf sB n).
Proof. exact twin_history_checked. Qed.
Print Assumptions C11_history_twin_partial.

(** the lock-step relation between the two runs at EVERY boundary: same creation counter, same
    observers, same declared inputs, kinds equal up to erasure, same values of vars and constants *)
Theorem C11_history_lockstep : forall mh os sA sB,
  (0 < mh)%nat -> forallb twin_allowed os = true ->
  hist_run (init mh) os = Some sA -> hist_run (init mh) (map erase_op os) = Some sB -> TW sA sB.
Proof. exact twin_lockstep_init. Qed.
Print Assumptions C11_history_lockstep.

(** the specification does not see the difference *)
Theorem C11_eval_twin : forall sA sB, TW sA sB -> PassInv.BF sA -> forall fuel n, eval sB fuel n = eval sA fuel n.
Proof. exact eval_twin. Qed.
Print Assumptions C11_eval_twin.

(** Non-vacuity ([tx], 14 operations from [init 16]): node 0 is a VarEqual holding 4, written 4 after
    the first pass (a no-op: nothing queued; the twin queues node 0); node 3 is a CutoffEqual over a
    constant map, which cuts in the third pass (the twin's never cuts); same values everywhere *)
Example C11_history_ex :
  length tx = 14%nat /\ twin_ok 16 tx = true /\
  queued_after tx 9 = [] /\ queued_after (map erase_op tx) 9 = [0%nat] /\
  cut_verdicts (tx_final tx) = [(3%nat, true); (3%nat, false)] /\
  cut_verdicts (tx_final (map erase_op tx)) = [(3%nat, false); (3%nat, false)] /\
  obsValues (tx_final tx) = [(6%nat, 4)] /\ obsValues (tx_final (map erase_op tx)) = [(6%nat, 4)].
Proof. split; [reflexivity|]. repeat (split; [vm_compute; reflexivity|]). vm_compute; reflexivity. Qed.
