(** C11 along histories: "equality cutoffs and VarEqual are inert: a program and its cutoff-free
    twin are observationally equivalent over every history" -- bind-free fragment.

    [erase_op] replaces [NewCutoff CEq a] by [NewCutoff CNever a] and [NewVar v true] (VarEqual) by
    [NewVar v false]; node ids are creation indices, so both histories name the same nodes.

    STATUS: FULL for the fragment without parity cutoffs, Var.Update and cancelled passes
    ([C11_history_twin]): whenever the history runs ([hist_ok], only the ORIGINAL is evaluated), so does
    its twin, and after every pass the same nodes are registered, the observers are the same and every
    registered node holds the same value in both runs.  That the twin runs at all is the structural
    congruence of StructCongruence.v in skeleton mode (kinds up to erasure; values, stamps, [pending]
    and the recompute heap free) plus PassPlanProofs.pass_total.  Excluded, and why:
    - [StabilizeCancelled]: NECESSARY ([C11_history_cancelled_refuted]).  A Stabilize with a
      cancelled context returns ErrCancelled exactly when something is queued; after a VarEqual was
      written with the value it holds nothing is queued in the original, the twin has queued the var;
    - parity cutoffs: their held value is an input of [Spec.eval] and no invariant ties it to the
      input's value (on 100 generated `cutoffs` histories lock-step held with them as well);
    - Var.Update reads the [pending] field, which no invariant describes between operations.
    [C11_history_twin_partial] (both runs evaluated by the checker) is kept; it also covers histories
    with cancelled passes on which both runs happen to succeed. *)
From incr Require Import Base Heap HeapSpec EngineDefs Engine EngineRun EngineWf Spec Par StaticHistory TwinHistory.

(** whenever the history runs, so does its twin; after every pass: the same observers, the same
    registered nodes, every observer and every registered node reads the same value in both runs *)
Theorem C11_history_twin : forall mh os1 o os2,
  (0 < mh)%nat -> twin_full_ok mh (os1 ++ o :: os2) = true -> is_pass o = true ->
  exists sA sB, hist_run (init mh) (os1 ++ [o]) = Some sA /\ hist_run (init mh) (map erase_op (os1 ++ [o])) = Some sB /\
    obs sA = obs sB /\
    (forall x n, obs sA !! x = Some n -> valueOf sA n = valueOf sB n) /\
    (forall n, inGraph (nd sB n) = inGraph (nd sA n)) /\
    (forall n, inGraph (nd sA n) = true -> valueOf sA n = valueOf sB n).
Proof. exact twin_history_full_checked. Qed.
Print Assumptions C11_history_twin.

(** at EVERY boundary the twin has run, in lock step and with the same graph structure (declared
    inputs, edges, heights, registration, observers, registry, counters) *)
Theorem C11_history_twin_runs : forall mh os sA,
  (0 < mh)%nat -> forallb twin_full_allowed os = true -> hist_run (init mh) os = Some sA ->
  exists sB, hist_run (init mh) (map erase_op os) = Some sB /\ TW sA sB /\ SR false sA sB.
Proof. exact twin_runs. Qed.
Print Assumptions C11_history_twin_runs.

(** the new checker implies the old one *)
Theorem C11_twin_full_ok_twin : forall mh os, (0 < mh)%nat -> twin_full_ok mh os = true -> twin_ok mh os = true.
Proof. exact twin_full_ok_twin. Qed.
Print Assumptions C11_twin_full_ok_twin.

(** after every pass of the history: the same observers, every observer reads the same value in
    both runs, and so does every node registered in both *)
Theorem C11_history_twin_partial : forall mh os1 o os2,
  (0 < mh)%nat -> twin_ok mh (os1 ++ o :: os2) = true -> is_pass o = true ->
  exists sA sB, hist_run (init mh) (os1 ++ [o]) = Some sA /\ hist_run (init mh) (map erase_op (os1 ++ [o])) = Some sB /\
    obs sA = obs sB /\
    (forall x n, obs sA !! x = Some n -> valueOf sA n = valueOf sB n) /\
    (forall n, inGraph (nd sA n) = true -> inGraph (nd sB n) = true -> valueOf sA n = valueOf sB n).
Proof. exact twin_history_checked. Qed.
Print Assumptions C11_history_twin_partial.

(** the lock-step relation between the two runs at EVERY boundary: same creation counter, same
    observers, same declared inputs, kinds equal up to erasure, same values of vars and constants *)
Theorem C11_history_lockstep : forall mh os sA sB,
  (0 < mh)%nat -> forallb twin_allowed os = true ->
  hist_run (init mh) os = Some sA -> hist_run (init mh) (map erase_op os) = Some sB -> TW sA sB.
Proof. exact twin_lockstep_init. Qed.
Print Assumptions C11_history_lockstep.

(** the specification does not see the difference *)
Theorem C11_eval_twin : forall sA sB, TW sA sB -> PassInv.BF sA -> forall fuel n, eval sB fuel n = eval sA fuel n.
Proof. exact eval_twin. Qed.
Print Assumptions C11_eval_twin.

(** Non-vacuity ([tx], 14 operations from [init 16]): node 0 is a VarEqual holding 4, written 4 after
    the first pass (a no-op: nothing queued; the twin queues node 0); node 3 is a CutoffEqual over a
    constant map, which cuts in the third pass (the twin's never cuts); same values everywhere *)
Example C11_history_ex :
  length tx = 14%nat /\ twin_ok 16 tx = true /\ twin_full_ok 16 tx = true /\
  queued_after tx 9 = [] /\ queued_after (map erase_op tx) 9 = [0%nat] /\
  cut_verdicts (tx_final tx) = [(3%nat, true); (3%nat, false)] /\
  cut_verdicts (tx_final (map erase_op tx)) = [(3%nat, false); (3%nat, false)] /\
  obsValues (tx_final tx) = [(6%nat, 4)] /\ obsValues (tx_final (map erase_op tx)) = [(6%nat, 4)].
Proof. split; [reflexivity|]. repeat (split; [vm_compute; reflexivity|]). vm_compute; reflexivity. Qed.

(** the exclusion of cancelled passes is necessary: [tx] up to the no-op write, then a cancelled pass *)
Example C11_history_cancelled_refuted :
  forallb twin_allowed tx_cancel = true /\ hist_ok 16 tx_cancel = true /\ hist_ok 16 (map erase_op tx_cancel) = false.
Proof. split; [reflexivity|]. split; vm_compute; reflexivity. Qed.
