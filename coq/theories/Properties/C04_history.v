(** C04 over whole histories of the bind-free fragment: every pass may be run by ParallelStabilize under any fair scheduler (proofs: StaticHistory.v, ParSerial.v).

    STATUS of the mixed statement: FULL ([C04_history_mixed]).  Replace ANY subset of the passes
    [Stabilize []] of a history by [ParStabilize []] ([par_variant]): the new history RUNS (every
    operation admissible and successful with no error) and at every boundary the two runs agree on
    everything but the layout of the recompute heap and the order of the log ([ObsEq]).  Ingredients:
    the structural congruence of the operations outside the passes (StructCongruence.v), totality of
    the serial pass (PassPlanProofs.pass_total) and of the parallel one (ParSerial.v), and wf-prover's
    [Inv] for histories mixing both stabilizers.  [C04_history_mixed_partial] (a common prefix, then
    steady-state operations only; agreement whenever both run) is kept as a special case. *)
From incr Require Import Base Heap HeapSpec EngineDefs Engine EngineRun EngineWf Spec EngineInv PassInv PassProofs
     Par ParProofs ParSerial StaticHistory.

Theorem C04_history_bindfree : forall mh os1 o os2 sf sched,
  (0 < mh)%nat -> hist_run (init mh) (os1 ++ o :: os2) = Some sf -> is_pass o = true -> fair sched ->
  exists s1 s2 s2', hist_run (init mh) os1 = Some s1 /\ step s1 o = Ok (s2, None) /\
    parStabilizeS sched [] s1 = Ok (s2', None) /\
    nodes s2 = nodes s2' /\ obs s2 = obs s2' /\ reg s2 = reg s2' /\ numNodes s2 = numNodes s2' /\
    binds s2 = binds s2' /\ next s2 = next s2' /\ stabNum s2 = stabNum s2' /\ status s2 = status s2' /\
    handlers s2 = handlers s2' /\ updEvents s2 ≡ₚ updEvents s2'.
Proof. exact C04_history. Qed.
Print Assumptions C04_history_bindfree.

Theorem C04_history_mixed : forall mh os os' k sA,
  (0 < mh)%nat -> par_variant os os' -> hist_run (init mh) (take k os) = Some sA ->
  exists sB, mixed_run (init mh) (take k os') = Some sB /\ ObsEq sA sB.
Proof. exact mixed_history_full. Qed.
Print Assumptions C04_history_mixed.

(** the same from any pair of related states, keeping the structural invariant of the second run *)
Theorem C04_history_mixed_from : forall os os', par_variant os os' -> forall sA sB sA',
  Inv sA -> ValInv sA -> Inv sB -> ObsEq sA sB -> hist_run sA os = Some sA' ->
  exists sB', mixed_run sB os' = Some sB' /\ ObsEq sA' sB' /\ Inv sB'.
Proof. exact mixed_full. Qed.
Print Assumptions C04_history_mixed_from.

Theorem C04_history_mixed_partial : forall mh os os' k sA sB,
  (0 < mh)%nat -> mixed os os' ->
  hist_run (init mh) (take k os) = Some sA -> mixed_run (init mh) (take k os') = Some sB -> ObsEq sA sB.
Proof. exact mixed_agree_boundaries. Qed.
Print Assumptions C04_history_mixed_partial.

Theorem C04_history_switch_to_parallel : forall pre suf s sA,
  Inv s -> ValInv s -> forallb steady_op suf = true -> hist_run s (pre ++ suf) = Some sA ->
  exists sB, mixed_run s (pre ++ map parify suf) = Some sB /\ ObsEq sA sB.
Proof. exact switch_to_parallel. Qed.
Print Assumptions C04_history_switch_to_parallel.

Theorem C04_passes_agree : forall sA sB eA eB,
  wfb sA = true -> ValInv sA -> ObsEq sA sB -> PassRes sA eA -> PassRes sB eB -> ObsEq eA eB.
Proof. exact PassRes_agree. Qed.
Print Assumptions C04_passes_agree.

(** Non-vacuity: passes 1, 3 and 5 of the 23-operation history [hx] run by ParallelStabilize, each
    followed by operations outside the steady-state alphabet (AddInput; RemoveInput, Unobserve;
    Observe, SetVar); the mixed history runs and its observers read the same values *)
Example C04_history_mixed_full_ex :
  par_variant hx hx_alt /\ mixed_ok 16 hx_alt = true /\ obsValues (mixed_final hx_alt) = obsValues hx_final.
Proof. split; [exact hx_alt_variant|]. split; vm_compute; reflexivity. Qed.
