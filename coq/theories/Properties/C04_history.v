(** C04 over whole histories of the bind-free fragment: every pass may be run by ParallelStabilize under any fair scheduler (proofs: StaticHistory.v, ParSerial.v). *)
From incr Require Import Base Heap HeapSpec EngineDefs Engine EngineRun EngineWf Spec EngineInv PassInv PassProofs
     Par ParProofs ParSerial StaticHistory.

Theorem C04_history_bindfree : forall mh os1 o os2 sf sched,
  (0 < mh)%nat -> hist_run (init mh) (os1 ++ o :: os2) = Some sf -> is_pass o = true -> fair sched ->
  exists s1 s2 s2', hist_run (init mh) os1 = Some s1 /\ step s1 o = Ok (s2, None) /\
    parStabilizeS sched [] s1 = Ok (s2', None) /\
    nodes s2 = nodes s2' /\ obs s2 = obs s2' /\ reg s2 = reg s2' /\ numNodes s2 = numNodes s2' /\
    binds s2 = binds s2' /\ next s2 = next s2' /\ stabNum s2 = stabNum s2' /\ status s2 = status s2' /\
    handlers s2 = handlers s2' /\ updEvents s2 ≡ₚ updEvents s2'.
Proof. exact C04_history. Qed.
Print Assumptions C04_history_bindfree.

Theorem C04_history_mixed_partial : forall mh os os' k sA sB,
  (0 < mh)%nat -> mixed os os' ->
  hist_run (init mh) (take k os) = Some sA -> mixed_run (init mh) (take k os') = Some sB -> ObsEq sA sB.
Proof. exact mixed_agree_boundaries. Qed.
Print Assumptions C04_history_mixed_partial.

Theorem C04_history_switch_to_parallel : forall pre suf s sA,
  Inv s -> ValInv s -> forallb steady_op suf = true -> hist_run s (pre ++ suf) = Some sA ->
  exists sB, mixed_run s (pre ++ map parify suf) = Some sB /\ ObsEq sA sB.
Proof. exact switch_to_parallel. Qed.
Print Assumptions C04_history_switch_to_parallel.

Theorem C04_passes_agree : forall sA sB eA eB,
  wfb sA = true -> ValInv sA -> ObsEq sA sB -> PassRes sA eA -> PassRes sB eB -> ObsEq eA eB.
Proof. exact PassRes_agree. Qed.
Print Assumptions C04_passes_agree.

