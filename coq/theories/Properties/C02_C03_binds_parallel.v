(** C02 and C03 for ParallelStabilize on graphs WITH binds (binds may swap) -- what is true, and
    the refutation of the serial form of C03 for the parallel stabilizer (known finding K10/K11).

    [evs]: the events of the pass, most recent first.  A node's PERIOD OF NECESSITY: the events
    after its last [EvNec n].

    C03.  In a parallel pass a node of a height block that one bind of the block tears down and
    another bind of the same block registers again (new period, [EvNec n]) is queued again AND
    still runs with the block (its height is set again): it runs, and runs a second time when its
    queue entry is reached -- twice in one period of necessity.  The serial statement "between
    two runs of a node there is an [EvNec] of it" (C03_binds_swap) is therefore FALSE for the
    parallel pass: [C03_binds_parallel_once_refuted] (witness: the history of
    C01_binds_parallel.C01_binds_parallel_double_ex).  What holds ([C03_binds_parallel]):
      (i)   never three runs of a node without an [EvNec] of it in between: at most TWO runs per
            period of necessity;
      (ii)  two runs without an [EvNec] between them happen only after an [EvNec] of the node
            earlier in the SAME pass: only a node registered anew in this pass runs twice;
      (iii) hence a node with no [EvNec] in the pass runs at most once in it.
    [C03_binds_parallel_rest]: a registered node one of whose inputs changed in the pass has run;
    only Always nodes are left stale; a node not registered anew that did not run keeps its value
    and stamps, and one whose value differs is stamped as changed.

    C02 ([C02_binds_parallel]).  The LAST run of the current period of a node that is registered
    when the pass returns saw the values its inputs hold then and returned the value the node
    holds then.  (The first of two runs of a period is exempt: it may run before an input of the
    node, registered anew like it, has run.)  [C11_binds_parallel_cut_kept]: a last run that cut
    off left the value.

    Proof: the log invariant [ParBindLog.LGP] carried with [ParBind.LInvP] through the blocks;
    [cnt n evs] counts the runs of the current period; a node with a run in its period that is
    owed again was registered anew in the pass ([gp_nec5]), a node with two runs is not owed
    ([gp_two]), a pending node of the block with a run is not queued ([gp_pend]).
    Proofs: ParBindLog.v. *)
From incr Require Import Base Heap HeapSpec EngineDefs Engine EngineRun EngineWf Spec EngineLemmas
     EngineInv EngineInvProofs PassInv PassProofs PassBind PassBindProofs PassBindSwap PassBindSwapProofs
     PassBindSwapStep PassBindOps PassBindSwapLog ParBind ParBindStep ParBindHistory ParBindLog.

Theorem C02_binds_parallel : forall s s',
  Inv s -> ValInvB s -> Tplain s -> parStabilize [] s = Ok (s', None) ->
  forall evs pre n args r post, log s' = evs ++ log s -> evs = pre ++ EvInvoked n args r :: post ->
    EvNec n ∉ pre -> Forall (fun e2 => ev_node e2 <> Some n) pre -> inGraph (nd s' n) = true ->
    args = map (valueOf s') (decl (nd s' n)) /\ r = value (nd s' n) /\ recomputedAt (nd s' n) = stabNum s.
Proof. exact parS_args_final. Qed.
Print Assumptions C02_binds_parallel.

Theorem C11_binds_parallel_cut_kept : forall s s',
  Inv s -> ValInvB s -> Tplain s -> parStabilize [] s = Ok (s', None) ->
  forall evs pre n old new post, log s' = evs ++ log s -> evs = pre ++ EvCutoff n old new true :: post ->
    EvNec n ∉ pre -> Forall (fun e2 => ev_node e2 <> Some n) pre -> inGraph (nd s' n) = true ->
    value (nd s' n) = old /\ recomputedAt (nd s' n) = stabNum s.
Proof. exact parS_cut_kept. Qed.
Print Assumptions C11_binds_parallel_cut_kept.

Theorem C03_binds_parallel : forall s s',
  Inv s -> ValInvB s -> Tplain s -> parStabilize [] s = Ok (s', None) ->
  forall evs, log s' = evs ++ log s ->
  (forall pre e1 mid1 e2 mid2 e3 post n, evs = pre ++ e1 :: mid1 ++ e2 :: mid2 ++ e3 :: post ->
     ev_node e1 = Some n -> ev_node e2 = Some n -> ev_node e3 = Some n -> EvNec n ∈ mid1 \/ EvNec n ∈ mid2) /\
  (forall pre e mid e' post n, evs = pre ++ e :: mid ++ e' :: post ->
     ev_node e = Some n -> ev_node e' = Some n -> EvNec n ∈ mid \/ EvNec n ∈ post) /\
  (forall pre e mid e' post n, evs = pre ++ e :: mid ++ e' :: post ->
     ev_node e = Some n -> ev_node e' = Some n -> EvNec n ∈ evs).
Proof. exact parS_twice. Qed.
Print Assumptions C03_binds_parallel.

Theorem C03_binds_parallel_rest : forall s s',
  Inv s -> ValInvB s -> Tplain s -> parStabilize [] s = Ok (s', None) ->
  let k := stabNum s in
  forall evs, log s' = evs ++ log s ->
  (forall n p, inGraph (nd s' n) = true -> p ∈ parents (nd s' n) -> changedAt (nd s' p) = k ->
     recomputedAt (nd s' n) = k) /\
  (forall n, inGraph (nd s' n) = true -> isStale s' n = true -> nkind (nd s' n) = KAlways) /\
  (forall n, inGraph (nd s' n) = true -> EvNec n ∉ evs -> recomputedAt (nd s' n) <> k ->
     value (nd s' n) = value (nd s n) /\ recomputedAt (nd s' n) = recomputedAt (nd s n) /\
     changedAt (nd s' n) = changedAt (nd s n)) /\
  (forall n, inGraph (nd s' n) = true -> EvNec n ∉ evs -> value (nd s' n) <> value (nd s n) ->
     changedAt (nd s' n) = k).
Proof. exact parS_runs. Qed.
Print Assumptions C03_binds_parallel_rest.

(** the whole record *)
Theorem C02_C03_binds_parallel_log : forall s s',
  Inv s -> ValInvB s -> Tplain s -> parStabilize [] s = Ok (s', None) -> PassLogP s s'.
Proof. exact parS_log. Qed.
Print Assumptions C02_C03_binds_parallel_log.

(** the serial form of C03 (C03_binds_swap) stated for the parallel pass is false *)
Theorem C03_binds_parallel_once_refuted : ~ once_statement_par.
Proof. exact once_statement_par_refuted. Qed.
Print Assumptions C03_binds_parallel_once_refuted.

(** Non-vacuity / witness: [exD2_pre] (reached by a history of the fragment) satisfies the hypotheses;
    its parallel pass has the events [exD2_evs]: two [EvInvoked 3] with nothing between them, after
    [EvNec 3] of the same pass -- the bound of (i) is attained, (ii) holds with its second disjunct *)
Example C03_binds_parallel_ex :
  (Inv exD2_pre /\ ValInvB exD2_pre /\ Tplain exD2_pre) /\
  parStabilize [] exD2_pre = Ok (exD2_post, None) /\ log exD2_post = exD2_evs ++ log exD2_pre /\
  exD2_evs = take 13 exD2_evs ++ EvInvoked 3 [20] 10 :: [] ++ EvInvoked 3 [20] 10 :: drop 15 exD2_evs /\
  EvNec 3%nat ∈ drop 15 exD2_evs.
Proof. exact exD2_ex. Qed.
