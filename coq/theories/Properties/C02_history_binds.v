(** C02 along whole histories of programs WITH binds, from [init], with no hypothesis on
    intermediate states: in every plan-free pass of a history of the fragment of
    Properties/C07_binds.v ([histF_run]: node creation incl. binds with nested templates, observers,
    Set / Update, AddInput / RemoveInput, plan-free passes, passes in which a node function or a
    bind function fails or panics), every invocation of the current period of necessity of a node
    that is registered when the pass returns saw the values its inputs hold then and returned the
    value the node holds then (see Properties/C02_binds_swap.v for the reading of [evs] / [pre]).
    Proofs: PassBindHistory.v. *)
From incr Require Import Base Heap HeapSpec EngineDefs Engine EngineRun EngineWf Spec EngineLemmas EngineLocal
     EngineInv EngineInvProofs PassInv PassProofs PassPlanProofs PassBind PassBindProofs PassBindSwap PassBindSwapProofs
     PassBindSwapStep PassBindOps PassBindSwapLog PassBindFault PassBindHistory.

Theorem C02_history_binds : forall mh os1 os2 sf,
  (0 < mh)%nat -> histF_run (init mh) (os1 ++ Stabilize [] :: os2) = Some sf ->
  exists s1 s2, histF_run (init mh) os1 = Some s1 /\ stabilize [] false s1 = Ok (s2, None) /\
    forall evs pre n args r post, log s2 = evs ++ log s1 -> evs = pre ++ EvInvoked n args r :: post ->
      EvNec n ∉ pre -> inGraph (nd s2 n) = true ->
      args = map (valueOf s2) (decl (nd s2 n)) /\ r = value (nd s2 n) /\ recomputedAt (nd s2 n) = stabNum s1.
Proof. exact histF_args_final. Qed.
Print Assumptions C02_history_binds.

(** Non-vacuity: [exF_ops] (bind function fails, retry swaps, panic after a swap back) is such a
    history and ends with a plan-free pass. *)
Example C02_history_binds_ex : exists sf, histF_run (init 64) (take 13 exF_ops ++ Stabilize [] :: []) = Some sf.
Proof. exact exF_runs. Qed.
