(** C09 — BindMemoized, at the level of the engine model (EngineInvM.v / EngineInvMProofs.v, the
    variant of the invariant development that admits memoized binds; Properties/C05_memo.v).

    Properties/C09.v compares the from-scratch semantics of a memoized and a plain program
    ([Spec.v]).  This file states what the ENGINE does with the cache, for every state of every
    pass ([PInv]: the invariant the serial and the parallel pass maintain between two
    recomputations) and at every boundary of every clean history ([Inv]):

    - [C09_memo_hit]: the recomputation of a memoized bind's lhs-change node whose key [x] is in
      the cache makes the cached root the right-hand side, leaves the record otherwise
      unchanged (generation counter, cache) and RUNS NOTHING: the events it logs contain no
      function, cutoff or bind-function event ([norun_ext]).
    - [C09_memo_miss]: if the key is not cached, the bind function runs exactly once (one
      [EvBindFn b x root], nothing else runs), the root becomes the right-hand side and the
      cache gains exactly the entry [(x, root)] at its end.
    - [C09_memo_step_invariant]: either way the mid-pass invariant is preserved (or the
      re-parenting is rejected for a cycle / the height limit), and the recomputation never
      faults ([C09_memo_no_crash]).
    - [C09_purge], [C09_clear]: [PurgeMemo m x] forgets exactly the entries of key [x] of the
      bind whose main node is [m], [ClearMemo m] all of them; neither touches a node, the log or
      any other bind record.  Both preserve the invariant (C05_memo.v).
    - [C09_cached_root_alive]: at every boundary every cached right-hand side still exists, is
      a top-level node, is valid and has never been invalidated — a parked subgraph keeps
      tracking the inputs it reads, however many rebuilds lie between two uses of its key (the
      defect class F17 "reused subgraphs stay invalid" is excluded by the invariant).
    - [C09_consistent_every_boundary], [C09_drains]: the graph is structurally consistent at
      every boundary of a clean history with memoized binds, purges and clears, and once the
      last observer is released no node is registered any more.

    - [C09_memo_builds_what_plain_builds]: the subgraph a memoized bind's function builds is
      the one a plain bind's function builds, up to the scope fields.

    NOT proved here: the value-level equivalence "the observed value equals the value of the
    template instance for the current key".  The structural half is above (the right-hand side
    after the pass is the root built by the template instance for that key, now or when the key
    was cached, and that subgraph is valid and registered through the main node); the
    value half needs the pass-correctness development (PassBind*.v), which is stated over
    EngineInv.v (no memoized binds) and has not been ported to this variant.  Restriction of the
    variant: the templates of a memoized bind contain no nested bind. *)
From incr Require Import Base Heap HeapSpec EngineDefs Engine EngineRun EngineWf EngineLemmas EngineInvM EngineInvMProofs.

Theorem C09_memo_hit : forall fuel p s b s' i x' root,
  PInv s -> plan_ok s p = true -> nkind (nd s b) = KBindLhs b -> inGraph (nd s b) = true ->
  b_memo (bd s b) = true ->
  list_find (fun kv : Z * option nid => kv.1 = valueOf s (b_lhs (bd s b))) (b_cache (bd s b)) = Some (i, (x', root)) ->
  bindLhsStabilize fuel p s b = Ok (s', None) ->
  binds s' = <[b := set b_rhs (fun _ => root) (bd s b)]> (binds s) /\ norun_ext s s'.
Proof. exact memo_hit_spec. Qed.
Print Assumptions C09_memo_hit.

Theorem C09_memo_miss : forall fuel p s b s',
  PInv s -> plan_ok s p = true -> nkind (nd s b) = KBindLhs b -> inGraph (nd s b) = true ->
  b_memo (bd s b) = true ->
  list_find (fun kv : Z * option nid => kv.1 = valueOf s (b_lhs (bd s b))) (b_cache (bd s b)) = None ->
  bindLhsStabilize fuel p s b = Ok (s', None) ->
  let x := valueOf s (b_lhs (bd s b)) in
  exists root l2,
    binds s' = <[b := set b_rhs (fun _ => root)
                   (bd s b <| b_gen := S (b_gen (bd s b)) |> <| b_cache := b_cache (bd s b) ++ [(x, root)] |>)]> (binds s) /\
    log s' = l2 ++ EvBindFn b x root :: log s /\ Forall (fun ev => ev_runs ev = None) l2.
Proof. exact memo_miss_spec. Qed.
Print Assumptions C09_memo_miss.

Theorem C09_memo_step_invariant : forall fuel p s b s' e,
  PInv s -> plan_ok s p = true -> nkind (nd s b) = KBindLhs b -> inGraph (nd s b) = true ->
  b_memo (bd s b) = true ->
  bindLhsStabilize fuel p s b = Ok (s', e) ->
  rejected_err e \/
  (PInv s' /\ plan_ok s' p = true /\ stabNum s' = stabNum s /\ kstable s s' /\
   (e = None \/ ((e = Some (EUser b) \/ e = Some (EPanic b)) /\ exists k, AFail k ∈ actions_of p b WFn)) /\
   (e = None -> memo_post s b (bd s b) s')).
Proof. exact bind_full_memo_strong. Qed.
Print Assumptions C09_memo_step_invariant.

Theorem C09_memo_no_crash : forall fuel p s b,
  PInv s -> plan_ok s p = true -> nkind (nd s b) = KBindLhs b -> inGraph (nd s b) = true ->
  b_memo (bd s b) = true -> forall c, bindLhsStabilize fuel p s b <> Crash c.
Proof. exact nc_bind_memo. Qed.
Print Assumptions C09_memo_no_crash.

Theorem C09_purge : forall s m x b s' e,
  nkind (nd s m) = KBindMain b -> is_Some (binds s !! b) ->
  step s (PurgeMemo m x) = Ok (s', e) ->
  e = None /\ nodes s' = nodes s /\ log s' = log s /\
  (forall b', b' <> b -> bd s' b' = bd s b') /\
  bd s' b = set b_cache (filter (fun kv => fst kv <> x)) (bd s b) /\
  (forall kv, kv ∈ b_cache (bd s' b) <-> kv ∈ b_cache (bd s b) /\ fst kv <> x).
Proof. exact purge_spec. Qed.
Print Assumptions C09_purge.

Theorem C09_clear : forall s m b s' e,
  nkind (nd s m) = KBindMain b -> is_Some (binds s !! b) ->
  step s (ClearMemo m) = Ok (s', e) ->
  e = None /\ nodes s' = nodes s /\ log s' = log s /\
  (forall b', b' <> b -> bd s' b' = bd s b') /\
  bd s' b = set b_cache (fun _ => []) (bd s b) /\ b_cache (bd s' b) = [].
Proof. exact clear_spec. Qed.
Print Assumptions C09_clear.

(** the premises of the two theorems above follow from well-formedness of the operation *)
Theorem C09_memo_op_wellformed : forall s m, Inv s -> isMemoMain s m = true ->
  exists b, nkind (nd s m) = KBindMain b /\ m = S b /\ is_Some (binds s !! b) /\ b_memo (bd s b) = true.
Proof. exact memo_main_inv. Qed.
Print Assumptions C09_memo_op_wellformed.

Theorem C09_cached_root_alive : forall s b r x q,
  Inv s -> binds s !! b = Some r -> (x, Some q) ∈ b_cache r ->
  has s q /\ scope (nd s q) = None /\ valid (nd s q) = true /\ EvInval q ∉ log s.
Proof. exact cached_root_alive. Qed.
Print Assumptions C09_cached_root_alive.

Theorem C09_consistent_every_boundary : forall mh os s,
  (0 < mh)%nat -> run_clean (init mh) os = Some s -> wfb s = true.
Proof. exact wf_every_boundary. Qed.
Print Assumptions C09_consistent_every_boundary.

Theorem C09_cached_roots_alive_every_boundary : forall mh os s b r x q,
  (0 < mh)%nat -> run_clean (init mh) os = Some s ->
  binds s !! b = Some r -> (x, Some q) ∈ b_cache r ->
  has s q /\ scope (nd s q) = None /\ valid (nd s q) = true /\ EvInval q ∉ log s.
Proof. exact cached_root_alive_history. Qed.
Print Assumptions C09_cached_roots_alive_every_boundary.

(** the structural half of "behaves like Bind": for a template without nested binds, the function
    of a memoized bind builds — node for node, identifier for identifier, value for value — what
    the function of a plain bind builds; the two resulting states differ only in the scope fields
    of the new nodes and the scope list of the plain bind ([same_upto_scope], EngineInvM.v) *)
Theorem C09_memo_builds_what_plain_builds : forall s b x e,
  texp_nobind e = true ->
  same_upto_scope (inst s None x e).1 (inst s (Some b) x e).1 /\ (inst s None x e).2 = (inst s (Some b) x e).2.
Proof. exact memo_builds_what_plain_builds. Qed.
Print Assumptions C09_memo_builds_what_plain_builds.

Theorem C09_inst_scope_irrelevant : forall x e s1 s2 sc1 sc2,
  texp_nobind e = true -> same_upto_scope s1 s2 ->
  same_upto_scope (inst s1 sc1 x e).1 (inst s2 sc2 x e).1 /\ (inst s1 sc1 x e).2 = (inst s2 sc2 x e).2.
Proof. exact inst_scope_irrel. Qed.
Print Assumptions C09_inst_scope_irrelevant.

Theorem C09_drains : forall mh os s,
  (0 < mh)%nat -> run_clean (init mh) os = Some s -> obs s = ∅ ->
  reg s = [] /\ Heap.ids (heap s) = [] /\ numNodes s = 0%Z /\
  forall n, parents (nd s n) = [] /\ children (nd s n) = [].
Proof. exact drain_history. Qed.
Print Assumptions C09_drains.

(** non-vacuity (the histories are in EngineInvM.v): misses, a hit, a purge, a clear under both
    stabilizers; and the hit is real *)
Example C09_memo_clean_history : exists s,
  run_clean (init 16) h_memo = Some s /\ wfb s = true /\ bindfn_count s = 4%nat.
Proof. exact clean_history_with_memo. Qed.
Print Assumptions C09_memo_clean_history.

Example C09_memo_cache_hit : exists s,
  run_clean (init 16) h_memo_hit = Some s /\ bindfn_count s = 2%nat /\
  b_rhs (bd s 2%nat) = Some 6%nat /\ b_cache (bd s 2%nat) = [(1, Some 6%nat); (2, Some 8%nat)].
Proof. exact memo_cache_hit. Qed.
Print Assumptions C09_memo_cache_hit.
