(** C01 along whole histories of programs WITH binds (nested binds included), from [init], with
    no hypothesis on intermediate states.

    [histB_run s os = Some s']: every operation of [os] is in the alphabet
    New{Var,Return,Map,Map2,MapN,Cutoff,Always}, [NewBind cases a] whose case templates -- which may
    contain nested binds [TBind] to any depth -- satisfy [tplain] ([TNil] only as a whole case) and
    [parity_free] (the restriction of SpecProofs' Theorem A), Observe, Unobserve, SetVar, UpdateVar, AddInput, RemoveInput,
    [Stabilize []], StabilizeCancelled; is well-formed ([op_ok]) and clean ([EngineInv.op_clean]:
    top-level operands); and returns [Ok (_, None)].  It is a boolean computation.

    After EVERY pass of such a history -- whether or not binds swap in it -- every registered node
    is locally consistent (a bind main node holds the value of the bind's right-hand side, which is
    the instantiation of the case selected by the current value of the bind's input) and every
    observer reads the from-scratch value [Spec.eval] of the program.  The structural invariant
    [EngineInv.Inv] comes from wf-prover's [Inv_step]; the value invariant [PassBind.ValInvB] is
    preserved by every operation of the alphabet ([C01_history_binds_step]; the passes:
    PassBindSwapStep.passS_ValInvB, the other operations: PassBindOps.v).
    Proofs: PassBindOps.v. *)
From incr Require Import Base Heap HeapSpec EngineDefs Engine EngineRun EngineWf Spec SpecProofs EngineLemmas
     EngineInv EngineInvProofs PassInv PassProofs PassBind PassBindProofs PassBindSwap PassBindSwapProofs
     PassBindSwapStep PassBindOps.

Theorem C01_history_plainbinds : forall mh os1 o os2 sf,
  (0 < mh)%nat -> histB_run (init mh) (os1 ++ o :: os2) = Some sf -> is_pass o = true ->
  exists s1 s2, histB_run (init mh) os1 = Some s1 /\ step s1 o = Ok (s2, None) /\
    consistent s2 = true /\ observers_agree s2 = true /\ Inv s2 /\ ValInvB s2 /\ wfb s2 = true.
Proof. exact C01_history_plain. Qed.
Print Assumptions C01_history_plainbinds.

(** one operation: all invariants again *)
Theorem C01_history_binds_step : forall s o s',
  Inv s -> ValInvB s -> Tplain s -> histB_op o = true -> op_ok s o = true -> op_clean s o = true ->
  step s o = Ok (s', None) -> Inv s' /\ ValInvB s' /\ Tplain s'.
Proof. exact stepB_inv. Qed.
Print Assumptions C01_history_binds_step.

(** the invariants at every boundary of a history *)
Theorem C01_history_binds_invariants : forall os s0 s,
  Inv s0 -> ValInvB s0 -> Tplain s0 -> templates_ok s0 = true -> histB_run s0 os = Some s ->
  Inv s /\ ValInvB s /\ Tplain s /\ templates_ok s = true.
Proof. exact histB_inv. Qed.
Print Assumptions C01_history_binds_invariants.

(** Non-vacuity: [exH_ops] -- a bind over var 0 with the cases [Map (var 1)] and [Return 5], a Map
    over the bind, observed; five passes: the first generation, a pass in which only the
    right-hand side changes, a swap to the second case, a swap back, an empty cancelled pass; then
    the observer is removed and a last pass runs -- is a history of the fragment. *)
Example C01_history_binds_ex : exists s, histB_run (init 64) exH_ops = Some s.
Proof. exact exH_runs. Qed.

(** Non-vacuity with a NESTED bind: [exN_ops] -- the outer bind builds an inner bind over [Return x];
    first generation (outer and inner functions run in the same pass), a pass in which only the
    innermost right-hand side changes, an outer swap that discards the nested generation, a swap
    back -- is a history of the fragment. *)
Example C01_history_binds_nested_ex : exists s, histB_run (init 64) exN_ops = Some s.
Proof. exact exN_runs. Qed.
