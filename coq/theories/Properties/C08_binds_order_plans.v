(** C08, the ordering half, for serial passes with ANY plan: var writes and any number of faults
    (errors and panics of node functions, bind functions, cutoff functions).

    [chainQp Q q fuel s n] / [loopQp Q q fuel s]: [recomputeChain] / [passLoop] under plan [q] with a
    monitor: [Q s n] holds at EVERY call [recomputeNodeSerial _ q s n] the chain / the loop makes
    (following the calls that return no error, exactly as the two functions do; the call at which a
    fault fires is monitored too, nothing runs after it).  [QOrd] as in C08_binds_order.v.
    [C08_binds_order_any_plan]: from any state with [Inv], [ValInvB], [Tplain] and for EVERY plan,
    every recompute of the serial pass satisfies [QOrd]: whenever a bind's lhs-change node is
    recomputed, no registered node of the generation it is about to replace (direct or nested) has
    run in this pass.  [C08_binds_order_faults]: the same stated for plans of faults only (proved
    directly: a recompute at which no fault fires is the plan-free recompute).  The general case
    follows by erasure: the pass under [p] and the pass under its faults [fo p] visit states equal
    up to pending / setDuring / setRemoved ([loopQp_sim], [loopQp_cl]), which [QOrd] does not read.
    Proofs: PassBindOrderPlans.v. *)
From incr Require Import Base Heap HeapSpec HeapProofs EngineDefs Engine EngineRun EngineWf Spec EngineLemmas EngineLocal
     EngineInv EngineInvProofs PassInv PassProofs PassPlanProofs PassBind PassBindProofs PassBindSwap PassBindSwapProofs
     PassBindSwapStep PassBindOps PassBindSwapLog PassBindFault PassBindWrites PassBindTotal PassBindMixed PassBindFaultGen
     PassBindMultiFault PassBindOrder PassBindOrderPlans SpecProofs.

Theorem C08_binds_order_any_plan : forall s p,
  Inv s -> ValInvB s -> Tplain s ->
  let s1 := EngineLocal.passStart s in
  loopQp (QOrd (log s1)) p (passFuel s1) s1.
Proof. exact pass_order_any. Qed.
Print Assumptions C08_binds_order_any_plan.

Theorem C08_binds_order_faults : forall s q,
  nowrites q -> Inv s -> ValInvB s -> Tplain s ->
  let s1 := EngineLocal.passStart s in
  loopQp (QOrd (log s1)) q (passFuel s1) s1.
Proof. exact pass_order_faults. Qed.
Print Assumptions C08_binds_order_faults.

(* the monitors under the empty plan are the plan-free monitors of C08_binds_order.v *)
Theorem C08_binds_order_monitor_nil : forall Q fuel s n, chainQp Q [] fuel s n <-> chainQ Q fuel s n.
Proof. exact chainQp_nil. Qed.
Print Assumptions C08_binds_order_monitor_nil.

(** Non-vacuity: the F25 shape of [exO_ops] under the plan [(2, WFn, ASet 1 30); (3, WFn, AFail FPanic)]:
    node 2 runs (its function writes var 1), the direct recompute of node 6 is refused, the bind
    function of 3 is reached and panics: [EPanic 3]; no event of node 6; var 1 holds 30 *)
Example C08_binds_order_plans_ex :
  match histB_run (init 64) exO_ops with
  | Some s =>
    plan_ok s exOP_plan &&
    match stabilize exOP_plan false s with
    | Ok (s', Some (EPanic 3%nat)) =>
      let evs := take (length (log s') - length (log s)) (log s') in
      bool_decide (log s' = evs ++ log s) && bool_decide (EvInvoked 2 [9] 10 ∈ evs) &&
      bool_decide (EvFault 3 WFn FPanic ∈ evs) && (value (nd s' 1%nat) =? 30) &&
      forallb (fun e => negb (bool_decide (ev_node e = Some 6%nat))) evs
    | _ => false
    end
  | None => false
  end = true.
Proof. exact exOP_results. Qed.
