(** C06 — a node is registered exactly while an observer can reach it; releasing every observer
    drains the graph; the registered set depends only on the current shape.

    Stated for every state satisfying the invariant [EngineInv.Inv]; [Inv] holds at every
    operation boundary of a clean history ([C06_at_every_boundary]; see Properties/C05.v for
    what "clean" excludes).
    [reachable]: observed nodes are reachable; the declared inputs of a reachable node are
    reachable (for a bind's main node: its lhs-change node and the current right-hand side; for a
    lhs-change node: the bind's input).  Under [Inv] every registered node is valid, so no
    validity guard is needed. *)
From incr Require Import Base Heap HeapSpec EngineDefs Engine EngineWf EngineLemmas EngineInv EngineInvProofs.

Theorem C06_registered_iff_reachable : forall s n, Inv s -> (inGraph (nd s n) = true <-> reachable s n).
Proof. exact registered_iff_reachable. Qed.
Print Assumptions C06_registered_iff_reachable.

Theorem C06_drain : forall s, Inv s -> obs s = ∅ ->
  reg s = [] /\ Heap.ids (heap s) = [] /\ numNodes s = 0 /\
  forall n, parents (nd s n) = [] /\ children (nd s n) = [].
Proof. exact drain. Qed.
Print Assumptions C06_drain.

(** the registered set is a function of the declarations and the observers only: it cannot
    depend on how many times the shape was rebuilt or re-observed *)
Theorem C06_shape_only : forall s1 s2, Inv s1 -> Inv s2 -> obs s1 = obs s2 ->
  (forall n, decl (nd s1 n) = decl (nd s2 n)) ->
  forall n, inGraph (nd s1 n) = inGraph (nd s2 n).
Proof. exact shape_only. Qed.
Print Assumptions C06_shape_only.

Theorem C06_at_every_boundary : forall mh os s,
  (0 < mh)%nat -> run_clean (init mh) os = Some s -> Inv s.
Proof. exact Inv_run_clean. Qed.
Print Assumptions C06_at_every_boundary.

(* earlier, weaker forms (kept: they are referred to elsewhere) *)
Theorem C06_at_every_boundary_partial : forall mh os s,
  (0 < mh)%nat -> forallb op_nobind os = true -> run_clean (init mh) os = Some s -> Inv s /\ binds s = ∅.
Proof. exact Inv_run_clean_bindfree. Qed.
Print Assumptions C06_at_every_boundary_partial.

Theorem C06_at_every_boundary_if_bind_spec : forall mh os s,
  bind_spec (fun _ => True) -> (0 < mh)%nat -> run_clean (init mh) os = Some s -> Inv s.
Proof. exact Inv_run_clean_cond. Qed.
Print Assumptions C06_at_every_boundary_if_bind_spec.
