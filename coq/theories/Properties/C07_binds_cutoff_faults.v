(** C07 / C12 on graphs with binds, faults of the CUTOFF function and plans with writes and ONE
    fault of any kind.  (ANY number of faults in one serial plan: C07_binds_multi_fault.v.)

    [C07_binds_cut_error] / [C07_binds_cut_panic]: the cutoff function of node [x] ([WCut])
    returns an error / panics in a serial pass on a graph with binds (which may swap in the
    pass): the pass returns [EUser x] / [EPanic x], [Inv], [ValInvB], [Tplain] hold afterwards
    and [x] is still queued (so a fault-free retry converges: C01_swap_pass_plain); if the
    cutoff function was not reached, the pass ends consistent.
    [C12_binds_writes_and_any_fault]: a plan made of var writes and one fault
    [(x, w, AFail k)], [w] the function or the cutoff function, [k] error or panic (this adds
    writes + panic, writes + cutoff faults to C12_binds_faults.C12_binds_writes_and_fault).
    [C12_history_binds_any_fault]: histories over the bind fragment whose passes carry any such
    plan: the invariants hold throughout and every plan-free pass ends consistent with the
    observers reading the from-scratch values.
    How: PassBindFault.v made generic in the plan ([PassBindFaultGen.Gen]); [C12_binds_black_box]:
    seen through the erasure [cl], the pass with plan [p] is the pass with the faults of [p] only,
    whose final state [t'] transports its invariants to the final state of the writing pass.
    Proofs: PassBindFaultGen.v. *)
From incr Require Import Base Heap HeapSpec HeapProofs EngineDefs Engine EngineRun EngineWf Spec EngineLemmas EngineLocal
     EngineInv EngineInvProofs PassInv PassProofs PassPlanProofs PassBind PassBindProofs PassBindSwap PassBindSwapProofs
     PassBindSwapStep PassBindOps PassBindFault PassBindWrites PassBindTotal PassBindMixed PassBindFaultGen SpecProofs.

Theorem C07_binds_cut_error : forall s x s' e,
  Inv s -> ValInvB s -> Tplain s -> stabilize (cutPlan x FErr) false s = Ok (s', Some e) ->
  e <> ECycle -> e <> EHeightLimit ->
  e = EUser x /\ Inv s' /\ ValInvB s' /\ Tplain s' /\ CF s s' /\ inHeap s' x = true.
Proof. exact passCut_error. Qed.
Print Assumptions C07_binds_cut_error.

Theorem C07_binds_cut_error_not_reached : forall s x s',
  Inv s -> ValInvB s -> Tplain s -> stabilize (cutPlan x FErr) false s = Ok (s', None) ->
  Inv s' /\ ValInvB s' /\ Tplain s' /\ CF s s' /\ consistent s' = true.
Proof. exact passCut_error_none. Qed.
Print Assumptions C07_binds_cut_error_not_reached.

Theorem C07_binds_cut_panic : forall s x s' e,
  Inv s -> ValInvB s -> Tplain s -> stabilize (cutPlan x FPanic) false s = Ok (s', Some e) ->
  e <> ECycle -> e <> EHeightLimit ->
  e = EPanic x /\ Inv s' /\ ValInvB s' /\ Tplain s' /\ CF s s' /\ inHeap s' x = true.
Proof. exact passCut_panic. Qed.
Print Assumptions C07_binds_cut_panic.

Theorem C07_binds_cut_panic_not_reached : forall s x s',
  Inv s -> ValInvB s -> Tplain s -> stabilize (cutPlan x FPanic) false s = Ok (s', None) ->
  Inv s' /\ ValInvB s' /\ Tplain s' /\ CF s s' /\ consistent s' = true.
Proof. exact passCut_panic_none. Qed.
Print Assumptions C07_binds_cut_panic_not_reached.

(** the failing cutoff function leaves the state before the recompute, with [x] queued *)
Theorem C07_binds_cut_failed_recompute : forall fuel x s s' e imm,
  PInv s -> inGraph (nd s x) = true -> cutKind (nkind (nd s x)) = true ->
  recomputeNodeSerial fuel (cutPlan x FErr) s x = Ok (s', e, imm) ->
  e = Some (EUser x) /\ imm = None /\ failedTo s x s'.
Proof. exact rns_cutPlan_fail. Qed.
Print Assumptions C07_binds_cut_failed_recompute.

Theorem C12_binds_black_box : forall s p s' e,
  Inv s -> ValInvB s -> Tplain s -> plan_ok s p = true ->
  stabilize p false s = Ok (s', e) -> rejected e = false ->
  (forall tL at_ al, passLoop (passFuel (EngineLocal.passStart s)) (fo p) (EngineLocal.passStart s) [] = Ok (tL, e, at_, al) ->
     setDuring tL = [] /\ setRemoved tL = []) ->
  exists t', stabilize (fo p) false s = Ok (t', e) /\
    (ValInvB t' -> Tplain t' -> CF s t' ->
     Inv s' /\ ValInvB s' /\ Tplain s' /\ CF s s' /\ (forall m, inHeap t' m = true -> inHeap s' m = true)).
Proof. exact pass_mixed_bb. Qed.
Print Assumptions C12_binds_black_box.

Theorem C12_binds_writes_and_any_fault : forall s p x w k s' e,
  Inv s -> ValInvB s -> Tplain s -> plan_ok s p = true -> fo p = [(x, w, AFail k)] ->
  stabilize p false s = Ok (s', e) -> rejected e = false ->
  (e = None \/ e = Some (faultErr x k)) /\ Inv s' /\ ValInvB s' /\ Tplain s' /\ CF s s' /\
  (e = Some (faultErr x k) -> inHeap s' x = true).
Proof. exact pass_writes_and_fault. Qed.
Print Assumptions C12_binds_writes_and_any_fault.

Theorem C12_history_binds_any_fault_invariants : forall os s0 s,
  Inv s0 -> ValInvB s0 -> Tplain s0 -> templates_ok s0 = true -> histX_run s0 os = Some s ->
  Inv s /\ ValInvB s /\ Tplain s /\ templates_ok s = true.
Proof. exact histX_inv. Qed.
Print Assumptions C12_history_binds_any_fault_invariants.

Theorem C12_history_binds_any_fault : forall mh os1 os2 sf,
  (0 < mh)%nat -> histX_run (init mh) (os1 ++ Stabilize [] :: os2) = Some sf ->
  exists s1 s2, histX_run (init mh) os1 = Some s1 /\ step s1 (Stabilize []) = Ok (s2, None) /\
    consistent s2 = true /\ observers_agree s2 = true /\ Inv s2 /\ ValInvB s2.
Proof. exact histX_planfree. Qed.
Print Assumptions C12_history_binds_any_fault.

(** Non-vacuity: [exX_ops]: a cutoff over var 0 feeds a bind; the cutoff function fails in one pass
    (result [EUser 2]); after a retry in which the bind swaps, the cutoff function writes var 1 and
    panics (result [EPanic 2], node 2 still queued, var 1 holds 9); a last pass converges. *)
Example C12_history_binds_any_fault_ex : exists s, histX_run (init 64) exX_ops = Some s.
Proof. exact exX_runs. Qed.

Example C07_binds_cut_faults_ex :
  match histX_run (init 64) (take 10 exX_ops) with
  | Some s =>
    match stabilize (cutPlan 2%nat FErr) false s with
    | Ok (s1, Some (EUser 2%nat)) =>
      match histX_run s1 [Stabilize []; SetVar 0%nat 4; SetVar 1%nat 5] with
      | Some s2 =>
        match stabilize exX_plan false s2 with
        | Ok (s3, Some (EPanic 2%nat)) => inHeap s3 2%nat && (value (nd s3 1%nat) =? 9)
        | _ => false
        end
      | None => false
      end
    | _ => false
    end
  | None => false
  end = true.
Proof. exact exX_faults. Qed.
