(** C07 on graphs WITH binds (binds may swap in the failing pass and in the retry; templates may
    nest) -- a node function that returns an error or panics: the function of a Map / Map2 / MapN
    node, or the function of a BIND.

    [failPlan x] = [[(x, WFn, AFail FErr)]]: the function of node [x] returns an error whenever it
    is invoked in this pass ([x] a lhs-change node: the bind function); [panicPlan x]: it panics.
    The pass returns that error ([EUser x] / [EPanic x]; the only other errors a pass of such a
    graph can return are the rejections of an edge by a swapping bind, [ECycle] / [EHeightLimit],
    which are excluded by hypothesis); afterwards the structural invariant [EngineInv.Inv], the
    quiescent value invariant [PassBind.ValInvB] and the template restriction [Tplain] hold again,
    [x] is queued, and a plan-free retry that completes ends with every registered node consistent
    and every observer reading the from-scratch value.  A failing bind function leaves the bind's
    right-hand side as it was (the restore of [b_rhsNodes] is the deferred one of bind.go).

    Hypotheses: [Inv], [ValInvB], [Tplain] -- the invariants of every history of the fragment
    ([C07_history_binds_invariants]).  Proofs: PassBindFault.v. *)
From incr Require Import Base Heap HeapSpec EngineDefs Engine EngineRun EngineWf Spec EngineLemmas EngineLocal
     EngineInv EngineInvProofs PassInv PassProofs PassPlanProofs PassBind PassBindProofs PassBindSwap PassBindSwapProofs
     PassBindSwapStep PassBindOps PassBindFault SpecProofs.

Theorem C07_binds_error : forall s x s' e,
  Inv s -> ValInvB s -> Tplain s -> stabilize (failPlan x) false s = Ok (s', Some e) ->
  e <> ECycle -> e <> EHeightLimit ->
  e = EUser x /\ Inv s' /\ ValInvB s' /\ Tplain s' /\ CF s s' /\ inHeap s' x = true.
Proof. exact passF_error. Qed.
Print Assumptions C07_binds_error.

Theorem C07_binds_panic : forall s x s' e,
  Inv s -> ValInvB s -> Tplain s -> stabilize (panicPlan x) false s = Ok (s', Some e) ->
  e <> ECycle -> e <> EHeightLimit ->
  e = EPanic x /\ Inv s' /\ ValInvB s' /\ Tplain s' /\ CF s s' /\ inHeap s' x = true.
Proof. exact passF_panic. Qed.
Print Assumptions C07_binds_panic.

(** the retry converges ([templates_ok]: the parity restriction of SpecProofs' Theorem A, for the
    observers' from-scratch values) *)
Theorem C07_binds_retry : forall s x s' e s'',
  Inv s -> ValInvB s -> Tplain s ->
  (stabilize (failPlan x) false s = Ok (s', Some e) \/ stabilize (panicPlan x) false s = Ok (s', Some e)) ->
  e <> ECycle -> e <> EHeightLimit ->
  stabilize [] false s' = Ok (s'', None) ->
  consistent s'' = true /\ Inv s'' /\ ValInvB s'' /\ Tplain s'' /\
  (templates_ok s = true -> observers_agree s'' = true).
Proof. exact passF_retry. Qed.
Print Assumptions C07_binds_retry.

(** a pass in which the function is not reached is a plan-free pass *)
Theorem C07_binds_unreached_error : forall s x s',
  Inv s -> ValInvB s -> Tplain s -> stabilize (failPlan x) false s = Ok (s', None) ->
  Inv s' /\ ValInvB s' /\ Tplain s' /\ CF s s' /\ consistent s' = true.
Proof. exact passF_fail_none. Qed.
Print Assumptions C07_binds_unreached_error.

Theorem C07_binds_unreached_panic : forall s x s',
  Inv s -> ValInvB s -> Tplain s -> stabilize (panicPlan x) false s = Ok (s', None) ->
  Inv s' /\ ValInvB s' /\ Tplain s' /\ CF s s' /\ consistent s' = true.
Proof. exact passF_panic_none. Qed.
Print Assumptions C07_binds_unreached_panic.

(** the steps behind it: the failing recompute restores the node's stamp (and, for a bind, its
    generation of right-hand-side nodes) and puts the node back into the queue: no node record and
    no bind record changes, and the loop invariant holds again with nothing "about to run" *)
Theorem C07_binds_failed_recompute : forall fuel x s s' e imm,
  Tplain s -> PInv s -> LInvC s (Some x) -> inGraph (nd s x) = true -> fnKind (nkind (nd s x)) = true ->
  recomputeNodeSerial fuel (failPlan x) s x = Ok (s', e, imm) ->
  e = Some (EUser x) /\ imm = None /\ failedTo s x s' /\ Tplain s' /\ PInv s' /\ LInvC s' None /\ inHeap s' x = true.
Proof. exact failed_stepC. Qed.
Print Assumptions C07_binds_failed_recompute.

(** every other recompute of that pass is the plan-free one ... *)
Theorem C07_binds_other_recomputes : forall fuel x k s m,
  (forall b, nkind (nd s m) = KBindLhs b -> b = m) ->
  (m <> x \/ fnKind (nkind (nd s m)) = false) ->
  recomputeNodeSerial fuel (faultPlan x k) s m = recomputeNodeSerial fuel [] s m.
Proof. exact rns_faultPlan_other. Qed.
Print Assumptions C07_binds_other_recomputes.

(** ... and a plan-free recompute has no error but the rejection of an edge *)
Theorem C07_binds_plan_free_errors : forall fuel s n s' e imm,
  recomputeNodeSerial fuel [] s n = Ok (s', e, imm) -> okErr e.
Proof. exact E_rns. Qed.
Print Assumptions C07_binds_plan_free_errors.

(** Histories from the empty graph: the operations of Properties/C01_history_binds.v and passes in
    which one node function fails or panics ([histF_run]: every operation well-formed, none crashed,
    no edge rejected).  The invariants hold at every boundary ... *)
Theorem C07_history_binds_invariants : forall os s0 s,
  Inv s0 -> ValInvB s0 -> Tplain s0 -> templates_ok s0 = true -> histF_run s0 os = Some s ->
  Inv s /\ ValInvB s /\ Tplain s /\ templates_ok s = true.
Proof. exact histF_inv. Qed.
Print Assumptions C07_history_binds_invariants.

(** ... and whatever failures and panics the earlier passes had, every plan-free pass of the
    history ends with every registered node consistent and every observer reading the
    from-scratch value of its node *)
Theorem C07_history_binds : forall mh os1 os2 sf,
  (0 < mh)%nat -> histF_run (init mh) (os1 ++ Stabilize [] :: os2) = Some sf ->
  exists s1 s2, histF_run (init mh) os1 = Some s1 /\ step s1 (Stabilize []) = Ok (s2, None) /\
    consistent s2 = true /\ observers_agree s2 = true /\ Inv s2 /\ ValInvB s2.
Proof. exact C07_history_binds_proof. Qed.
Print Assumptions C07_history_binds.

(** Non-vacuity.  [exF_ops]: a bind over var 0 (cases [Map (var 1)], [Return 5]), a Map over it,
    observed; the bind FUNCTION fails ([failPlan 2]: node 2 is the lhs-change node); the retry swaps
    the bind; then the bind swaps back and the function of node 4 panics in the same pass; two more
    passes.  The whole list is a history of the fragment; the failing and the panicking pass satisfy
    the hypotheses of the pass theorems. *)
Example C07_history_binds_ex : exists s, histF_run (init 64) exF_ops = Some s.
Proof. exact exF_runs. Qed.

Example C07_binds_error_ex : exists s s',
  Inv s /\ ValInvB s /\ Tplain s /\ stabilize (failPlan 2) false s = Ok (s', Some (EUser 2%nat)) /\
  nkind (nd s 2%nat) = KBindLhs 2.
Proof. destruct exF_fail as (s & s' & _ & H). exists s, s'. exact H. Qed.

Example C07_binds_panic_ex : exists s s',
  Inv s /\ ValInvB s /\ Tplain s /\ stabilize (panicPlan 4) false s = Ok (s', Some (EPanic 4%nat)).
Proof. destruct exF_panic as (s & s' & _ & H). exists s, s'. exact H. Qed.
