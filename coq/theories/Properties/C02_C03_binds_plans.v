(** C02 / C03 / C11 on graphs with binds for serial passes WITH plans: the run events of a pass whose
    plan carries var writes and any number of faults (errors and panics of node functions, bind
    functions, cutoff functions).

    [C02_C03_binds_faulted_pass]: a serial pass under a plan of faults that returns [Ok (s', e)]
    ([e] nothing, or the error of the fault that was reached) satisfies [PassLogF s s']:
    - every run event (function invocation, bind function, cutoff) of the current period of
      necessity of a node still registered in [s'] -- so also the runs that happened BEFORE the
      fault -- reports the arguments / result / cutoff decision that [s'] holds: the run saw the
      final values of its inputs, and the node carries the pass's stamp ([plf_events]);
    - no node has two run events without an [EvNec] of that node between them ([plf_once]):
      the node whose function faulted ran once, it is not retried inside the pass;
    - a registered node without the pass's stamp keeps value and change stamp ([plf_keep]),
      a changed value is stamped ([plf_changed]).
    [C02_C03_binds_any_plan]: with var writes in the plan (in node, bind or cutoff functions),
    the pass logs EXACTLY the events of the pass under the faults of the plan alone ([fo p]), returns
    the same error, and its final nodes differ from that pass's only in value / pending / setAt of
    the written vars: the writes do not disturb C02 / C03.  [C03_binds_any_plan_once] and
    [C02_binds_any_plan_args] read the two properties off the pass itself.
    Proofs: PassBindPlanLog.v. *)
From incr Require Import Base Heap HeapSpec HeapProofs EngineDefs Engine EngineRun EngineWf Spec EngineLemmas EngineLocal
     EngineInv EngineInvProofs PassInv PassProofs PassPlanProofs PassBind PassBindProofs PassBindSwap PassBindSwapProofs
     PassBindSwapStep PassBindOps PassBindSwapLog PassBindFault PassBindWrites PassBindTotal PassBindMixed PassBindFaultGen
     PassBindMultiFault PassBindPlanLog SpecProofs.

Theorem C02_C03_binds_faulted_pass : forall s q s' e,
  nowrites q -> Inv s -> ValInvB s -> Tplain s -> plan_ok s q = true ->
  stabilize q false s = Ok (s', e) -> rejected e = false -> PassLogF s s'.
Proof. exact passLF. Qed.
Print Assumptions C02_C03_binds_faulted_pass.

Theorem C02_C03_binds_any_plan : forall s p s' e,
  Inv s -> ValInvB s -> Tplain s -> plan_ok s p = true ->
  stabilize p false s = Ok (s', e) -> rejected e = false ->
  exists t', stabilize (fo p) false s = Ok (t', e) /\ PassLogF s t' /\ log s' = log t' /\
             (forall m, vps (nd t' m) (nd s' m)).
Proof. exact passL_any. Qed.
Print Assumptions C02_C03_binds_any_plan.

Theorem C03_binds_any_plan_once : forall s p s' e,
  Inv s -> ValInvB s -> Tplain s -> plan_ok s p = true ->
  stabilize p false s = Ok (s', e) -> rejected e = false ->
  forall evs pre e1 mid e2 post n, log s' = evs ++ log s -> evs = pre ++ e1 :: mid ++ e2 :: post ->
    ev_node e1 = Some n -> ev_node e2 = Some n -> EvNec n ∈ mid.
Proof. exact passL_any_once. Qed.
Print Assumptions C03_binds_any_plan_once.

Theorem C02_binds_any_plan_args : forall s p s' e,
  Inv s -> ValInvB s -> Tplain s -> plan_ok s p = true ->
  stabilize p false s = Ok (s', e) -> rejected e = false ->
  exists t', stabilize (fo p) false s = Ok (t', e) /\ (forall m, vps (nd t' m) (nd s' m)) /\
  forall evs pre n args r post, log s' = evs ++ log s -> evs = pre ++ EvInvoked n args r :: post ->
    EvNec n ∉ pre -> inGraph (nd s' n) = true ->
    args = map (valueOf t') (decl (nd s' n)) /\ recomputedAt (nd s' n) = stabNum s /\ r = value (nd t' n).
Proof. exact passL_any_args. Qed.
Print Assumptions C02_binds_any_plan_args.

(** Non-vacuity: after the first eight operations of [exNF_ops], the plan
    [(5, WFn, AFail FErr); (2, WCut, ASet 1 9)]: cutoff node 2 runs and lets 2 -> 3 through (its
    function writes var 1), the bind 3 runs and swaps its right-hand side to node 8, node 5 fails
    ([EUser 5]); the pass under the fault alone logs the same events; var 1 holds 9 / 3 *)
Example C02_C03_binds_plans_ex :
  match histN_run (init 64) (take 8 exNF_ops) with
  | Some s =>
    plan_ok s exPL_plan &&
    match stabilize exPL_plan false s, stabilize (fo exPL_plan) false s with
    | Ok (s1, Some (EUser 5%nat)), Ok (t1, Some (EUser 5%nat)) =>
      bool_decide (log s1 = log t1) &&
      bool_decide (take 10 (log s1) =
         [EvUpd 8; EvUpd 4; EvUpd 3; EvUpd 2; EvUpd 0; EvPassEnd XUser; EvErrH 5; EvFault 5 WFn FErr;
          EvInval 7; EvUnnec 1]) &&
      bool_decide (EvBindFn 3 3 (Some 8%nat) ∈ log s1) && bool_decide (EvCutoff 2 2 3 false ∈ log s1) &&
      (value (nd s1 1%nat) =? 9) && (value (nd t1 1%nat) =? 3) && (value (nd s1 2%nat) =? 3) &&
      (recomputedAt (nd s1 3%nat) =? stabNum s)
    | _, _ => false
    end
  | None => false
  end = true.
Proof. exact exPL_results. Qed.
