(** C13 for ParallelStabilize on graphs WITH binds, stamp form: which update handlers run.

    [C13_binds_parallel]: after the end-of-pass marker of a parallel pass without a plan the log
    holds exactly the update-handler events [H], each once: [EvUpd n] for the nodes [n] that are
    registered when the pass returns and carry its change stamp, [EvObsUpd o v] for the observers
    [o] of such nodes with the value [v] they hold then.  Swapping binds withdraw the handlers of
    the nodes they drop ([C13_binds_parallel_bind_step]), so the characterisation by stamps
    survives swaps under the parallel stabilizer as it does under the serial one
    (C13_binds_swap).  [C13_binds_parallel_value]: for a node that stayed registered throughout
    the pass (no [EvNec] of it) "its value differs from the one it had when the pass began"
    implies its handler event.  (For nodes dropped and linked again in the pass this reading fails
    under the serial stabilizer, K06 = C13_binds_swap_refuted; the K06 history does not exhibit
    it under ParStabilize, and I have no parallel witness.)
    Proofs: ParBindHandlers.v. *)
From incr Require Import Base Heap HeapSpec HeapProofs EngineDefs Engine EngineRun EngineWf Spec EngineLemmas EngineLocal
     EngineInv EngineInvProofs PassInv PassProofs PassPlanProofs PassPlanProofs2 PassBind PassBindProofs PassBindSwap
     PassBindSwapProofs PassBindSwapStep PassBindOps PassBindSwapLog PassBindSwapHandlers ParBind ParBindStep
     ParBindHistory ParBindLog ParBindHandlers.

Theorem C13_binds_parallel : forall s s',
  Inv s -> ValInvB s -> Tplain s -> parStabilize [] s = Ok (s', None) ->
  exists L H,
    rev (log s') = rev (log s) ++ [EvPassStart] ++ L ++ [EvPassEnd XOk] ++ H /\
    Forall passEv L /\ Forall EngineLocal.isHandlerEv H /\ NoDup H /\
    (forall n, EvUpd n ∈ H <-> inGraph (nd s' n) = true /\ changedAt (nd s' n) = stabNum s) /\
    (forall o v, EvObsUpd o v ∈ H <->
       exists n, obs s' !! o = Some n /\ changedAt (nd s' n) = stabNum s /\ v = valueOf s' n).
Proof. exact parS_handlers. Qed.
Print Assumptions C13_binds_parallel.

Theorem C13_binds_parallel_value : forall s s',
  Inv s -> ValInvB s -> Tplain s -> parStabilize [] s = Ok (s', None) ->
  forall evs n, log s' = evs ++ log s -> inGraph (nd s' n) = true -> EvNec n ∉ evs ->
    value (nd s' n) <> value (nd s n) -> EvUpd n ∈ evs.
Proof. exact parS_handlers_value. Qed.
Print Assumptions C13_binds_parallel_value.

(** the handler-set invariant through the steps of a block *)
Theorem C13_binds_parallel_step : forall fuel st m R st',
  Tplain st -> PInv st -> LInvP st (m :: R) -> inGraph (nd st m) = true -> HInv st ->
  recomputeNodeParallel fuel [] st m = Ok (st', None) -> HInv st'.
Proof. exact rnpH. Qed.
Print Assumptions C13_binds_parallel_step.

Theorem C13_binds_parallel_bind_step : forall s b R s',
  PInv s -> PInv s' -> LInvP s (b :: R) -> bfr s b s' -> obs s' = obs s -> HInv s -> HInv s'.
Proof. exact bind_HInvP. Qed.
Print Assumptions C13_binds_parallel_bind_step.

(** Non-vacuity: the parallel pass of [exD2_pre] (two binds swap, node 3 runs twice) satisfies the
    hypotheses (C02_C03_binds_parallel.C03_binds_parallel_ex); its handler events are the last
    eleven events of [exD2_evs] *)
Example C13_binds_parallel_ex :
  (Inv exD2_pre /\ ValInvB exD2_pre /\ Tplain exD2_pre) /\
  parStabilize [] exD2_pre = Ok (exD2_post, None) /\ log exD2_post = exD2_evs ++ log exD2_pre /\
  take 12 exD2_evs = [EvUpd 13; EvUpd 12; EvObsUpd 9 8; EvObsUpd 8 5; EvUpd 7; EvUpd 6; EvUpd 5; EvUpd 4; EvUpd 3;
                      EvUpd 1; EvUpd 0; EvPassEnd XOk].
Proof.
  split; [exact exD2_pre_hyps|]. destruct exD2_pass as [A B]. split; [exact A|]. split; [exact B|reflexivity].
Qed.
