(** C07 — Errors, panics and cancellation stop a pass, lose nothing, and a retry converges.

    FUNCTION-LEVEL theorems about the engine model, proved in EngineLocal.v (the convergence of a
    retry is a whole-history theorem built on these).  Statements only, closed by [exact];
    [Example]s by [vm_compute] on states reached by [Engine.run (init 256) ...].

    Vocabulary (EngineLocal.v): [passResult p c s] = what the pass loop returns (state, error,
    blamed node, always-nodes), or the cancellation short-cut; [firstFault acts] = the first
    [AFail] among a list of planned actions; [faultErr n FErr = EUser n], [faultErr n FPanic =
    EPanic n]; [structErr e] = [e] is [None], [Some ECycle] or [Some EHeightLimit];
    [passEpilogue s evs] = [s] with [evs] and then the handler events logged, the handler set
    emptied and the pass number advanced. *)
From incr Require Import Base Heap EngineDefs Engine EngineWf EngineLocal.

(** ** 1. The stabilizing mark is released however the pass ends *)
Theorem C07_status_released : forall p c s s' e,
  status s = 0 -> stabilize p c s = Ok (s', e) -> status s' = 0.
Proof. exact C07_status_released. Qed.
Print Assumptions C07_status_released.

Theorem C07_already_stabilizing : forall p c s,
  status s <> 0 -> stabilize p c s = fail s EAlreadyStabilizing.
Proof. exact C07_already_stabilizing. Qed.
Print Assumptions C07_already_stabilizing.

Theorem C07_status_released_any : forall p c s s' e,
  stabilize p c s = Ok (s', e) ->
  (status s = 0 /\ status s' = 0) \/ (status s <> 0 /\ s' = s /\ e = Some EAlreadyStabilizing).
Proof. exact C07_status_released_any. Qed.
Print Assumptions C07_status_released_any.

Theorem C07_status_released_par : forall p s s' e,
  status s = 0 -> parStabilize p s = Ok (s', e) -> status s' = 0.
Proof. exact C07_status_released_par. Qed.
Print Assumptions C07_status_released_par.

Theorem C07_already_stabilizing_par : forall p s,
  status s <> 0 -> parStabilize p s = fail s EAlreadyStabilizing.
Proof. exact C07_already_stabilizing_par. Qed.
Print Assumptions C07_already_stabilizing_par.

(** ** 2. A node whose recompute failed stays scheduled *)
(* an error: back in the heap with the stamp it had before (this is also C03.3, error half) *)
Theorem C07_failed_node_stays_scheduled : forall fuel p s n s' e imm,
  recomputeNodeSerial fuel p s n = Ok (s', Some e, imm) -> (forall m, e <> EPanic m) ->
  is_Some (nodes s !! n) ->
  inHeap s' n = true /\ recomputedAt (nd s' n) = recomputedAt (nd s n) /\ imm = None.
Proof. exact C07_failed_node_stays_scheduled. Qed.
Print Assumptions C07_failed_node_stays_scheduled.

(* a panic: the node the pass blames is queued again with a zero stamp when [stabilize] returns *)
Theorem C07_panicked_node_requeued : forall p c s s' m,
  status s = 0 -> ids_below s -> plan_ok s p = true ->
  Forall (fun v => isVar s v = true) (setDuring s ++ setRemoved s) ->
  stabilize p c s = Ok (s', Some (EPanic m)) ->
  exists sL at_ always, passResult p c s = Ok (sL, Some (EPanic m), at_, always) /\
    recomputedAt (nd s' at_) = 0 /\ inHeap s' at_ = true.
Proof. exact C07_panicked_node_requeued. Qed.
Print Assumptions C07_panicked_node_requeued.

Example C07_ex_error :
  let s := reach (ex12 ++ [SetVar 0%nat 4]) in
  status s = 0 /\ recomputedAt (nd s 1%nat) = 1 /\
  match stabilize [(1%nat, WFn, AFail FErr)] false s with
  | Ok (s', e) => e = Some (EUser 1%nat) /\ status s' = 0 /\ inHeap s' 1%nat = true /\
                  recomputedAt (nd s' 1%nat) = 1 /\ value (nd s' 1%nat) = 4
  | _ => False end.
Proof. vm_compute. repeat split. Qed.

Example C07_ex_panic :
  let s := reach (ex12 ++ [SetVar 0%nat 4]) in
  match stabilize [(1%nat, WFn, AFail FPanic)] false s with
  | Ok (s', e) => e = Some (EPanic 1%nat) /\ status s' = 0 /\ inHeap s' 1%nat = true /\
                  recomputedAt (nd s' 1%nat) = 0
  | _ => False end.
Proof. vm_compute. repeat split. Qed.

(* the retry, the fault gone, reaches the fault-free value *)
Example C07_ex_retry :
  value (nd (reach (ex12 ++ [SetVar 0%nat 4; Stabilize [(1%nat, WFn, AFail FPanic)]; Stabilize []])) 1%nat) = 5.
Proof. vm_compute. reflexivity. Qed.

(** ** 3. A cancelled pass over a non-empty heap computes nothing and leaves the heap alone *)
Theorem C07_cancelled_does_nothing : forall p s,
  status s = 0 -> 0 < Heap.cnt (heap s) -> setDuring s = [] -> setRemoved s = [] ->
  stabilize p true s = Ok (passEpilogue s [EvPassEnd XCancelled; EvPassStart], Some ECancelled).
Proof. exact C07_cancelled_does_nothing. Qed.
Print Assumptions C07_cancelled_does_nothing.

Theorem C07_passEpilogue_frame : forall s evs,
  heap (passEpilogue s evs) = heap s /\ nodes (passEpilogue s evs) = nodes s /\
  binds (passEpilogue s evs) = binds s /\ status (passEpilogue s evs) = status s /\
  obs (passEpilogue s evs) = obs s /\ reg (passEpilogue s evs) = reg s.
Proof. exact passEpilogue_frame. Qed.
Print Assumptions C07_passEpilogue_frame.

Example C07_ex_cancelled :
  let s := reach (ex12 ++ [SetVar 0%nat 4]) in
  0 < Heap.cnt (heap s) /\ setDuring s = [] /\ setRemoved s = [] /\ handlers s = [] /\
  match stabilize [] true (s <| log := [] |>) with
  | Ok (s', e) => e = Some ECancelled /\ rev (log s') = [EvPassStart; EvPassEnd XCancelled] /\
                  Heap.ids (heap s') = Heap.ids (heap s) /\ Heap.ids (heap s) = [0%nat]
  | _ => False end.
Proof. vm_compute. repeat split. Qed.

(** ** 4. The error returned is the one the failing function produced *)
(* one invocation *)
Theorem C07_invoke_spec : forall p s n w s' e,
  invoke p s n w = Ok (s', e) ->
  e = option_map (faultErr n) (firstFault (actions_of p n w)) /\
  vpsAll s s' /\ (forall m, inHeap s m = true -> inHeap s' m = true) /\ handlers s' = handlers s /\
  exists L, log s' = L ++ log s /\
            L = match firstFault (actions_of p n w) with Some k => [EvFault n w k] | None => [] end.
Proof. exact invoke_spec. Qed.
Print Assumptions C07_invoke_spec.

(* one recompute: a structural rejection (from a bind's relinking), or the plan's fault for this
   node (for a bind's lhs-change node: for the bind's function) *)
Theorem C07_error_is_returned_node : forall fuel p s n s' e imm,
  recomputeNodeSerial fuel p s n = Ok (s', Some e, imm) ->
  structErr (Some e) \/
  exists m w k, firstFault (actions_of p m w) = Some k /\ e = faultErr m k /\
                (m = n \/ nkind (nd s n) = KBindLhs m).
Proof. exact C07_error_is_returned_node. Qed.
Print Assumptions C07_error_is_returned_node.

(* the pass *)
Theorem C07_error_is_returned : forall p c s s' e,
  status s = 0 -> stabilize p c s = Ok (s', Some e) ->
  (c = true /\ e = ECancelled) \/
  exists sL at_ always, passResult p c s = Ok (sL, Some e, at_, always) /\
    (structErr (Some e) \/
     exists si m w k, firstFault (actions_of p m w) = Some k /\ e = faultErr m k /\
                      (m = at_ \/ nkind (nd si at_) = KBindLhs m)).
Proof. exact C07_error_is_returned. Qed.
Print Assumptions C07_error_is_returned.

(* a fault in a bind function (bind 1 = nodes 1, 2): the error names the bind *)
Example C07_ex_bind_fault :
  let s := reach [NewVar 1 false; NewBind [TMap (Aff 1 0) TX] 0%nat; Observe 2%nat] in
  match stabilize [(1%nat, WFn, AFail FErr)] false s with
  | Ok (s', e) => e = Some (EUser 1%nat) /\ status s' = 0 /\ inHeap s' 1%nat = true
  | _ => False end.
Proof. vm_compute. repeat split. Qed.
