(** C05 (edge index part) — past 64 entries a node's parent / child / observer list is
    searched through a position index and entries are removed by swapping the last entry into
    the hole.  The engine model (Engine.v) keeps these lists as plain lists with [l ++ [x]] and
    [filter (≠ id)].  The theorems below justify that abstraction: for every threshold and
    every sequence of appends and removes, the indexed implementation never faults and holds
    every identifier exactly as often as the plain list does.

    This file holds only the property theorems; each is closed by [exact] of a lemma proved
    in EdgeIndexProofs.v about the model EdgeIndex.v (a transliteration of /repo/edge_index.go
    and /repo/list_util.go, replayed against the Go code by cmd/edgetrace), with
    [Print Assumptions] beneath it. *)
From incr Require Import Base EdgeIndex EdgeIndexProofs.
Import EdgeIndex.
Local Open Scope nat_scope.

(** what the invariant [idx_ok] says when an index is present: the position list of every
    identifier has no duplicates and holds exactly the positions at which the identifier
    occurs (so: all in range; nothing recorded for identifiers that do not occur) *)
Theorem C05_edgeindex_invariant : forall l ix,
  idx_ok (l, Some ix) <->
  forall id, NoDup (posOf ix id) /\ forall i, i ∈ posOf ix id <-> l !! i = Some id.
Proof. exact idx_ok_meaning. Qed.
Print Assumptions C05_edgeindex_invariant.

(** append: exactly [l ++ [x]], invariant kept *)
Theorem C05_edgeindex_append : forall th s x,
  idx_ok s ->
  (edgeIndexAppend th s x).1 = s.1 ++ [x] /\ idx_ok (edgeIndexAppend th s x).
Proof. exact append_spec. Qed.
Print Assumptions C05_edgeindex_append.

(** the index is built by the append that takes the list past the threshold, never earlier;
    an existing index is kept by appends *)
Theorem C05_edgeindex_appears : forall th s x,
  is_Some (edgeIndexAppend th s x).2 <-> is_Some s.2 \/ th < length s.1 + 1.
Proof. exact append_index. Qed.
Print Assumptions C05_edgeindex_appears.

(** plain remove (no index): exactly [filter (≠ id)], order kept, never faults, hands back the
    removed entry iff there was one *)
Theorem C05_edgeindex_remove_plain : forall l id,
  remove l id = Ok (filter (fun x => x <> id) l, if decide (id ∈ l) then Some id else None).
Proof. exact remove_spec. Qed.
Print Assumptions C05_edgeindex_remove_plain.

(** remove: under the invariant it never faults, keeps the invariant, leaves a PERMUTATION of
    [filter (≠ id)] (exactly that list when there is no index), hands back the removed entry
    iff there was one, leaves an indexed list untouched when the identifier does not occur,
    and otherwise keeps the index exactly when more than threshold/2 entries remain *)
Theorem C05_edgeindex_remove : forall th s id,
  idx_ok s ->
  exists s' r, edgeIndexRemove th s id = Ok (s', r) /\
    idx_ok s' /\
    s'.1 ≡ₚ filter (fun x => x <> id) s.1 /\
    r = (if decide (id ∈ s.1) then Some id else None) /\
    (s.2 = None -> s'.1 = filter (fun x => x <> id) s.1 /\ s'.2 = None) /\
    (is_Some s.2 -> id ∉ s.1 -> s' = s) /\
    (is_Some s.2 -> id ∈ s.1 -> (is_Some s'.2 <-> th / 2 < length s'.1)).
Proof. exact edgeIndexRemove_spec. Qed.
Print Assumptions C05_edgeindex_remove.

(** the run theorem: from the empty list no sequence of appends and removes can fault, the
    final list is a permutation of what the plain-list operations give, the invariant holds *)
Theorem C05_edgeindex_run : forall th ops,
  exists s, run th ops empty = Ok s /\ idx_ok s /\ mode_ok th s /\ s.1 ≡ₚ spec_run ops [].
Proof. exact run_refines. Qed.
Print Assumptions C05_edgeindex_run.

(** ... at every intermediate state as well: the state reached after any prefix satisfies the
    invariant and holds every identifier exactly as often as the plain list *)
Theorem C05_edgeindex_run_everywhere : forall th ops1 ops2,
  exists s1 s2, run th ops1 empty = Ok s1 /\ run th ops2 s1 = Ok s2 /\
    run th (ops1 ++ ops2) empty = Ok s2 /\
    idx_ok s1 /\ mode_ok th s1 /\ s1.1 ≡ₚ spec_run ops1 [] /\
    forall id, count_occ Nat.eq_dec s1.1 id = count_occ Nat.eq_dec (spec_run ops1 []) id.
Proof. exact run_refines_everywhere. Qed.
Print Assumptions C05_edgeindex_run_everywhere.

(** the corollary C05 uses: multiplicities agree with the plain list, for every history
    (duplicated inputs and lists wider than the threshold included) *)
Theorem C05_edgeindex_multiplicities : forall th ops,
  exists s, run th ops empty = Ok s /\
    forall id, count_occ Nat.eq_dec s.1 id = count_occ Nat.eq_dec (spec_run ops []) id.
Proof. exact run_multiplicities. Qed.
Print Assumptions C05_edgeindex_multiplicities.

(** the index exists only inside the hysteresis band: absent up to the threshold, present only
    above half of it *)
Theorem C05_edgeindex_band : forall th ops s,
  run th ops empty = Ok s ->
  (s.2 = None -> length s.1 <= th) /\ (is_Some s.2 -> th / 2 < length s.1).
Proof. exact run_mode. Qed.
Print Assumptions C05_edgeindex_band.

(** Non-vacuity, at the Go threshold ([witness_ops] = 64 distinct entries, the same node twice,
    then the first entry removed): the run reaches an indexed state with duplicates whose
    position list is [64; 0], not ascending; the invariant holds of it by the run theorem, and
    removing the duplicate from there works. *)
Example C05_edgeindex_nonvacuous :
  match run edgeIndexThreshold witness_ops empty with
  | Ok (l, Some ix) =>
      length l = 65 /\ count_occ Nat.eq_dec l 70 = 2 /\ posOf ix 70 = [64; 0] /\
      l !! 0 = Some 70 /\ l !! 64 = Some 70 /\
      match edgeIndexRemove edgeIndexThreshold (l, Some ix) 70 with
      | Ok ((l', Some _), r) => r = Some 70 /\ length l' = 63 /\ count_occ Nat.eq_dec l' 70 = 0
      | _ => False
      end
  | _ => False
  end.
Proof. exact nonvacuous_64. Qed.
Print Assumptions C05_edgeindex_nonvacuous.

(** reading the position list once before the loop (instead of through Go's aliased slice)
    would fault on a reachable state: the in-place correction is load-bearing *)
Example C05_edgeindex_aliasing_matters :
  match run 2 [Append 0; Append 1; Append 7; Append 7; Remove 0] empty with
  | Ok (l, Some ix) =>
      l = [7; 1; 7] /\ posOf ix 7 = [2; 0] /\
      removeAtSnap (posOf ix 7) 2 l ix 7 = Crash IndexOutOfRange /\
      is_ok (removeAt 2 l ix 7 None) = true
  | _ => False
  end.
Proof. exact snapshot_crashes. Qed.
Print Assumptions C05_edgeindex_aliasing_matters.
