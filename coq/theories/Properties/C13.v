(** C13 — Update handlers run once per changed node, after the pass, seeing final values.

    FUNCTION-LEVEL theorems about the engine model, proved in EngineLocal.v.  Statements only,
    closed by [exact]; [Example]s by [vm_compute] on states reached by [Engine.run (init 256) ...].

    Vocabulary (EngineLocal.v):
    [ssorted l] = [StronglySorted Nat.lt l]; [passEv e] = [e] is none of
    [EvUpd], [EvObsUpd], [EvPassStart], [EvPassEnd];
    [hev s k] = the event the handler of key [k] produces in state [s]:
                [EvObsUpd k (valueOf s n)] when [k] is an observer of [n], else [EvUpd k];
    [passStart s] = [s] marked as stabilizing with [EvPassStart] logged;
    [passResult p c s] = what the pass loop returns (or the cancellation short-cut): the state
                when the loop ends, the error, the blamed node, the always-nodes met;
    [ids_below s] = every node record has an id below the creation counter;
    [successTail s n] = the part of [recomputeNodeSerial] after a successful [stabilizeNode]
                (see [recomputeNodeSerial_unfold]). *)
From Coq Require Import Sorted.
From incr Require Import Base Heap EngineDefs Engine EngineWf EngineLocal.

(** ** 1. The handler set is strictly sorted, hence holds each key at most once *)
Theorem C13_handlers_nodup_sorted : forall k s,
  ssorted (handlers s) ->
  ssorted (handlers (insert_handler k s)) /\ NoDup (handlers (insert_handler k s)) /\
  forall x, x ∈ handlers (insert_handler k s) <-> x = k \/ x ∈ handlers s.
Proof. exact C13_handlers_nodup_sorted. Qed.
Print Assumptions C13_handlers_nodup_sorted.

(* and it stays sorted through a whole pass loop, serial or parallel *)
Theorem C13_handlers_sorted_passLoop : forall fuel p s always s' e at_ always',
  passLoop fuel p s always = Ok (s', e, at_, always') -> ssorted (handlers s) -> ssorted (handlers s').
Proof. exact C13_handlers_sorted_passLoop. Qed.
Print Assumptions C13_handlers_sorted_passLoop.

Theorem C13_handlers_sorted_parLoop : forall fuel p s always s' e always',
  parLoop fuel p s always = Ok (s', e, always') -> ssorted (handlers s) -> ssorted (handlers s').
Proof. exact C13_handlers_sorted_parLoop. Qed.
Print Assumptions C13_handlers_sorted_parLoop.

Example C13_ex_insert_twice :
  handlers (insert_handler 2%nat (insert_handler 5%nat (insert_handler 2%nat (reach ex12)))) = [2%nat; 5%nat].
Proof. vm_compute. reflexivity. Qed.

(** ** 2. One start bracket, the computations, one end bracket with the error class, then
       exactly one handler event per key of the final handler set, in key order *)
Theorem C13_bracket_and_order : forall p c s s' e,
  status s = 0 -> ids_below s -> plan_ok s p = true ->
  Forall (fun v => isVar s v = true) (setDuring s ++ setRemoved s) ->
  stabilize p c s = Ok (s', e) ->
  exists L sL at_ always,
    passResult p c s = Ok (sL, e, at_, always) /\
    rev (log s') = rev (log s) ++ [EvPassStart] ++ L ++ [EvPassEnd (classify e)] ++ map (hev sL) (handlers sL) /\
    Forall passEv L /\ obs sL = obs s /\
    (ssorted (handlers s) -> ssorted (handlers sL) /\ NoDup (handlers sL)).
Proof. exact C13_bracket_and_order. Qed.
Print Assumptions C13_bracket_and_order.

Theorem C13_bracket_and_order_par : forall p s s' e,
  status s = 0 -> ids_below s -> plan_ok s p = true ->
  Forall (fun v => isVar s v = true) (setDuring s ++ setRemoved s) ->
  parStabilize p s = Ok (s', e) ->
  exists L sL always,
    parLoop (passFuel (passStart s)) p (passStart s) [] = Ok (sL, e, always) /\
    rev (log s') = rev (log s) ++ [EvPassStart] ++ L ++ [EvPassEnd (classify e)] ++ map (hev sL) (handlers sL) /\
    Forall passEv L /\ obs sL = obs s /\
    (ssorted (handlers s) -> ssorted (handlers sL) /\ NoDup (handlers sL)).
Proof. exact C13_bracket_and_order_par. Qed.
Print Assumptions C13_bracket_and_order_par.

(* the events of [map (hev sL) ...] are handler events, the events of [L] are not *)
Theorem C13_hev_is_handler_event : forall s k, isHandlerEv (hev s k).
Proof. exact hev_isHandlerEv. Qed.
Print Assumptions C13_hev_is_handler_event.

(* the boolean forms of two hypotheses are sound *)
Theorem C13_ids_below_b_sound : forall s, ids_below_b s = true -> ids_below s.
Proof. exact ids_below_b_sound. Qed.
Print Assumptions C13_ids_below_b_sound.
Theorem C13_all_vars_b_sound : forall s l, all_vars_b s l = true -> Forall (fun v => isVar s v = true) l.
Proof. exact all_vars_b_sound. Qed.
Print Assumptions C13_all_vars_b_sound.

Example C13_ex_hyps :
  let s := reach (ex12 ++ [SetVar 0%nat 4]) in
  status s = 0 /\ ids_below_b s = true /\ plan_ok s [(1%nat, WFn, ASet 0%nat 9)] = true /\
  all_vars_b s (setDuring s ++ setRemoved s) = true /\ handlers s = [] /\ wfb s = true.
Proof. vm_compute. repeat split. Qed.

(* the pass of that state: node 1 computes between the brackets, then the handlers of the var 0,
   the map 1 and the observer 2, the observer seeing 5 *)
Example C13_ex_pass_log :
  let s := reach (ex12 ++ [SetVar 0%nat 4]) in
  match stabilize [(1%nat, WFn, ASet 0%nat 9)] false (s <| log := [] |>) with
  | Ok (s', e) => e = None /\
      rev (log s') = [EvPassStart; EvInvoked 1%nat [4] 5; EvPassEnd XOk; EvUpd 0%nat; EvUpd 1%nat; EvObsUpd 2%nat 5]
  | _ => False end.
Proof. vm_compute. repeat split. Qed.

(* a failing pass: the end bracket carries the class, the handlers still run after it *)
Example C13_ex_failed_pass_log :
  let s := reach (ex12 ++ [SetVar 0%nat 4]) in
  match stabilize [(1%nat, WFn, AFail FErr)] false (s <| log := [] |>) with
  | Ok (s', e) => e = Some (EUser 1%nat) /\
      rev (log s') = [EvPassStart; EvFault 1%nat WFn FErr; EvErrH 1%nat; EvPassEnd XUser; EvUpd 0%nat]
  | _ => False end.
Proof. vm_compute. repeat split. Qed.

(** ** 3. An observer's handler sees the value of the observed node when the pass loop ended *)
Theorem C13_observer_value_is_final : forall sL o n,
  obs sL !! o = Some n -> hev sL o = EvObsUpd o (valueOf sL n).
Proof. exact C13_observer_value_is_final. Qed.
Print Assumptions C13_observer_value_is_final.

(* deferred writes come later: [stabilizeEnd] logs the handler events first and only then applies
   them, so the value in [EvObsUpd] is the one the pass computed (here: with a mid-pass write to
   the observed var itself the observer 3 still sees the 4 the pass ran on; the var holds 8 afterwards) *)
Example C13_ex_observer_sees_pass_value :
  let s := reach [NewVar 3 false; NewMap (Aff 1 1) 0%nat; Observe 1%nat; Observe 0%nat; Stabilize []; SetVar 0%nat 4] in
  match stabilize [(1%nat, WFn, ASet 0%nat 8)] false (s <| log := [] |>) with
  | Ok (s', e) =>
      rev (log s') = [EvPassStart; EvInvoked 1%nat [4] 5; EvPassEnd XOk; EvUpd 0%nat; EvUpd 1%nat;
                      EvObsUpd 2%nat 5; EvObsUpd 3%nat 4] /\ value (nd s' 0%nat) = 8
  | _ => False end.
Proof. vm_compute. repeat split. Qed.

(** ** 4. A node that changed, and each of its observers, is filed for its handler;
       tearing a node down withdraws its key *)
Theorem C13_changed_node_is_queued_for_handler : forall s n s' e imm,
  successTail s n = Ok (s', e, imm) ->
  n ∈ handlers s' /\ (forall o, o ∈ observers (nd s' n) -> o ∈ handlers s') /\
  (forall k, k ∈ handlers s -> k ∈ handlers s') /\
  (forall k, k ∈ handlers s' -> k ∈ handlers s \/ k = n \/ k ∈ observers (nd s n)).
Proof. exact C13_changed_node_is_queued_for_handler. Qed.
Print Assumptions C13_changed_node_is_queued_for_handler.

(* [successTail] is exactly the success path of [recomputeNodeSerial] *)
Theorem C13_recomputeNodeSerial_unfold : forall fuel p s n,
  recomputeNodeSerial fuel p s n =
  let x := nd s n in
  let prev := recomputedAt x in
  let s0 := upd s n (set recomputedAt (fun _ => stabNum s)) in
  '(s1, e, cut) <-! maybeCutoff p s0 n x;
  match e with
  | Some e => failTail s1 n prev e
  | None =>
    if cut then Ok (s1, None, None) else
    '(s2, e) <-! stabilizeNode fuel p s1 n;
    match e with
    | Some e => failTail s2 n prev e
    | None => successTail s2 n
    end
  end.
Proof. exact recomputeNodeSerial_unfold. Qed.
Print Assumptions C13_recomputeNodeSerial_unfold.

Theorem C13_zeroNode_withdraws : forall s n s',
  zeroNode s n = Ok s' -> handlers s' = rm n (handlers s) /\ n ∉ handlers s'.
Proof. exact C13_zeroNode_withdraws. Qed.
Print Assumptions C13_zeroNode_withdraws.

Example C13_ex_changed_node_filed :
  let s := reach (ex12 ++ [SetVar 0%nat 4]) <| status := 1 |> in
  match recomputeNodeSerial 10 [] s 1%nat with
  | Ok (s', e, imm) => e = None /\ handlers s' = [1%nat; 2%nat] /\ observers (nd s' 1%nat) = [2%nat]
  | _ => False end.
Proof. vm_compute. repeat split. Qed.
