(** C12 + C07 on graphs with binds: plans that write vars AND have a failing node / bind function.
    Seen through the erasure [PassBindWrites.cl] (of [pending], [setDuring], [setRemoved]) the pass
    with plan [p] is the pass with the faults of [p] only ([fo p]: [C12_binds_any_plan_loop]), and a
    pass whose plan has no writes commutes with the erasure ([C12_binds_nowrites_loop]); hence the two
    loops, run from the same state, end in states equal up to the erased fields with the same
    result ([C12_binds_loops_agree]).  For a plan made of writes and the failure of one function
    [(x, WFn, AFail FErr)]: the pass returns [EUser x] (or nothing, or a rejected edge), the writes
    made before the failure are applied, and the invariants hold again ([C12_binds_writes_and_fault]);
    histories with such passes keep the invariants and every plan-free pass converges.
    Proofs: PassBindMixed.v. *)
From incr Require Import Base Heap HeapSpec HeapProofs EngineDefs Engine EngineRun EngineWf Spec EngineLemmas EngineLocal
     EngineInv EngineInvProofs PassInv PassProofs PassPlanProofs PassBind PassBindProofs PassBindSwap PassBindSwapProofs
     PassBindSwapStep PassBindOps PassBindFault PassBindWrites PassBindTotal PassBindMixed SpecProofs.

Theorem C12_binds_any_plan_loop : forall fuel p s al s' e at_ al',
  status s = 1 ->
  passLoop fuel p s al = Ok (s', e, at_, al') -> passLoop fuel (fo p) (cl s) al = Ok (cl s', e, at_, al').
Proof. exact loop_simG. Qed.
Print Assumptions C12_binds_any_plan_loop.

Theorem C12_binds_nowrites_loop : forall fuel q, nowrites q ->
  forall s al, passLoop fuel q (cl s) al = rmap clL (passLoop fuel q s al).
Proof. exact loop_clG. Qed.
Print Assumptions C12_binds_nowrites_loop.

Theorem C12_binds_loops_agree : forall fuel p s al sLp e at_ al',
  status s = 1 -> passLoop fuel p s al = Ok (sLp, e, at_, al') ->
  exists tL, passLoop fuel (fo p) s al = Ok (tL, e, at_, al') /\ cl tL = cl sLp.
Proof. exact loops_agree. Qed.
Print Assumptions C12_binds_loops_agree.

Theorem C12_binds_writes_and_fault : forall s p x s' e,
  Inv s -> ValInvB s -> Tplain s -> plan_ok s p = true -> fo p = failPlan x ->
  stabilize p false s = Ok (s', e) -> rejected e = false ->
  (e = None \/ e = Some (EUser x)) /\ Inv s' /\ ValInvB s' /\ Tplain s' /\ CF s s' /\
  (e = Some (EUser x) -> inHeap s' x = true).
Proof. exact pass_mixed_fail. Qed.
Print Assumptions C12_binds_writes_and_fault.

Theorem C12_history_binds_faults_invariants : forall os s0 s,
  Inv s0 -> ValInvB s0 -> Tplain s0 -> templates_ok s0 = true -> histM_run s0 os = Some s ->
  Inv s /\ ValInvB s /\ Tplain s /\ templates_ok s = true.
Proof. exact histM_inv. Qed.
Print Assumptions C12_history_binds_faults_invariants.

Theorem C12_history_binds_faults : forall mh os1 os2 sf,
  (0 < mh)%nat -> histM_run (init mh) (os1 ++ Stabilize [] :: os2) = Some sf ->
  exists s1 s2, histM_run (init mh) os1 = Some s1 /\ step s1 (Stabilize []) = Ok (s2, None) /\
    consistent s2 = true /\ observers_agree s2 = true /\ Inv s2 /\ ValInvB s2.
Proof. exact histM_planfree. Qed.
Print Assumptions C12_history_binds_faults.

(** Non-vacuity: [exM_ops]; in its fault pass node 4's function updates var 0 and then fails, the
    bind function sets var 1: the pass returns [EUser 4], var 0 holds 3 + 1 and var 1 holds 9. *)
Example C12_history_binds_faults_ex : exists s, histM_run (init 64) exM_ops = Some s.
Proof. exact exM_runs. Qed.

Example C12_binds_writes_and_fault_ex : exists s s', histM_run (init 64) (take 7 exM_ops) = Some s /\
  stabilize exM_plan false s = Ok (s', Some (EUser 4%nat)) /\
  value (nd s 0%nat) = 3 /\ value (nd s' 0%nat) = 4 /\ value (nd s' 1%nat) = 9.
Proof. exact exM_fail. Qed.
