(** C04, first sentence: "driving the same program through ParallelStabilize instead of Stabilize
    yields the same observer values, the same set of nodes reported as updated and the same graph
    structure" -- bind-free fragment, plan without faults and without writes (statements only). *)
From incr Require Import Base Heap HeapSpec EngineDefs Engine EngineWf PassInv PassProofs Par ParProofs ParSerial.

(** [s]: a quiescent state of the bind-free fragment ([wfb], [PassInv.ValInv]).  If the serial pass
    succeeds, so does the parallel pass (the model's queue-order schedule; no fuel or crash
    escape), and the two final states have the same node records (values, stamps, edges,
    heights), observers, registry, counters, pass number, and the same update-handler events. *)
Theorem C04_serial_parallel_agree : forall s s1,
  wfb s = true -> ValInv s -> stabilize [] false s = Ok (s1, None) ->
  exists s2, parStabilize [] s = Ok (s2, None) /\
    nodes s1 = nodes s2 /\ obs s1 = obs s2 /\ reg s1 = reg s2 /\ numNodes s1 = numNodes s2 /\
    binds s1 = binds s2 /\ next s1 = next s2 /\ stabNum s1 = stabNum s2 /\ status s1 = status s2 /\
    handlers s1 = handlers s2 /\ updEvents s1 = updEvents s2.
Proof. exact serial_parallel_agree. Qed.
Print Assumptions C04_serial_parallel_agree.

(** ... and for every fair schedule of the blocks of the parallel pass (update events as a multiset) *)
Theorem C04_serial_parallel_any_schedule : forall sched s s1,
  fair sched -> wfb s = true -> ValInv s -> stabilize [] false s = Ok (s1, None) ->
  exists s2, parStabilizeS sched [] s = Ok (s2, None) /\
    nodes s1 = nodes s2 /\ obs s1 = obs s2 /\ reg s1 = reg s2 /\ numNodes s1 = numNodes s2 /\
    binds s1 = binds s2 /\ next s1 = next s2 /\ stabNum s1 = stabNum s2 /\ status s1 = status s2 /\
    handlers s1 = handlers s2 /\ updEvents s1 ≡ₚ updEvents s2.
Proof. exact serial_parallel_any_schedule. Qed.
Print Assumptions C04_serial_parallel_any_schedule.

(** the quiescent invariants give the hypotheses of the schedule-independence theorems of C04.v *)
Theorem C04_wfb_pass_ok : forall s, wfb s = true -> ValInv s -> pass_ok s.
Proof. exact wfb_pass_ok. Qed.
Print Assumptions C04_wfb_pass_ok.

(** the parallel pass of the fragment never runs out of fuel and never crashes *)
Theorem C04_parallel_pass_total : forall s, wfb s = true -> ValInv s ->
  exists s2, parStabilize [] s = Ok (s2, None).
Proof. exact parallel_pass_total. Qed.
Print Assumptions C04_parallel_pass_total.

(** Non-vacuity: the example state of Par.v (two vars set, a diamond, a cutoff and an always node) *)
Example C04_serial_ex_hyps :
  wfb Par.ex_pre = true /\ ValInv Par.ex_pre /\ ok_none (stabilize [] false Par.ex_pre) = true.
Proof. split; [vm_compute; reflexivity|]. split; [apply valinv_b_sound; vm_compute; reflexivity|vm_compute; reflexivity]. Qed.
