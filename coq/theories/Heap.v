(** Model of recompute_heap.go / recompute_heap_list.go.

    The Go heap is a slice of intrusive doubly linked lists, one per height, with a lazy
    minimum cursor [minHeight], a high-water mark [maxHeight], a count, and the per-node
    field [heightInRecomputeHeap].  Here a height block is a [list nid] in FIFO order
    (push at the tail, pop at the head) and the per-node field is the finite map [hin].
    Every function below is the transliteration of the Go function of the same name; the
    node's current [height] is an argument (the Go code reads it from the node). *)
From incr Require Import Base.

Record t := mk {
  buckets : list (list nid);   (* heights []recomputeHeapList *)
  minH : Z;                    (* minHeight *)
  maxH : Z;                    (* maxHeight *)
  cnt : Z;                     (* numItems *)
  hin : gmap nid Z             (* Node.heightInRecomputeHeap; absent = HeightUnset *)
}.

Definition empty (maxHeight : nat) : t :=
  mk (replicate maxHeight []) 0 0 0 ∅.

Definition hinOf (w : t) (n : nid) : Z := default unset (hin w !! n).
Definition mem (w : t) (n : nid) : bool := bool_decide (hinOf w n <> unset).
Definition bucket (w : t) (x : nat) : list nid := default [] (buckets w !! x).
Definition len (w : t) : Z := cnt w.

(* nextMinHeightFromUnsafe: lowest non-empty height at or above [from]; 0 when empty or none *)
Fixpoint scan_from (bs : list (list nid)) (x : nat) : option nat :=
  match bs with
  | [] => None
  | b :: bs => match b with [] => scan_from bs (S x) | _ :: _ => Some x end
  end.
Definition nextMinFrom (bs : list (list nid)) (cnt : Z) (from : Z) : Z :=
  if cnt =? 0 then 0 else
  let from := Z.to_nat (Z.max 0 from) in
  match scan_from (drop from bs) from with Some x => Z.of_nat x | None => 0 end.

(* maybeAddNewHeightsUnsafe *)
Definition grow (bs : list (list nid)) (h : nat) : list (list nid) :=
  if (length bs <=? h)%nat then bs ++ replicate (h - length bs + 1) [] else bs.

(* addNodeUnsafe, [h] is the node's height *)
Definition add (w : t) (n : nid) (h : Z) : res t :=
  if h <? 0 then Crash HeapNegativeHeight else
  let '(mn, mx) := if cnt w =? 0 then (h, h)
                   else (Z.min (minH w) h, Z.max (maxH w) h) in
  let hn := Z.to_nat h in
  let bs := grow (buckets w) hn in
  let bs := <[hn := default [] (bs !! hn) ++ [n]]> bs in
  Ok (mk bs mn mx (cnt w + 1) (<[n := h]> (hin w))).

Definition addIfNotPresent (w : t) (n : nid) (h : Z) : res t :=
  if mem w n then Ok w else add w n h.

(* removeNodeUnsafe *)
Definition remove_first (n : nid) (l : list nid) : list nid :=
  (fix go l := match l with [] => [] | x :: l => if decide (x = n) then l else x :: go l end) l.

Definition remove (w : t) (n : nid) : res t :=
  let h := hinOf w n in
  if h <? 0 then Crash HeapRemoveUnset else
  let hn := Z.to_nat h in
  match buckets w !! hn with
  | None => Crash IndexOutOfRange
  | Some b =>
    if bool_decide (n ∈ b) then
      let b' := remove_first n b in
      let bs := <[hn := b']> (buckets w) in
      let c := cnt w - 1 in
      let mn := if (h =? minH w) && bool_decide (b' = []) then nextMinFrom bs c (h + 1) else minH w in
      Ok (mk bs mn (maxH w) c (delete n (hin w)))
    else Crash HeapRemoveMissing
  end.

(* fixUnsafe: remove, then add at the node's current height *)
Definition fix_ (w : t) (n : nid) (h : Z) : res t :=
  w' <-! remove w n; add w' n h.

(* removeMinUnsafe *)
Definition removeMin (w : t) : option (nid * t) :=
  if cnt w <=? 0 then None else
  let from := Z.to_nat (minH w) in
  match scan_from (drop from (buckets w)) from with
  | None => None
  | Some x =>
    if (Z.of_nat x <=? maxH w) then
      match bucket w x with
      | [] => None
      | n :: b' =>
        let bs := <[x := b']> (buckets w) in
        let c := cnt w - 1 in
        let mn := match b' with [] => nextMinFrom bs c (Z.of_nat x + 1) | _ => Z.of_nat x end in
        Some (n, mk bs mn (maxH w) c (delete n (hin w)))
      end
    else None
  end.

(* setIterToMinHeight followed by draining the iterator: the whole minimum height block,
   in FIFO order; every node of it leaves the heap *)
Definition takeMinBlock (w : t) : list nid * t :=
  let from := Z.to_nat (Z.max 0 (minH w)) in
  match scan_from (drop from (buckets w)) from with
  | None => ([], w)
  | Some x =>
    let b := bucket w x in
    let bs := <[x := []]> (buckets w) in
    let c := cnt w - Z.of_nat (length b) in
    (b, mk bs (nextMinFrom bs c 0) (maxH w) c (foldr delete (hin w) b))
  end.

(* clear: pops everything through removeMinUnsafe, then resets *)
Fixpoint drain (fuel : nat) (w : t) : list nid * t :=
  match fuel with
  | O => ([], w)
  | S fuel => match removeMin w with
              | None => ([], w)
              | Some (n, w') => let '(l, w'') := drain fuel w' in (n :: l, w'')
              end
  end.
Definition clear (w : t) : list nid * t :=
  let '(l, w') := drain (Z.to_nat (cnt w)) w in
  (l, mk (replicate (length (buckets w)) []) 0 0 0 (hin w')).

(* minHeightUnsafe; None stands for math.MaxInt *)
Definition minHeight (w : t) : option Z := if cnt w =? 0 then None else Some (minH w).

(* RecomputeHeapIDs: every queued node, by height then FIFO *)
Definition ids (w : t) : list nid := concat (buckets w).

(* sanityCheck of the heap's own fields (the node-height half lives with the graph) *)
Definition sanity (w : t) : bool :=
  (if 0 <? cnt w then negb (bool_decide (bucket w (Z.to_nat (minH w)) = [])) && (0 <=? minH w) else true)
  && forallb (fun '(x, b) => forallb (fun n => hinOf w n =? Z.of_nat x) b) (imap (fun x b => (x, b)) (buckets w)).
