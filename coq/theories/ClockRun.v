(** Executable correspondence runner for C15: replays, on [Clock], an operation sequence the
    harness (harness/cmd/clocktrace) played on the real library, and compares after every
    operation what the public API shows of every node: Value(), and through ExpertNode
    IsNecessary, Height, IsInRecomputeHeap, RecomputedAt, ChangedAt, SetAt, NumRecomputes;
    plus Clock.Now() and whether the call panicked.

    The variant [gd] is determined by the harness by probing the real code once (create an
    At node, never observe it, advance past its time: a panic = SetStale without the guard,
    [gd = false]; no panic = the repaired SetStale, [gd = true]), so the same cases file
    replays before and after the repair (in the repaired SetStale the early return comes
    before the [setAt] stamp, and the model variant does the same). *)
From incr Require Import Base Clock.

Record nobs := NObs {
  o_value : Z;
  o_nec : bool;
  o_height : Z;
  o_inheap : bool;
  o_rec : Z;
  o_chg : Z;
  o_set : Z;
  o_nrec : Z
}.

Record obs := Obs {
  o_panicked : bool;
  o_now : Z;
  o_nodes : list nobs
}.

Definition nobs_of (x : tnode) : nobs :=
  NObs (value (own_ x)) (isNecessary x) (height (meta_ x)) (negb (hrh (meta_ x) =? unset))
       (recomputedAt (meta_ x)) (changedAt (meta_ x)) (setAt (meta_ x)) (numRecomputes (meta_ x)).

Definition nobs_eqb (a b : nobs) : bool :=
  (o_value a =? o_value b) && Bool.eqb (o_nec a) (o_nec b) && (o_height a =? o_height b)
  && Bool.eqb (o_inheap a) (o_inheap b) && (o_rec a =? o_rec b) && (o_chg a =? o_chg b)
  && (o_set a =? o_set b) && (o_nrec a =? o_nrec b).

Fixpoint all2 {X} (f : X -> X -> bool) (l1 l2 : list X) : bool :=
  match l1, l2 with
  | [], [] => true
  | a :: l1, b :: l2 => f a b && all2 f l1 l2
  | _, _ => false
  end.

Definition state_matches (gd : bool) (s : state) (e : obs) : bool :=
  (now s =? o_now e) && all2 nobs_eqb (map nobs_of (nodes s)) (o_nodes e).

(* index of the first disagreement *)
Fixpoint replay (gd : bool) (s : state) (tr : list (op * obs)) (i : nat) : option nat :=
  match tr with
  | [] => None
  | (o, expected) :: tr =>
    match step gd s o with
    | Ok s' =>
      if negb (o_panicked expected) && state_matches gd s' expected then replay gd s' tr (S i) else Some i
    | Crash _ => if o_panicked expected then None else Some i
    | OutOfFuel => Some i
    end
  end.

Definition case := (Z * list kind * list (op * obs))%type.   (* clock start, nodes, trace *)

Definition mismatches (gd : bool) (cs : list case) : list (nat * nat) :=
  omap (fun '(k, (now0, cfg, tr)) => match replay gd (init now0 cfg) tr 0 with
                                     | Some i => Some (k, i) | None => None end)
       (imap (fun k c => (k, c)) cs).
