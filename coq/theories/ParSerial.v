(** C04, first sentence: on the bind-free fragment, with a fault-free and write-free plan,
    ParallelStabilize ends in the same observable state as Stabilize.

    Route: both passes are characterized by the same equations on node records (a node ran iff it
    was queued or one of its inputs changed; a node that ran holds [stepF] of its initial record
    and the FINAL values of its inputs; the others are untouched), and these equations have at most
    one solution (induction on heights).  The serial side rests on pass-prover's loop invariant
    [PassInv.LInv] (clause B: nothing at or below an owed node has run), threaded together with
    the record equations through the same induction as [PassProofs.chain_LInv]/[loop_LInv]; the
    parallel side on the block lemmas of ParProofs. *)
From stdpp Require Import sorting.
From incr Require Import Base Heap HeapSpec HeapProofs EngineDefs Engine EngineRun EngineWf Spec Par ParProofs.
From incr Require Import EngineLemmas PassInv PassProofs.

Local Ltac inv H := inversion H; subst; clear H.

(** * A. One recompute as a function of the node's record and its inputs' values *)
Definition stepCut (vo : nid -> Z) (x0 : node) : bool :=
  match nkind x0 with
  | KCutoff c => apCut c (value x0) (vo (hd 0%nat (decl x0)))
  | _ => false
  end.

Definition stepVal (vo : nid -> Z) (x0 : node) : option Z :=
  match nkind x0 with
  | KMap f => Some (ap1 f (vo (hd 0%nat (decl x0))))
  | KMap2 f => Some (ap2 f (vo (nth 0 (decl x0) 0%nat)) (vo (nth 1 (decl x0) 0%nat)))
  | KMapN f => Some (apN f (map vo (decl x0)))
  | KCutoff _ => Some (vo (hd 0%nat (decl x0)))
  | _ => None
  end.

Definition stepF (vo : nid -> Z) (k : Z) (x0 : node) : node :=
  let y := x0 <| recomputedAt := k |> in
  if stepCut vo x0 then y
  else (match stepVal vo x0 with Some v => y <| value := v |> | None => y end) <| changedAt := k |>.

Lemma localF_stepF s n : isBindKind (nkind (nd s n)) = false ->
  localF s n (nd s n) = stepF (valueOf s) (stabNum s) (nd s n).
Proof.
  intros Hk. unfold localF, stepF, cutv, newval, stepCut, stepVal.
  destruct (nkind (nd s n)); try reflexivity; discriminate.
Qed.

Lemma stepF_ext vo vo' k x0 : (forall a, a ∈ decl x0 -> vo a = vo' a) -> arity_ok x0 = true ->
  stepF vo k x0 = stepF vo' k x0.
Proof.
  intros H Ha. unfold stepF, stepCut, stepVal, arity_ok in *.
  destruct (nkind x0); try reflexivity; apply bool_decide_eq_true in Ha || idtac.
  - destruct (decl x0) as [|a [|b l]]; try discriminate. cbn. rewrite (H a) by left. reflexivity.
  - destruct (decl x0) as [|a [|b [|c l]]]; try discriminate. cbn.
    rewrite (H a), (H b) by (repeat constructor). reflexivity.
  - rewrite (map_ext_in vo vo') by (intros a Hin; apply H, elem_of_list_In, Hin). reflexivity.
  - destruct (decl x0) as [|a [|b l]]; try discriminate. cbn. rewrite (H a) by left. reflexivity.
Qed.

Lemma stepF_frame vo k x0 : skel (stepF vo k x0) = skel x0.
Proof. unfold stepF. destruct (stepCut vo x0); [|destruct (stepVal vo x0)]; reflexivity. Qed.

Lemma stepF_rec vo k x0 : recomputedAt (stepF vo k x0) = k.
Proof. unfold stepF. destruct (stepCut vo x0); [|destruct (stepVal vo x0)]; reflexivity. Qed.

(** * B. Values come from ancestors *)
Lemma vsrc__reach s (HS : Struct s) fuel : forall a y, inGraph (nd s a) = true ->
  vsrc_ fuel s a = Some y -> reach s y a.
Proof.
  induction fuel as [|fuel IH]; intros a y Hg H; [discriminate|]. cbn [vsrc_] in H.
  destruct (nkind (nd s a)) eqn:Ek; try (injection H as <-; apply rtc_refl).
  destruct (decl (nd s a)) as [|a' l] eqn:Ed; [injection H as <-; apply rtc_refl|].
  assert (He : edge s a' a) by (apply (decl_parent s HS a a' Hg); rewrite Ed; left).
  eapply rtc_r; [|exact He]. apply IH; [apply (edge_reg s HS a' a He)|exact H].
Qed.

Lemma vsrc_reach s (HS : Struct s) x a y : inGraph (nd s x) = true -> a ∈ decl (nd s x) ->
  vsrc s a = Some y -> reach s y x.
Proof.
  intros Hg Ha Hv. assert (He : edge s a x) by (apply (decl_parent s HS x a Hg Ha)).
  eapply rtc_r; [|exact He]. apply (vsrc__reach s HS (S a) a y); [apply (edge_reg s HS a x He)|exact Hv].
Qed.

Lemma vsrc_lower s (HS : Struct s) x a y : inGraph (nd s x) = true -> a ∈ decl (nd s x) ->
  vsrc s a = Some y -> height (nd s y) < height (nd s x).
Proof.
  intros Hg Ha Hv. assert (He : edge s a x) by (apply (decl_parent s HS x a Hg Ha)).
  pose proof (vsrc__reach s HS (S a) a y (proj1 (edge_reg s HS a x He)) Hv) as Hr.
  pose proof (edge_height s HS a x He). destruct (reach_height s HS y a Hr) as [->|]; lia.
Qed.

(** the skeleton part of [BF]: no bind kinds, declared inputs of the right number *)
Definition KA (st : state) : Prop :=
  forall n, isBindKind (nkind (nd st n)) = false /\ arity_ok (nd st n) = true /\ valid (nd st n) = true.

Lemma BF_KA st : BF st -> KA st.
Proof. intros H n. split; [apply (bf_kind st H)|split; [apply (bf_arity st H)|apply (bf_valid st H)]]. Qed.

(** * C. The record equations, and one step *)
Definition NI (s0 st : state) : Prop :=
  forall n, nd st n = if isDone st n then stepF (valueOf st) (stabNum s0) (nd s0 n) else nd s0 n.

Lemma NI_skel s0 st n : NI s0 st -> skel (nd st n) = skel (nd s0 n).
Proof. intros H. rewrite (H n). destruct (isDone st n); [apply stepF_frame|reflexivity]. Qed.

Lemma arity_skel x y : skel x = skel y -> arity_ok x = arity_ok y.
Proof.
  intros H. unfold arity_ok. change (nkind x) with (nkind (skel x)). change (decl x) with (decl (skel x)).
  rewrite H. reflexivity.
Qed.

Lemma valueOf_after st st' m a :
  nodes st' = nodes (afterLocal st m) -> (forall y, vsrc st a = Some y -> y <> m) ->
  valueOf st' a = valueOf st a.
Proof.
  intros Hn Hy. rewrite (ParProofs.valueOf_ext st' (afterLocal st m) a Hn).
  apply valueOf_shape; [apply same_shape_afterLocal|].
  intros y Hv. rewrite nd_afterLocal_ne; [reflexivity|]. apply Hy, Hv.
Qed.

Lemma NI_step s0 st st' m :
  stabNum st = stabNum s0 -> Struct st -> KA st -> NI s0 st ->
  isDone st m = false -> inGraph (nd st m) = true ->
  (forall x, isDone st x = true -> inGraph (nd st x) = true /\ ~ reach st m x) ->
  nodes st' = nodes (afterLocal st m) -> stabNum st' = stabNum st ->
  NI s0 st' /\ (forall x, isDone st' x = true <-> isDone st x = true \/ x = m).
Proof.
  intros Hk HS HBF N Hm Hgm Hdone Hn Hk'.
  assert (Hhas : ParProofs.has st m) by (apply has_inGraph, Hgm).
  assert (Hnd' : forall x, nd st' x = nd (afterLocal st m) x) by (intros x; apply ParProofs.nd_ext, Hn).
  assert (Hm0 : nd st m = nd s0 m) by (rewrite (N m), Hm; reflexivity).
  assert (Hdm : isDone st' m = true).
  { unfold isDone. rewrite Hnd', nd_afterLocal_eq by exact Hhas. apply Z.eqb_eq.
    rewrite Hk'. unfold localF.
    destruct (cutv st m); [|destruct (newval st m)]; reflexivity. }
  assert (Hdx : forall x, x <> m -> isDone st' x = isDone st x).
  { intros x Hx. unfold isDone. rewrite Hnd', nd_afterLocal_ne, Hk' by exact Hx. reflexivity. }
  split.
  - intros x. destruct (decide (x = m)) as [->|Hx].
    + rewrite Hdm, Hnd', nd_afterLocal_eq by exact Hhas.
      rewrite (localF_stepF st m (proj1 (HBF m))), Hk, Hm0.
      apply stepF_ext.
      * intros a Ha. symmetry. apply (valueOf_after st st' m a Hn). intros y Hv ->.
        rewrite <- Hm0 in Ha. pose proof (vsrc_lower st HS m a m Hgm Ha Hv). lia.
      * rewrite <- Hm0. apply (HBF m).
    + rewrite (Hdx x Hx), Hnd', nd_afterLocal_ne by exact Hx. rewrite (N x).
      destruct (isDone st x) eqn:Ed; [|reflexivity].
      destruct (Hdone x Ed) as [Hgx Hnr].
      apply stepF_ext.
      * intros a Ha. symmetry. apply (valueOf_after st st' m a Hn). intros y Hv ->.
        apply Hnr. apply (vsrc_reach st HS x a m Hgx); [|exact Hv].
        change (decl (nd st x)) with (decl (skel (nd st x))). rewrite (NI_skel s0 st x N). exact Ha.
      * rewrite <- (arity_skel _ _ (NI_skel s0 st x N)). apply (HBF x).
  - intros x. destruct (decide (x = m)) as [->|Hx]; [tauto|]. rewrite (Hdx x Hx). tauto.
Qed.

(** * D. The handler keys and the update events *)
Lemma insert_sorted_sorted n l : StronglySorted lt l -> StronglySorted lt (insert_sorted n l).
Proof.
  induction 1 as [|x l Hl IH Hx]; cbn [insert_sorted]; [repeat constructor|].
  destruct (Nat.ltb_spec n x).
  - constructor; [constructor; assumption|]. constructor; [assumption|].
    eapply List.Forall_impl; [|exact Hx]. intros y Hy. lia.
  - destruct (Nat.eqb_spec n x); [constructor; assumption|].
    constructor; [exact IH|]. apply list.Forall_forall. intros y Hy.
    apply ParProofs.elem_of_insert_sorted in Hy as [->|Hy]; [lia|].
    rewrite list.Forall_forall in Hx. apply Hx, Hy.
Qed.

Lemma insAll_sorted ks : forall l, StronglySorted lt l -> StronglySorted lt (insAll l ks).
Proof.
  induction ks as [|k ks IH]; intros l Hl; [exact Hl|]. cbn [insAll foldl]. apply IH, insert_sorted_sorted, Hl.
Qed.

Lemma elem_of_insAll ks : forall l x, x ∈ insAll l ks <-> x ∈ l \/ x ∈ ks.
Proof.
  induction ks as [|k ks IH]; intros l x; cbn [insAll foldl].
  - rewrite elem_of_nil. tauto.
  - fold (insAll (insert_sorted k l) ks). rewrite IH, ParProofs.elem_of_insert_sorted, elem_of_cons. tauto.
Qed.

Lemma sorted_lt_ext (l1 : list nat) : forall l2, StronglySorted lt l1 -> StronglySorted lt l2 ->
  (forall x, x ∈ l1 <-> x ∈ l2) -> l1 = l2.
Proof.
  induction l1 as [|a l1 IH]; intros l2 H1 H2 Hx.
  - destruct l2 as [|b l2]; [reflexivity|]. exfalso. assert (b ∈ @nil nat) as Hb by (apply Hx; left). inv Hb.
  - destruct l2 as [|b l2]. { exfalso. assert (a ∈ @nil nat) as Ha by (apply Hx; left). inv Ha. }
    apply StronglySorted_inv in H1 as [H1 Fa]. apply StronglySorted_inv in H2 as [H2 Fb].
    rewrite list.Forall_forall in Fa, Fb.
    assert (a = b) as ->.
    { assert (Ha : a ∈ b :: l2) by (apply Hx; left). assert (Hb : b ∈ a :: l1) by (apply Hx; left).
      apply elem_of_cons in Ha as [?|Ha]; [assumption|]. apply elem_of_cons in Hb as [?|Hb]; [congruence|].
      specialize (Fa _ Hb). specialize (Fb _ Ha). lia. }
    f_equal. apply IH; try assumption. intros x. split; intros Hin.
    + assert (Hx' : x ∈ b :: l2) by (apply Hx; right; exact Hin).
      apply elem_of_cons in Hx' as [->|?]; [|assumption]. specialize (Fa _ Hin). lia.
    + assert (Hx' : x ∈ b :: l1) by (apply Hx; right; exact Hin).
      apply elem_of_cons in Hx' as [->|?]; [|assumption]. specialize (Fb _ Hin). lia.
Qed.

Definition HI (s0 st : state) : Prop :=
  StronglySorted lt (handlers st) /\
  forall x, x ∈ handlers st <->
    exists n, isDone st n = true /\ changedAt (nd st n) = stabNum s0 /\ (x = n \/ x ∈ observers (nd s0 n)).

Lemma localEvs_noupd st m : filter (fun e => isUpdEv e = true) (localEvs st m) = [].
Proof. unfold localEvs. destruct (nkind (nd st m)); reflexivity. Qed.

(** the three invariants together *)
Record MyInv (s0 st : state) : Prop := {
  mi_k : stabNum st = stabNum s0;
  mi_ni : NI s0 st;
  mi_hi : HI s0 st;
  mi_ui : updEvents st = updEvents s0;
  mi_obs : obs st = obs s0
}.

Lemma changedAt_localF_cases st m y :
  changedAt (localF st m y) = if cutv st m then changedAt y else stabNum st.
Proof. unfold localF. destruct (cutv st m); [|destruct (newval st m)]; reflexivity. Qed.

Lemma MyInv_step s0 st st' m :
  (forall n, changedAt (nd s0 n) < stabNum s0) ->
  Struct st -> KA st -> MyInv s0 st ->
  isDone st m = false -> inGraph (nd st m) = true ->
  (forall x, isDone st x = true -> inGraph (nd st x) = true /\ ~ reach st m x) ->
  nodes st' = nodes (afterLocal st m) -> stabNum st' = stabNum st ->
  handlers st' = newHandlers st m -> log st' = localEvs st m ++ log st -> obs st' = obs st ->
  MyInv s0 st' /\ (forall x, isDone st' x = true <-> isDone st x = true \/ x = m).
Proof.
  intros Hc0 HS HBF [Mk Mn [Hsort Hmem] Mu Mo] Hm Hgm Hdone Hn Hk' Hh Hl Ho.
  destruct (NI_step s0 st st' m Mk HS HBF Mn Hm Hgm Hdone Hn Hk') as [N' Hd'].
  split; [|exact Hd'].
  assert (Hhas : ParProofs.has st m) by (apply has_inGraph, Hgm).
  assert (Hnd' : forall x, nd st' x = nd (afterLocal st m) x) by (intros x; apply ParProofs.nd_ext, Hn).
  assert (Hm0 : nd st m = nd s0 m) by (rewrite (Mn m), Hm; reflexivity).
  assert (Hcm : changedAt (nd st' m) = if cutv st m then changedAt (nd s0 m) else stabNum s0).
  { rewrite Hnd', nd_afterLocal_eq by exact Hhas. rewrite changedAt_localF_cases, Hm0, Mk. reflexivity. }
  constructor.
  - congruence.
  - exact N'.
  - split.
    + rewrite Hh. apply insAll_sorted, Hsort.
    + intros x. rewrite Hh. unfold newHandlers. fold (insAll (handlers st) (hkeys st m)).
      rewrite elem_of_insAll, Hmem. split.
      * intros [(n & Hdn & Hcn & Hx)|Hx].
        -- exists n. assert (Hnm : n <> m) by (intros ->; congruence).
           split; [apply Hd'; auto|]. split; [|exact Hx].
           rewrite Hnd', nd_afterLocal_ne by exact Hnm. exact Hcn.
        -- unfold hkeys in Hx. destruct (cutv st m) eqn:Ec; [inv Hx|]. exists m.
           split; [apply Hd'; auto|]. split; [exact Hcm|].
           apply elem_of_cons in Hx as [->|Hx]; [left; reflexivity|right]. rewrite <- Hm0. exact Hx.
      * intros (n & Hdn & Hcn & Hx). destruct (proj1 (Hd' n) Hdn) as [Hdn'|Enm]; [|subst n].
        -- left. exists n. assert (Hnm : n <> m) by (intros ->; congruence).
           split; [exact Hdn'|]. split; [|exact Hx]. rewrite Hnd', nd_afterLocal_ne in Hcn by exact Hnm. exact Hcn.
        -- right. rewrite Hcm in Hcn. unfold hkeys. destruct (cutv st m).
           ++ pose proof (Hc0 m). lia.
           ++ destruct Hx as [->|Hx]; [left|right]. rewrite Hm0. exact Hx.
  - unfold updEvents. rewrite Hl, list.filter_app, localEvs_noupd. exact Mu.
  - congruence.
Qed.

(** * E. What one call of recomputeNodeSerial does to records, handlers and log *)
Definition heap_only (s s' : state) : Prop := exists w, s' = s <| heap := w |>.

Lemma heap_only_refl s : heap_only s s.
Proof. exists (heap s). destruct s; reflexivity. Qed.

Lemma heap_only_trans s1 s2 s3 : heap_only s1 s2 -> heap_only s2 s3 -> heap_only s1 s3.
Proof. intros [w ->] [w' ->]. exists w'. destruct s1; reflexivity. Qed.

Lemma heapAdd_heap_only s n s' : heapAdd s n = Ok s' -> heap_only s s'.
Proof. intros H. apply heapAdd_inv in H as (w & _ & ->). exists w. reflexivity. Qed.

Lemma childrenLoop_heap_only s n s' held : childrenLoop s n = Ok (s', held) -> heap_only s s'.
Proof.
  unfold childrenLoop. intros H.
  apply (rfold_pres (fun r : state * option nid => heap_only s r.1)) in H; [exact H|apply heap_only_refl|].
  intros c [t hd] [t1 hd1] _ Ht Hb. cbn in *.
  destruct (bool_decide (hd = Some c)); [injection Hb as <- <-; exact Ht|].
  destruct (negb (shouldRecomputeChild t c)); [injection Hb as <- <-; exact Ht|].
  destruct hd as [h|].
  - destruct (heapAdd t h) as [t2| |] eqn:E; cbn in Hb; try discriminate. injection Hb as <- <-.
    eapply heap_only_trans; [exact Ht|apply (heapAdd_heap_only _ _ _ E)].
  - cbn in Hb. injection Hb as <- <-. exact Ht.
Qed.

Lemma tailR_fields s3 m s' e imm : tailR s3 m = Ok (s', e, imm) ->
  e = None /\ nodes s' = alter (set changedAt (fun _ => stabNum s3)) m (nodes s3) /\
  handlers s' = insAll (handlers s3) (m :: observers (nd s3 m)) /\ log s' = log s3 /\
  stabNum s' = stabNum s3 /\ obs s' = obs s3.
Proof.
  unfold tailR. intros H.
  set (s4 := insert_handler m (upd s3 m (set changedAt (fun _ => stabNum s3)))) in *.
  destruct (childrenLoop s4 m) as [[s5 held]| |] eqn:E5; cbn [rbind] in H; try discriminate.
  destruct (childrenLoop_heap_only _ _ _ _ E5) as [w5 ->].
  assert (H6 : exists s6 imm', heap_only s4 s6 /\
     Ok (foldl (fun s o => insert_handler o s) s6 (observers (nd s6 m)), @None err, imm') = Ok (s', e, imm)).
  { destruct held as [h|].
    - destruct (canRecomputeImmediately (s4 <| heap := w5 |>) m h).
      + cbn [rbind] in H. eexists _, _. split; [|exact H]. exists w5. reflexivity.
      + destruct (heapAdd (s4 <| heap := w5 |>) h) as [s6| |] eqn:E6; cbn [rbind] in H; try discriminate.
        exists s6, None. split; [|exact H]. eapply heap_only_trans; [exists w5; reflexivity|apply (heapAdd_heap_only _ _ _ E6)].
    - cbn [rbind] in H. eexists _, _. split; [|exact H]. exists w5. reflexivity. }
  destruct H6 as (s6 & imm' & [w6 ->] & E). injection E as <- <- _.
  rewrite observers_fold. split; [reflexivity|]. cbn.
  split; [reflexivity|]. split; [|auto].
  change (nd (s4 <| heap := w6 |>) m) with (nd (upd s3 m (set changedAt (fun _ => stabNum s3))) m).
  rewrite (ParProofs.nd_upd_proj observers) by reflexivity. reflexivity.
Qed.

Record stepFields (st : state) (m : nid) (st' : state) : Prop := {
  sfl_nodes : nodes st' = nodes (afterLocal st m);
  sfl_handlers : handlers st' = newHandlers st m;
  sfl_log : log st' = localEvs st m ++ log st;
  sfl_stabNum : stabNum st' = stabNum st;
  sfl_obs : obs st' = obs st
}.

(* the common end of the non-cut cases *)
Lemma rns_finish st m s3 st' e imm :
  cutv st m = false ->
  alter (set changedAt (fun _ => stabNum s3)) m (nodes s3) = alter (localF st m) m (nodes st) ->
  handlers s3 = handlers st -> log s3 = localEvs st m ++ log st -> stabNum s3 = stabNum st -> obs s3 = obs st ->
  observers (nd s3 m) = observers (nd st m) ->
  tailR s3 m = Ok (st', e, imm) -> e = None /\ stepFields st m st'.
Proof.
  intros Hcut Hn Hh Hl Hk Ho Hob H.
  destruct (tailR_fields _ _ _ _ _ H) as (-> & T1 & T2 & T3 & T4 & T5). split; [reflexivity|].
  constructor.
  - rewrite T1. exact Hn.
  - rewrite T2, Hh, Hob. unfold newHandlers, hkeys. rewrite Hcut. reflexivity.
  - congruence.
  - congruence.
  - congruence.
Qed.

Lemma rns_char fuel st m st' e imm :
  ParProofs.has st m -> isBindKind (nkind (nd st m)) = false ->
  recomputeNodeSerial fuel [] st m = Ok (st', e, imm) -> e = None /\ stepFields st m st'.
Proof.
  intros Hm Hk H. rewrite rns_unfold in H. cbv zeta in H.
  set (s0 := upd st m (set recomputedAt (fun _ => stabNum st))) in *.
  assert (Hk0 : nkind (nd s0 m) = nkind (nd st m)) by (apply (ParProofs.nd_upd_proj nkind); reflexivity).
  assert (Hd0 : decl (nd s0 m) = decl (nd st m)) by (apply (ParProofs.nd_upd_proj decl); reflexivity).
  assert (Hr0 : recomputedAt (nd s0 m) = stabNum st) by (unfold s0; rewrite ParProofs.nd_upd_eq by exact Hm; reflexivity).
  assert (Hv0 : forall a, valueOf s0 a = valueOf st a) by (intros a; apply valueOf_upd_irrel; reflexivity).
  assert (Hob0 : forall f, observers (nd (upd s0 m (set value f)) m) = observers (nd st m)).
  { intros f. rewrite (ParProofs.nd_upd_proj observers) by reflexivity. apply (ParProofs.nd_upd_proj observers). reflexivity. }
  assert (Hob1 : observers (nd s0 m) = observers (nd st m)) by (apply (ParProofs.nd_upd_proj observers); reflexivity).
  destruct (nkind (nd st m)) eqn:Ek; try discriminate.
  all: unfold stabilizeNode in H; rewrite ?Hk0 in H.
  all: try (change (invoke [] ?s m WFn) with (Ok (s, @None err)) in H); unfold ok in H; cbn [rbind] in H.
  all: rewrite ?Hd0, ?Hv0 in H.
  - (* KVar *)
    assert (Hfin : tailR s0 m = Ok (st', e, imm)).
    { destruct (pending (nd s0 m)); [rewrite Hr0 in H; change (stabNum s0) with (stabNum st) in H; rewrite Z.eqb_refl in H|];
        cbn [rbind] in H; exact H. }
    clear H. eapply rns_finish; [| | | | | | |exact Hfin]; try reflexivity; try exact Hob1.
    + unfold cutv. rewrite Ek. reflexivity.
    + apply alter2. intros x. unfold localF, cutv, newval. rewrite Ek. reflexivity.
    + unfold localEvs. rewrite Ek. reflexivity.
  - eapply rns_finish; [| | | | | | |exact H]; try reflexivity; try exact Hob1.
    + unfold cutv. rewrite Ek. reflexivity.
    + apply alter2. intros x. unfold localF, cutv, newval. rewrite Ek. reflexivity.
    + unfold localEvs. rewrite Ek. reflexivity.
  - eapply rns_finish; [| | | | | | |exact H]; try reflexivity; try apply Hob0.
    + unfold cutv. rewrite Ek. reflexivity.
    + apply alter3. intros x. unfold localF, cutv, newval. rewrite Ek. reflexivity.
    + unfold localEvs. rewrite Ek. reflexivity.
  - eapply rns_finish; [| | | | | | |exact H]; try reflexivity; try apply Hob0.
    + unfold cutv. rewrite Ek. reflexivity.
    + apply alter3. intros x. unfold localF, cutv, newval. rewrite Ek. reflexivity.
    + unfold localEvs. rewrite Ek. reflexivity.
  - rewrite (map_ext _ _ Hv0) in H. eapply rns_finish; [| | | | | | |exact H]; try reflexivity; try apply Hob0.
    + unfold cutv. rewrite Ek. reflexivity.
    + apply alter3. intros x. unfold localF, cutv, newval. rewrite Ek. reflexivity.
    + unfold localEvs. rewrite Ek. reflexivity.
  - (* KCutoff *)
    set (ev := EvCutoff m _ _ _) in H.
    destruct (apCut c (value (nd st m)) (valueOf st (hd 0%nat (decl (nd st m))))) eqn:Ecut.
    + injection H as <- <- <-. split; [reflexivity|].
      assert (Hcut : cutv st m = true) by (unfold cutv; rewrite Ek; exact Ecut).
      constructor; try reflexivity.
      * cbn. apply alter_ext. intros x _. unfold localF. rewrite Hcut. reflexivity.
      * unfold newHandlers, hkeys. rewrite Hcut. reflexivity.
      * cbn. unfold localEvs. rewrite Ek. unfold ev. rewrite Ecut. reflexivity.
    + assert (Hcut : cutv st m = false) by (unfold cutv; rewrite Ek; exact Ecut).
      change (nd (emit ev s0) m) with (nd s0 m) in H. rewrite Hk0 in H. rewrite valueOf_emit, Hd0, Hv0 in H.
      cbn [rbind] in H. eapply rns_finish; [| | | | | | |exact H]; try reflexivity; try exact Hcut.
      * apply alter3. intros x. unfold localF, newval. rewrite Hcut, Ek. reflexivity.
      * cbn. unfold localEvs. rewrite Ek. unfold ev. rewrite Ecut. reflexivity.
      * apply (Hob0 (fun _ => valueOf st (hd 0%nat (decl (nd st m))))).
  - (* KAlways *)
    eapply rns_finish; [| | | | | | |exact H]; try reflexivity; try exact Hob1.
    + unfold cutv. rewrite Ek. reflexivity.
    + apply alter2. intros x. unfold localF, cutv, newval. rewrite Ek. reflexivity.
    + unfold localEvs. rewrite Ek. reflexivity.
Qed.

(** * F. The serial pass keeps the record equations *)
Lemma MyInv_ext s0 st t : KA st -> nodes t = nodes st -> stabNum t = stabNum st -> handlers t = handlers st ->
  updEvents t = updEvents st -> obs t = obs st -> MyInv s0 st -> MyInv s0 t.
Proof.
  intros HBF Hn Hk Hh Hu Ho [Mk Mn [Hs Hm] Mu Mo].
  assert (Hnd : forall x, nd t x = nd st x) by (intros x; apply ParProofs.nd_ext, Hn).
  assert (Hd : forall x, isDone t x = isDone st x) by (intros x; unfold isDone; rewrite Hnd, Hk; reflexivity).
  constructor.
  - congruence.
  - intros n. rewrite Hnd, Hd, (Mn n). destruct (isDone st n) eqn:Ed; [|reflexivity].
    apply stepF_ext; [intros a _; symmetry; apply ParProofs.valueOf_ext, Hn|].
    rewrite <- (arity_skel _ _ (NI_skel s0 st n Mn)). apply (HBF n).
  - split; [rewrite Hh; exact Hs|]. intros x. rewrite Hh, Hm. split; intros (n & A & B & C); exists n.
    + rewrite Hd, Hnd. auto.
    + rewrite Hd, Hnd in *. auto.
  - congruence.
  - congruence.
Qed.

Lemma MyInv_set_heap s0 st w : KA st -> MyInv s0 st -> MyInv s0 (st <| heap := w |>).
Proof. intros HBF. apply MyInv_ext; auto. Qed.

Section Serial.
  Context (s0 : state) (h0 : list nid) (base : list event).
  Context (Hc0 : forall n, changedAt (nd s0 n) < stabNum s0).

  Lemma serial_step fuel st m st' e imm :
    Struct st -> LInv h0 base st (Some m) -> MyInv s0 st ->
    recomputeNodeSerial fuel [] st m = Ok (st', e, imm) ->
    e = None /\ Struct st' /\ LInv h0 base st' imm /\ MyInv s0 st' /\ sframe st st'.
  Proof.
    intros HS L M H. pose proof (li_bf _ _ _ _ L) as HBF. pose proof (proj1 (li_heap _ _ _ _ L)) as I.
    assert (Hwm : inW st (Some m) m = true) by (apply inW_iff; [exact I|right; reflexivity]).
    assert (Hg : inGraph (nd st m) = true) by (apply (li_orig _ _ _ _ L m); left; exact Hwm).
    destruct (rns_step fuel st m st' e imm HBF (has_inGraph _ _ Hg) I H) as [-> P].
    destruct (rns_char fuel st m st' None imm (has_inGraph _ _ Hg) (bf_kind st HBF m) H) as [_ [F1 F2 F3 F4 F5]].
    split; [reflexivity|]. split; [apply (sf_Struct _ _ (stepPost_sframe _ _ _ _ P) HS)|].
    split; [apply (step_LInv h0 base st m st' imm HS L P)|]. split; [|apply (stepPost_sframe _ _ _ _ P)].
    apply (MyInv_step s0 st st' m Hc0 HS (BF_KA st HBF) M); try assumption.
    - apply (li_B _ _ _ _ L m m Hwm). apply rtc_refl.
    - intros x Hx. split; [apply (li_orig _ _ _ _ L x); right; exact Hx|].
      intros Hr. pose proof (li_B _ _ _ _ L m x Hwm Hr). congruence.
  Qed.

  Lemma serial_chain fuel : forall st m st' e at_,
    Struct st -> LInv h0 base st (Some m) -> MyInv s0 st ->
    recomputeChain fuel [] st m = Ok (st', e, at_) ->
    e = None /\ Struct st' /\ LInv h0 base st' None /\ MyInv s0 st' /\ sframe st st'.
  Proof.
    induction fuel as [|fuel IH]; intros st m st' e at_ HS L M H; [discriminate|].
    cbn [recomputeChain] in H.
    destruct (recomputeNodeSerial fuel [] st m) as [[[s1 e1] imm]| |] eqn:E1; cbn [rbind] in H; try discriminate.
    destruct (serial_step fuel st m s1 e1 imm HS L M E1) as (-> & HS1 & L1 & M1 & F1).
    destruct imm as [c|].
    - destruct (IH s1 c st' e at_ HS1 L1 M1 H) as (A & B & C & D & F2).
      split; [exact A|]. split; [exact B|]. split; [exact C|]. split; [exact D|]. eapply sframe_trans; eassumption.
    - injection H as <- <- <-. auto.
  Qed.

  Lemma serial_loop fuel : forall st always st' e at_ always',
    Struct st -> LInv h0 base st None -> MyInv s0 st ->
    passLoop fuel [] st always = Ok (st', e, at_, always') ->
    e = None /\ Struct st' /\ LInv h0 base st' None /\ MyInv s0 st' /\ Heap.ids (heap st') = [] /\ sframe st st'.
  Proof.
    induction fuel as [|fuel IH]; intros st always st' e at_ always' HS L M H; [discriminate|].
    cbn [passLoop] in H. pose proof (proj1 (li_heap _ _ _ _ L)) as I.
    destruct (Z.leb_spec (Heap.cnt (heap st)) 0) as [Hc|Hc].
    { injection H as <- <- <- <-. split; [reflexivity|]. split; [exact HS|]. split; [exact L|]. split; [exact M|]. split; [apply cnt_zero_ids; assumption|apply sframe_refl]. }
    destruct (Heap.removeMin (heap st)) as [[n w]|] eqn:Erm; [|discriminate].
    set (s2 := st <| heap := w |>) in *.
    destruct (recomputeChain fuel [] s2 n) as [[[s3 e3] at3]| |] eqn:E3; cbn [rbind] in H; try discriminate.
    pose proof (pop_LInv h0 base st n w HS L Erm) as L2.
    assert (HS2 : Struct s2) by (apply (sf_Struct _ _ (sframe_set_heap st w) HS)).
    assert (M2 : MyInv s0 s2) by (apply MyInv_set_heap; [apply BF_KA, (li_bf _ _ _ _ L)|exact M]).
    destruct (serial_chain fuel s2 n s3 e3 at3 HS2 L2 M2 E3) as (-> & HS3 & L3 & M3 & F3).
    destruct (IH s3 _ st' e at_ always' HS3 L3 M3 H) as (A & B & C & D & E & F4).
    split; [exact A|]. split; [exact B|]. split; [exact C|]. split; [exact D|]. split; [exact E|].
    eapply sframe_trans; [apply (sframe_set_heap st w)|]. eapply sframe_trans; eassumption.
  Qed.
End Serial.

(** * G. The parallel pass keeps the record equations *)
Lemma mem_ids w c : HeapSpec.inv w -> (Heap.mem w c = true <-> c ∈ Heap.ids w).
Proof.
  intros I. split.
  - intros H. destruct (mem_true_inv w c I H) as (h & _ & _ & _ & Hb). apply elem_ids. eauto.
  - intros H. destruct (Heap.mem w c) eqn:E; [reflexivity|]. destruct (mem_false_inv w c I E) as [Hn _]. contradiction.
Qed.

Lemma addAll_ids hf l : forall w w', HeapSpec.inv w -> (forall c, c ∈ l -> 0 <= hf c) -> addAll hf l w = Ok w' ->
  forall q, q ∈ Heap.ids w' <-> q ∈ Heap.ids w \/ q ∈ l.
Proof.
  induction l as [|c l IH]; intros w w' I Hh H q.
  - injection H as <-. rewrite elem_of_nil. tauto.
  - rewrite addAll_cons in H. apply rbind_ok in H as (w1 & H1 & H2).
    assert (Hl : forall c0, c0 ∈ l -> 0 <= hf c0) by (intros; apply Hh; right; assumption).
    unfold Heap.addIfNotPresent in H1. destruct (Heap.mem w c) eqn:Em.
    + injection H1 as <-. rewrite (IH _ _ I Hl H2 q), elem_of_cons.
      apply (mem_ids w c I) in Em. split; [tauto|]. intros [?|[->|?]]; auto.
    + destruct (heap_add_spec w c (hf c) I Em (Hh c ltac:(left))) as (w1' & A1 & I1 & P1 & _).
      rewrite A1 in H1. injection H1 as <-. rewrite (IH _ _ I1 Hl H2 q), P1, !elem_of_cons. tauto.
Qed.

Lemma skel_localF st n y : skel (localF st n y) = skel y.
Proof. unfold localF. destruct (cutv st n); [|destruct (newval st n)]; reflexivity. Qed.

Lemma rnp_fields st n st' e : rnp_spec st n = Ok (st', e) ->
  e = None /\ stepFields st n st' /\ sframe st st' /\
  exists w, addAll (fun c => height (nd st c)) (pushlist st n) (heap st) = Ok w /\ heap st' = w.
Proof.
  intros H. pose proof (rnp_spec_inv _ _ _ _ H) as (-> & w & Hw & Es). split; [reflexivity|].
  split; [rewrite Es; constructor; reflexivity|]. split; [|exists w; rewrite Es; auto].
  constructor; try (rewrite Es; reflexivity).
  - intros x. destruct (rnp_spec_nd_cases st n st' None x H) as [->|[-> ->]]; [reflexivity|apply skel_localF].
  - intros x. apply (rnp_spec_has st n st' None x H).
Qed.

Lemma KA_sframe st st' : sframe st st' -> KA st -> KA st'.
Proof.
  intros F H n. destruct (H n) as (H1 & H2 & H3).
  rewrite (sf_nkind _ _ F), (sf_valid _ _ F), (arity_skel _ _ (sf_nd _ _ F n)). auto.
Qed.

(* every registered dependent of a node that changed is queued by its children scan *)
Lemma child_wanted s0 st n c :
  (forall x, recomputedAt (nd s0 x) < stabNum s0) ->
  Struct st -> KA st -> NI s0 st -> stabNum st = stabNum s0 ->
  c ∈ children (nd st n) -> c <> n -> isDone st c = false -> wantPush (afterLocal st n) c = true.
Proof.
  intros Hr0 HS HK N Hk Hc Hne Hd.
  assert (Hg : inGraph (nd st c) = true) by (apply (child_reg st HS n c Hc)).
  assert (Hpar : n ∈ parents (nd st c)) by (apply (st_edge _ HS), Hc).
  assert (Hdecl : n ∈ decl (nd st c)) by (apply (st_par _ HS c n Hg), Hpar).
  destruct (HK c) as (K1 & K2 & K3).
  assert (Hrec : recomputedAt (nd st c) < stabNum st).
  { rewrite (N c), Hd, Hk. apply Hr0. }
  unfold wantPush. rewrite nd_afterLocal_ne by exact Hne.
  rewrite <- (st_nec _ HS c), Hg, K3. cbn [negb]. change (stabNum (afterLocal st n)) with (stabNum st).
  unfold arity_ok in K2.
  destruct (nkind (nd st c)) eqn:Ek; try discriminate K1; cbn [hasStaler negb andb].
  - apply bool_decide_eq_true in K2. rewrite K2 in Hdecl. inv Hdecl.
  - apply bool_decide_eq_true in K2. rewrite K2 in Hdecl. inv Hdecl.
  - destruct (Z.ltb_spec (recomputedAt (nd st c)) (stabNum st)); [reflexivity|lia].
  - destruct (Z.ltb_spec (recomputedAt (nd st c)) (stabNum st)); [reflexivity|lia].
  - destruct (Z.ltb_spec (recomputedAt (nd st c)) (stabNum st)); [reflexivity|lia].
  - destruct (Z.ltb_spec (recomputedAt (nd st c)) (stabNum st)); [reflexivity|lia].
  - unfold isStale. rewrite nd_afterLocal_ne by exact Hne. rewrite K3, Ek. reflexivity.
Qed.

Section Par.
  Context (s0 : state) (h0 : list nid).
  Context (Hc0 : forall n, changedAt (nd s0 n) < stabNum s0) (Hr0 : forall n, recomputedAt (nd s0 n) < stabNum s0).
  Let k := stabNum s0.

  Definition origin_ok (st : state) (x : nid) : Prop :=
    x ∈ h0 \/ exists p, p ∈ parents (nd st x) /\ changedAt (nd st p) = k.

  (** inside a block [B] of height [h]; [l]: the nodes of the block still to run *)
  Record BInv (B : list nid) (h : Z) (st : state) (l : list nid) : Prop := {
    bi_ok : ok_state st B h;
    bi_pass : pass_ok st;
    bi_struct : Struct st;
    bi_ka : KA st;
    bi_my : MyInv s0 st;
    bi_lB : forall x, x ∈ l -> x ∈ B;
    bi_lnd : NoDup l;
    bi_l : forall x, x ∈ l -> isDone st x = false /\ inGraph (nd st x) = true /\ origin_ok st x;
    bi_heap : forall q, q ∈ Heap.ids (heap st) ->
                h < height (nd st q) /\ isDone st q = false /\ origin_ok st q /\ inGraph (nd st q) = true;
    bi_lt : forall x, inGraph (nd st x) = true -> (x < next st)%nat;
    bi_done : forall x, isDone st x = true -> inGraph (nd st x) = true /\ height (nd st x) <= h /\ origin_ok st x;
    bi_prog : forall x, x ∈ h0 -> isDone st x = true \/ x ∈ Heap.ids (heap st) \/ x ∈ l;
    bi_push : forall p c, isDone st p = true -> changedAt (nd st p) = k -> c ∈ children (nd st p) ->
                isDone st c = true \/ c ∈ Heap.ids (heap st) \/ c ∈ l
  }.

  Lemma notdone_changed st x : MyInv s0 st -> isDone st x = false -> changedAt (nd st x) < k.
  Proof. intros M Hd. rewrite (mi_ni _ _ M x), Hd. apply Hc0. Qed.

  Lemma BInv_step B h st n l st' :
    BInv B h st (n :: l) -> rnp_spec st n = Ok (st', None) ->
    BInv B h st' l /\ (forall x, isDone st' x = true <-> isDone st x = true \/ x = n).
  Proof.
    intros [Ok P HS HK M HlB Hlnd Hl Hheap Hlt0 Hdone Hprog Hpush] H.
    destruct (rnp_fields st n st' None H) as (_ & [F1 F2 F3 F4 F5] & F & (w & Hw & Ew)).
    assert (HnB : n ∈ B) by (apply HlB; left).
    destruct (Hl n ltac:(left)) as (Hdn & Hgn & Hon).
    destruct Ok as [Bo G].
    pose proof (bo_height _ _ _ Bo n HnB) as Hhn.
    assert (Hnl : n ∉ l) by (apply NoDup_cons_1_1, Hlnd).
    assert (HdoneR : forall x, isDone st x = true -> inGraph (nd st x) = true /\ ~ reach st n x).
    { intros x Hx. destruct (Hdone x Hx) as (Hg & Hle & _). split; [exact Hg|]. intros Hr.
      destruct (reach_height st HS n x Hr) as [->|Hlt]; [congruence|lia]. }
    destruct (MyInv_step s0 st st' n Hc0 HS HK M Hdn Hgn HdoneR F1 F4 F2 F3 F5) as [M' Hd'].
    assert (Hnd' : forall x, x <> n -> nd st' x = nd st x).
    { intros x Hx. rewrite (ParProofs.nd_ext st' (afterLocal st n) x F1). apply nd_afterLocal_ne, Hx. }
    assert (Hhas : ParProofs.has st n) by (apply has_inGraph, Hgn).
    assert (Hcn : changedAt (nd st' n) = if cutv st n then changedAt (nd st n) else k).
    { rewrite (ParProofs.nd_ext st' (afterLocal st n) n F1), nd_afterLocal_eq by exact Hhas.
      rewrite changedAt_localF_cases, (mi_k _ _ M). reflexivity. }
    assert (Hpar : forall x, parents (nd st' x) = parents (nd st x)) by apply (sf_parents _ _ F).
    assert (Hchi : forall x, children (nd st' x) = children (nd st x)) by apply (sf_children _ _ F).
    assert (Hhei : forall x, height (nd st' x) = height (nd st x)) by apply (sf_height _ _ F).
    assert (Hing : forall x, inGraph (nd st' x) = inGraph (nd st x)) by apply (sf_inGraph _ _ F).
    assert (Hhf : forall c, c ∈ pushlist st n -> 0 <= height (nd st c)).
    { intros c Hc. apply (pushlist_height st n c h G Hhn (bo_h _ _ _ Bo) Hc). }
    assert (Hids : forall q, q ∈ Heap.ids (heap st') <-> q ∈ Heap.ids (heap st) \/ q ∈ pushlist st n).
    { rewrite Ew. apply (addAll_ids _ _ _ _ (po_heap _ P) Hhf Hw). }
    (* origin facts survive: the only stamp that moves is n's *)
    assert (Horig : forall x, origin_ok st x -> origin_ok st' x).
    { intros x [Hx|(p & Hp & Hc)]; [left; exact Hx|]. right. exists p. rewrite Hpar. split; [exact Hp|].
      destruct (decide (p = n)) as [->|Hpn]; [|rewrite Hnd' by exact Hpn; exact Hc].
      pose proof (notdone_changed st n M Hdn). lia. }
    split; [|exact Hd'].
    constructor.
    - apply (rnp_spec_ok_state st B h n st' None (conj Bo G) HnB H).
    - apply (rnp_spec_pass_ok st B h n st' None P (conj Bo G) HnB H).
    - apply (sf_Struct _ _ F HS).
    - apply (KA_sframe _ _ F HK).
    - exact M'.
    - intros x Hx. apply HlB. right. exact Hx.
    - apply NoDup_cons_1_2 in Hlnd. exact Hlnd.
    - intros x Hx. destruct (Hl x ltac:(right; exact Hx)) as (A1 & A2 & A3).
      assert (Hxn : x <> n) by (intros ->; contradiction).
      split; [|split; [rewrite Hing; exact A2|apply Horig, A3]].
      destruct (isDone st' x) eqn:E; [|reflexivity]. apply Hd' in E as [E|E]; congruence.
    - intros q Hq. apply Hids in Hq as [Hq|Hq].
      + destruct (Hheap q Hq) as (A1 & A2 & A3 & A4). rewrite Hhei, Hing. split; [exact A1|]. split; [|split; [apply Horig, A3|exact A4]].
        destruct (isDone st' q) eqn:E; [|reflexivity]. apply Hd' in E as [E|E]; [congruence|]. subst q. lia.
      + pose proof (pushlist_children _ _ _ Hq) as Hc.
        pose proof (edge_height st HS n q Hc) as Hlt. rewrite Hhei, Hing. split; [lia|]. split; [|split].
        * destruct (isDone st' q) eqn:E; [|reflexivity]. apply Hd' in E as [E|E]; [|subst q; lia].
          destruct (Hdone q E) as (_ & Hle & _). lia.
        * right. exists n. rewrite Hpar. split; [apply (st_edge _ HS), Hc|].
          rewrite Hcn. unfold pushlist in Hq. destruct (cutv st n); [inv Hq|reflexivity].
        * apply (child_reg st HS n q Hc).
    - intros x. rewrite Hing, (sf_next _ _ F). apply Hlt0.
    - intros x Hx. destruct (proj1 (Hd' x) Hx) as [Hx'|Ex]; [|subst x].
      + destruct (Hdone x Hx') as (A1 & A2 & A3). rewrite Hing, Hhei. auto.
      + rewrite Hing, Hhei. split; [exact Hgn|]. split; [lia|apply Horig, Hon].
    - intros x Hx. destruct (Hprog x Hx) as [A|[A|A]].
      + left. apply Hd'. auto.
      + right. left. apply Hids. auto.
      + apply elem_of_cons in A as [->|A]; [left; apply Hd'; auto|auto].
    - intros p c Hp0 Hcp Hc. rewrite Hchi in Hc. destruct (proj1 (Hd' p) Hp0) as [Hp|Ep]; [|subst p].
      + assert (Hpn : p <> n) by (intros ->; congruence). rewrite Hnd' in Hcp by exact Hpn.
        destruct (Hpush p c Hp Hcp Hc) as [A|[A|A]].
        * left. apply Hd'. auto.
        * right. left. apply Hids. auto.
        * apply elem_of_cons in A as [->|A]; [left; apply Hd'; auto|auto].
      + rewrite Hcn in Hcp. destruct (cutv st n) eqn:Ecut; [pose proof (notdone_changed st n M Hdn); lia|].
        pose proof (edge_height st HS n c Hc) as Hlt.
        assert (Hcn' : c <> n) by (intros ->; lia).
        assert (Hdc : isDone st c = false).
        { destruct (isDone st c) eqn:E; [|reflexivity]. destruct (Hdone c E) as (_ & Hle & _). lia. }
        right. left. apply Hids. right. unfold pushlist. rewrite Ecut. apply elem_of_list_filter. split; [|exact Hc].
        apply (child_wanted s0 st n c Hr0 HS HK (mi_ni _ _ M) (mi_k _ _ M) Hc Hcn' Hdc).
  Qed.
End Par.

Lemma filter_length_lt (P Q : nid -> Prop) `{forall x, Decision (P x)} `{forall x, Decision (Q x)} (l : list nid) :
  (forall x, P x -> Q x) -> (exists x, x ∈ l /\ Q x /\ ~ P x) -> (length (filter P l) < length (filter Q l))%nat.
Proof.
  intros HPQ. induction l as [|a l IH]; intros (x & Hx & HQ & HnP); [inv Hx|].
  rewrite !filter_cons. apply elem_of_cons in Hx as [->|Hx].
  - rewrite (decide_False (P:=P a)) by exact HnP. rewrite (decide_True (P:=Q a)) by exact HQ. cbn.
    assert (length (filter P l) <= length (filter Q l))%nat; [|lia].
    clear -HPQ. induction l as [|b l IH]; [reflexivity|]. rewrite !filter_cons.
    destruct (decide (P b)) as [Hp|Hp]; [rewrite decide_True by auto; cbn; lia|].
    destruct (decide (Q b)); cbn; lia.
  - specialize (IH ltac:(eauto)). destruct (decide (P a)) as [Hp|Hp]; [rewrite decide_True by auto; cbn; lia|].
    destruct (decide (Q a)); cbn; lia.
Qed.

Section Par2.
  Context (s0 : state) (h0 : list nid).
  Context (Hc0 : forall n, changedAt (nd s0 n) < stabNum s0) (Hr0 : forall n, recomputedAt (nd s0 n) < stabNum s0).
  Let k := stabNum s0.
  Notation BInv := (BInv s0 h0).
  Notation origin_ok := (origin_ok s0 h0).

  Definition alwaysOf (st : state) (l : list nid) : list nid :=
    filter (fun x => isAlways (nkind (nd st x)) = true) l.

  Lemma BInv_run fuel B h l : forall st e al, BInv B h st l ->
    exists st' al', rfold (block_step fuel []) l (st, e, al) = Ok (st', e, al') /\ BInv B h st' [] /\
      al' = al ++ alwaysOf st l /\ (forall x, isDone st' x = true <-> isDone st x = true \/ x ∈ l) /\ sframe st st'.
  Proof.
    induction l as [|n l IH]; intros st e al HB.
    { exists st, al. split; [reflexivity|]. split; [exact HB|]. split; [unfold alwaysOf; rewrite filter_nil, app_nil_r; reflexivity|].
      split; [|apply sframe_refl]. intros x. rewrite elem_of_nil. tauto. }
    destruct (step_total fuel [] B h (quiet_nil B) st e al n (bi_ok _ _ _ _ _ _ HB) (bi_lB _ _ _ _ _ _ HB n ltac:(left)))
      as (s1 & E1 & R1 & _).
    destruct (BInv_step s0 h0 Hc0 Hr0 B h st n l s1 HB R1) as [HB1 Hd1].
    destruct (rnp_fields st n s1 None R1) as (_ & _ & F1 & _).
    destruct (IH s1 e (alw st n al) HB1) as (st' & al' & E & HB' & Hal & Hd & F).
    exists st', al'. cbn [rfold]. rewrite E1. cbn [rbind]. split; [exact E|]. split; [exact HB'|].
    split; [|split; [|eapply sframe_trans; eassumption]].
    - rewrite Hal. unfold alwaysOf, alw. rewrite filter_cons.
      assert (filter (fun x => isAlways (nkind (nd s1 x)) = true) l = filter (fun x => isAlways (nkind (nd st x)) = true) l) as ->.
      { apply list_filter_iff. intros x. rewrite (sf_nkind _ _ F1). reflexivity. }
      destruct (isAlways (nkind (nd st n))) eqn:Ek.
      + rewrite decide_True by reflexivity. rewrite <- app_assoc. reflexivity.
      + rewrite decide_False by discriminate. reflexivity.
    - intros x. rewrite Hd, Hd1, elem_of_cons. tauto.
  Qed.

  Record PInv (st : state) (lb : Z) : Prop := {
    pi_pass : pass_ok st;
    pi_struct : Struct st;
    pi_ka : KA st;
    pi_my : MyInv s0 st;
    pi_heap : forall q, q ∈ Heap.ids (heap st) ->
                lb <= height (nd st q) /\ isDone st q = false /\ origin_ok st q /\ inGraph (nd st q) = true;
    pi_lt : forall x, inGraph (nd st x) = true -> (x < next st)%nat;
    pi_done : forall x, isDone st x = true -> inGraph (nd st x) = true /\ height (nd st x) < lb /\ origin_ok st x;
    pi_prog : forall x, x ∈ h0 -> isDone st x = true \/ x ∈ Heap.ids (heap st);
    pi_push : forall p c, isDone st p = true -> changedAt (nd st p) = k -> c ∈ children (nd st p) ->
                isDone st c = true \/ c ∈ Heap.ids (heap st)
  }.

  Definition mu (st : state) (lb : Z) : nat :=
    length (filter (fun x => inGraph (nd st x) = true /\ lb <= height (nd st x)) (seq 0 (next st))).

  Lemma PInv_block st lb b w : PInv st lb -> b <> [] -> Heap.takeMinBlock (heap st) = (b, w) ->
    exists h, lb <= h /\ BInv b h (st <| heap := w |>) b /\
              (exists n, n ∈ b /\ inGraph (nd st n) = true /\ height (nd st n) = h).
  Proof.
    intros [P HS HK M Hheap Hlt Hdone Hprog Hpush] Hne Ht.
    destruct (block_of_pass st b w P Ht) as (Pw & h & Okw).
    destruct (heap_takeMinBlock_spec _ _ _ (po_heap _ P) Ht) as (Iw & Pm & Hmin & Hless & _ & Hhin).
    set (sw := st <| heap := w |>) in *.
    assert (Hsub : forall n, n ∈ b -> n ∈ Heap.ids (heap st)) by (intros n Hn; rewrite Pm; apply elem_of_app; auto).
    assert (Hsubw : forall n, n ∈ Heap.ids w -> n ∈ Heap.ids (heap st)) by (intros n Hn; rewrite Pm; apply elem_of_app; auto).
    destruct b as [|n0 b0] eqn:Eb; [congruence|]. rewrite <- Eb in *.
    assert (Hn0 : n0 ∈ b) by (rewrite Eb; left).
    pose proof (bo_height _ _ _ (proj1 Okw) n0 Hn0) as Hh0. change (nd sw n0) with (nd st n0) in Hh0.
    destruct (Hheap n0 (Hsub n0 Hn0)) as (A1 & A2 & A3 & A4).
    exists h. split; [lia|]. split; [|exists n0; auto].
    constructor; try assumption.
    - apply (sf_Struct _ _ (sframe_set_heap st w) HS).
    - apply MyInv_set_heap; assumption.
    - auto.
    - pose proof (inv_nodup _ (po_heap _ P)) as Hnd. rewrite Pm in Hnd. apply NoDup_app in Hnd as (Hnd & _). exact Hnd.
    - intros x Hx. destruct (Hheap x (Hsub x Hx)) as (B1 & B2 & B3 & B4). auto.
    - intros q Hq. change (heap sw) with w in Hq. destruct (Hheap q (Hsubw q Hq)) as (B1 & B2 & B3 & B4).
      split; [|auto]. change (nd sw q) with (nd st q).
      pose proof (Hless n0 q Hn0 Hq) as Hl.
      rewrite (proj2 (po_queued _ P n0 (Hsub n0 Hn0))), (proj2 (po_queued _ P q (Hsubw q Hq))) in Hl. lia.
    - intros x Hx. destruct (Hdone x Hx) as (B1 & B2 & B3). split; [exact B1|]. split; [|exact B3].
      change (nd sw x) with (nd st x). lia.
    - intros x Hx. destruct (Hprog x Hx) as [?|Hin]; [auto|]. right. rewrite Pm in Hin.
      apply elem_of_app in Hin as [?|?]; auto.
    - intros p c Hp Hcp Hc. destruct (Hpush p c Hp Hcp Hc) as [?|Hin]; [auto|]. right. rewrite Pm in Hin.
      apply elem_of_app in Hin as [?|?]; auto.
  Qed.

  Lemma BInv_end b h st : BInv b h st [] -> PInv st (h + 1).
  Proof.
    intros [Ok P HS HK M HlB Hlnd Hl Hheap Hlt0 Hdone Hprog Hpush]. constructor; try assumption.
    - intros q Hq. destruct (Hheap q Hq) as (A1 & A2 & A3 & A4). split; [lia|auto].
    - intros x Hx. destruct (Hdone x Hx) as (A1 & A2 & A3). split; [auto|]. split; [lia|auto].
    - intros x Hx. destruct (Hprog x Hx) as [?|[?|Hn]]; auto. inv Hn.
    - intros p c Hp Hcp Hc. destruct (Hpush p c Hp Hcp Hc) as [?|[?|Hn]]; auto. inv Hn.
  Qed.

  Definition AL (st : state) (al : list nid) : Prop :=
    forall x, x ∈ al <-> isDone st x = true /\ isAlways (nkind (nd st x)) = true.

  Lemma parLoop_inv fuel : forall st lb al, PInv st lb -> AL st al -> (mu st lb < fuel)%nat ->
    exists sL lbL al', parLoop fuel [] st al = Ok (sL, None, al') /\ PInv sL lbL /\ Heap.ids (heap sL) = [] /\ sframe st sL /\ AL sL al'.
  Proof.
    induction fuel as [|fuel IH]; intros st lb al PI HAL Hmu; [lia|].
    rewrite <- parLoopS_queue_order. cbn [parLoopS].
    pose proof (po_heap _ (pi_pass _ _ PI)) as I.
    destruct (Z.leb_spec (Heap.cnt (heap st)) 0) as [Hc|Hc].
    { exists st, lb, al. split; [reflexivity|]. split; [exact PI|]. split; [apply cnt_zero_ids; assumption|]. split; [apply sframe_refl|exact HAL]. }
    destruct (Heap.takeMinBlock (heap st)) as [b w] eqn:Et.
    assert (Hbne : b <> []).
    { destruct (heap_takeMinBlock_spec _ _ _ I Et) as (_ & _ & _ & _ & Hnil & _). intros E. apply Hnil in E.
      rewrite (inv_cnt _ I), E in Hc. cbn in Hc. lia. }
    destruct (PInv_block st lb b w PI Hbne Et) as (h & Hlb & HB & (n0 & Hn0 & Hg0 & Hh0)).
    set (sw := st <| heap := w |>) in *.
    destruct (parts_nolhs sw b (po_nolhs _ (bi_pass _ _ _ _ _ _ HB))) as [L1 L2]. rewrite L1, L2. cbn [app].
    unfold queue_order, run_block_acc.
    destruct (BInv_run fuel b h b sw None al HB) as (st' & al' & E & HB' & Hal' & Hd' & Fb).
    rewrite E. cbn [rbind]. rewrite parLoopS_queue_order.
    pose proof (BInv_end b h st' HB') as PI'.
    assert (F : sframe st st') by (eapply sframe_trans; [apply (sframe_set_heap st w)|exact Fb]).
    assert (HAL' : AL st' al').
    { intros x. rewrite Hal', elem_of_app, (HAL x), Hd', (sf_nkind _ _ F). unfold alwaysOf.
      rewrite elem_of_list_filter. change (nd sw x) with (nd st x). change (isDone sw x) with (isDone st x). tauto. }
    destruct (IH st' (h + 1) al' PI' HAL') as (sL & lbL & alL & EL & PL & HeL & FL & ALL).
    2: { exists sL, lbL, alL. split; [exact EL|]. split; [exact PL|]. split; [exact HeL|]. split; [eapply sframe_trans; eassumption|exact ALL]. }
    unfold mu in *. rewrite (sf_next _ _ F).
    eapply Nat.lt_le_trans; [|apply Nat.lt_succ_r, Hmu].
    apply filter_length_lt.
    - intros x [Hx1 Hx2]. rewrite (sf_inGraph _ _ F) in Hx1. rewrite (sf_height _ _ F) in Hx2. split; [exact Hx1|lia].
    - exists n0. split; [apply elem_of_seq; split; [lia|]; cbn; apply (pi_lt _ _ PI n0 Hg0)|].
      split; [split; [exact Hg0|lia]|]. intros [_ Hx2]. rewrite (sf_height _ _ F) in Hx2. lia.
  Qed.
End Par2.

(** * H. The record equations have at most one solution *)
Section Unique.
  Context (s0 : state) (h0 : list nid).
  Context (HS : Struct s0) (HK : KA s0).
  Let k := stabNum s0.

  Definition Owed (t : state) (x : nid) : Prop :=
    inGraph (nd s0 x) = true /\ (x ∈ h0 \/ exists p, p ∈ parents (nd s0 x) /\ changedAt (nd t p) = k).

  Record Fin (t : state) : Prop := {
    fin_k : stabNum t = k;
    fin_ni : NI s0 t;
    fin_done : forall x, isDone t x = true <-> Owed t x
  }.

  Lemma Fin_shape t : Fin t -> same_shape s0 t.
  Proof.
    intros F m. pose proof (NI_skel s0 t m (fin_ni _ F)) as E.
    split; [exact (f_equal nkind E)|exact (f_equal decl E)].
  Qed.

  Lemma final_unique t1 t2 : Fin t1 -> Fin t2 -> forall x, nd t1 x = nd t2 x.
  Proof.
    intros F1 F2.
    assert (Hind : forall n x, (Z.to_nat (height (nd s0 x) + 1) < n)%nat -> nd t1 x = nd t2 x).
    { induction n as [|n IH]; intros x Hx; [lia|].
      assert (Hlow : forall y, inGraph (nd s0 x) = true -> height (nd s0 y) < height (nd s0 x) -> nd t1 y = nd t2 y).
      { intros y Hg Hlt. apply IH. pose proof (st_hnonneg _ HS x Hg). lia. }
      assert (Hd : isDone t1 x = isDone t2 x).
      { apply eq_true_iff_eq. rewrite (fin_done _ F1 x), (fin_done _ F2 x). unfold Owed.
        split; intros [Hg [Hh|(p & Hp & Hc)]]; (split; [exact Hg|]); auto; right; exists p; (split; [exact Hp|]).
        - rewrite <- (Hlow p Hg (st_height _ HS x p Hg Hp)). exact Hc.
        - rewrite (Hlow p Hg (st_height _ HS x p Hg Hp)). exact Hc. }
      rewrite (fin_ni _ F1 x), (fin_ni _ F2 x), Hd. destruct (isDone t2 x) eqn:Ed; [|reflexivity].
      assert (Hg : inGraph (nd s0 x) = true) by (apply (fin_done _ F2 x), Ed).
      apply stepF_ext; [|apply (HK x)]. intros a Ha.
      rewrite (valueOf_vsrc t1 a), (valueOf_vsrc t2 a), (vsrc_shape s0 t1 a (Fin_shape t1 F1)), (vsrc_shape s0 t2 a (Fin_shape t2 F2)).
      destruct (vsrc s0 a) as [y|] eqn:Ev; [|reflexivity].
      rewrite (Hlow y Hg (vsrc_lower s0 HS x a y Hg Ha Ev)). reflexivity. }
    intros x. apply (Hind (S (Z.to_nat (height (nd s0 x) + 1))) x). lia.
  Qed.
End Unique.

(** * I. From the quiescent invariants to the hypotheses of the parallel pass *)
Lemma unreg_height s n : wfb s = true -> BF s -> inGraph (nd s n) = false -> height (nd s n) = unset.
Proof.
  intros Hwf HBF Hg. destruct (decide (has s n)) as [Hn|Hn]; [|rewrite not_has_nd by exact Hn; reflexivity].
  destruct (wfb_all _ Hwf) as (_ & Hu & _).
  pose proof (forallb_elem _ _ _ Hu (proj2 (bf_allNodes s HBF n) Hn)) as H. cbv beta zeta in H.
  rewrite Hg in H. cbn in H. rewrite !andb_true_iff in H. destruct H as [[_ H] _]. apply Z.eqb_eq in H. exact H.
Qed.

Lemma reads_decl s n a : KA s -> a ∈ reads s n -> a ∈ decl (nd s n).
Proof.
  intros HK Ha. destruct (HK n) as (K1 & K2 & _). unfold reads in Ha. unfold arity_ok in K2.
  destruct (nkind (nd s n)); try (inv Ha; fail); try discriminate K1.
  - apply bool_decide_eq_true in K2. destruct (decl (nd s n)) as [|x [|y l]]; try discriminate. exact Ha.
  - apply bool_decide_eq_true in K2. destruct (decl (nd s n)) as [|x [|y [|z l]]]; try discriminate. exact Ha.
  - exact Ha.
  - apply bool_decide_eq_true in K2. destruct (decl (nd s n)) as [|x [|y l]]; try discriminate. exact Ha.
Qed.

Lemma wfb_pass_ok s : wfb s = true -> ValInv s -> pass_ok s.
Proof.
  intros Hwf V. pose proof (vi_bf _ V) as HBF. pose proof (wfb_Struct s Hwf HBF) as HS.
  destruct (wfb_queued s Hwf) as [I Hq]. destruct (wfb_transients s Hwf) as (Hst & Hsd & Hsr & Hh).
  constructor.
  - constructor.
    + apply (cnt_nonneg _ I).
    + intros n c Hc. apply (st_edge _ HS), Hc.
    + intros c q Hp. destruct (inGraph (nd s c)) eqn:Eg; [apply (st_height _ HS c q Eg Hp)|].
      destruct (st_unreg _ HS c Eg) as [E _]. rewrite E in Hp. inv Hp.
    + intros x. pose proof (stamps_node_true _ _ (vi_stamps _ V x)). lia.
  - exact I.
  - intros n Hn. destruct (Hq n Hn) as [Hg Hh']. split; [apply (has_inGraph _ _ Hg)|exact Hh'].
  - intros n. pose proof (bf_kind s HBF n) as Hk. destruct (nkind (nd s n)); try reflexivity; discriminate.
  - intros n. destruct (inGraph (nd s n)) eqn:Eg; [pose proof (st_hnonneg _ HS n Eg); lia|].
    rewrite (unreg_height s n Hwf HBF Eg). unfold unset. lia.
  - intros n H0 a m Ha Hv.
    assert (Hg : inGraph (nd s n) = true).
    { destruct (inGraph (nd s n)) eqn:Eg; [reflexivity|]. rewrite (unreg_height s n Hwf HBF Eg) in H0. unfold unset in H0. lia. }
    apply (vsrc_lower s HS n a m Hg (reads_decl s n a (BF_KA s HBF) Ha) Hv).
  - intros v Hv. rewrite Hsd in Hv. inv Hv.
  - exact Hsr.
Qed.

Section Start.
  Context (s : state) (Hwf : wfb s = true) (V : ValInv s).
  Let s0 := passStart s.
  Let h0 := Heap.ids (heap s).

  Lemma start_c0 n : changedAt (nd s0 n) < stabNum s0.
  Proof. pose proof (stamps_node_true _ _ (vi_stamps _ V n)). change (changedAt (nd s n) < stabNum s). lia. Qed.
  Lemma start_r0 n : recomputedAt (nd s0 n) < stabNum s0.
  Proof. pose proof (stamps_node_true _ _ (vi_stamps _ V n)). change (recomputedAt (nd s n) < stabNum s). lia. Qed.

  Lemma start_notdone n : isDone s0 n = false.
  Proof. unfold isDone. apply Z.eqb_neq. pose proof (start_r0 n). lia. Qed.

  Lemma start_MyInv : MyInv s0 s0.
  Proof.
    destruct (wfb_transients s Hwf) as (_ & _ & _ & Hh).
    constructor; try reflexivity.
    - intros n. rewrite start_notdone. reflexivity.
    - unfold HI. change (handlers s0) with (handlers s). rewrite Hh. split; [constructor|].
      intros x. split; [intros Hx; inv Hx|]. intros (n & Hd & _). rewrite start_notdone in Hd. discriminate.
  Qed.

  Lemma start_Struct : Struct s0.
  Proof. pose proof (wfb_Struct s Hwf (vi_bf _ V)) as HS. destruct HS. constructor; assumption. Qed.

  Lemma start_BF : BF s0.
  Proof. exact (vi_bf _ V). Qed.

  Lemma start_pass_ok : pass_ok s0.
  Proof. apply (pass_ok_core s); try reflexivity. apply wfb_pass_ok; assumption. Qed.

  Lemma start_PInv : PInv s0 h0 s0 0.
  Proof.
    destruct (wfb_queued s Hwf) as [I Hq]. pose proof start_Struct as HS.
    constructor.
    - exact start_pass_ok.
    - exact HS.
    - apply BF_KA, start_BF.
    - exact start_MyInv.
    - intros q Hq'. change (heap s0) with (heap s) in Hq'. destruct (Hq q Hq') as [Hg _].
      split; [apply (st_hnonneg _ HS q Hg)|]. split; [apply start_notdone|]. split; [left; exact Hq'|exact Hg].
    - intros x Hg. apply (bf_has_lt s (vi_bf _ V)). apply has_inGraph. exact Hg.
    - intros x Hd. rewrite start_notdone in Hd. discriminate.
    - intros x Hx. right. exact Hx.
    - intros p c Hd. rewrite start_notdone in Hd. discriminate.
  Qed.

  Lemma start_mu : (mu s0 0 < passFuel s0)%nat.
  Proof.
    unfold mu, passFuel. eapply Nat.le_lt_trans; [apply filter_length|]. rewrite seq_length. lia.
  Qed.
End Start.

(** * J. Both loops end in a solution of the record equations *)
Section Ends.
  Context (s0 : state) (h0 : list nid).
  Context (Hc0 : forall n, changedAt (nd s0 n) < stabNum s0).
  Let k := stabNum s0.

  Lemma serial_Fin base sL :
    sframe s0 sL -> Struct sL -> LInv h0 base sL None -> MyInv s0 sL -> Heap.ids (heap sL) = [] ->
    Fin s0 h0 sL.
  Proof.
    intros F HS L M He. pose proof (li_bf _ _ _ _ L) as HBF. pose proof (proj1 (li_heap _ _ _ _ L)) as I.
    assert (HnW : forall x, inW sL None x = false).
    { intros x. apply inW_false_iff; [exact I|]. rewrite He. split; [apply not_elem_of_nil|discriminate]. }
    constructor; [apply (mi_k _ _ M)|apply (mi_ni _ _ M)|].
    intros x. unfold Owed. rewrite <- (sf_inGraph _ _ F), <- (sf_parents _ _ F). split.
    - intros Hd. destruct (li_orig _ _ _ _ L x (or_intror Hd)) as [Hg Ho]. split; [exact Hg|].
      unfold origin in Ho. apply orb_true_iff in Ho as [Ho|Ho]; [left; apply bool_decide_eq_true in Ho; exact Ho|].
      right. apply existsb_elem in Ho as (p & Hp & Hc). exists p. split; [exact Hp|].
      apply Z.eqb_eq in Hc. rewrite Hc. apply (mi_k _ _ M).
    - intros [Hg [Hh|(p & Hp & Hc)]].
      + destruct (li_prog _ _ _ _ L x Hh) as [Hw|Hd]; [rewrite HnW in Hw; discriminate|exact Hd].
      + destruct (isDone sL x) eqn:Ed; [reflexivity|exfalso].
        assert (Hs : isStale sL x = true).
        { pose proof (stamps_node_false _ _ (li_stamps _ _ _ _ L x)) as Hst.
          assert (Hrx : recomputedAt (nd sL x) < stabNum sL).
          { unfold isDone in Ed. apply Z.eqb_neq in Ed. lia. }
          assert (Hsw : staleWrtParents sL (nd sL x) = true).
          { unfold staleWrtParents. apply existsb_elem. exists p. split; [exact Hp|]. apply Z.gtb_lt.
            rewrite Hc. unfold k. rewrite <- (mi_k _ _ M). exact Hrx. }
          assert (Hdecl : p ∈ decl (nd sL x)) by (apply (st_par _ HS x p Hg), Hp).
          unfold isStale. rewrite (bf_valid sL HBF). cbn [andb].
          pose proof (bf_arity sL HBF x) as Ha. pose proof (bf_kind sL HBF x) as Hk. unfold arity_ok in Ha.
          destruct (nkind (nd sL x)); try discriminate Hk; try reflexivity; rewrite ?Hsw, ?orb_true_r; try reflexivity.
          - apply bool_decide_eq_true in Ha. rewrite Ha in Hdecl. inv Hdecl.
          - apply bool_decide_eq_true in Ha. rewrite Ha in Hdecl. inv Hdecl. }
        pose proof (li_owed _ _ _ _ L x Hg Ed Hs) as Hw. rewrite HnW in Hw. discriminate.
  Qed.

  Lemma parallel_Fin sL lbL :
    sframe s0 sL -> PInv s0 h0 sL lbL -> Heap.ids (heap sL) = [] -> Fin s0 h0 sL.
  Proof.
    intros F [P HS HK M Hheap Hlt Hdone Hprog Hpush] He.
    constructor; [apply (mi_k _ _ M)|apply (mi_ni _ _ M)|].
    intros x. unfold Owed. rewrite <- (sf_inGraph _ _ F), <- (sf_parents _ _ F). split.
    - intros Hd. destruct (Hdone x Hd) as (Hg & _ & Ho). split; [exact Hg|exact Ho].
    - intros [Hg [Hh|(p & Hp & Hc)]].
      + destruct (Hprog x Hh) as [?|Hin]; [assumption|]. rewrite He in Hin. inv Hin.
      + assert (Hdp : isDone sL p = true).
        { destruct (isDone sL p) eqn:Ed; [reflexivity|]. pose proof (notdone_changed s0 Hc0 sL p M Ed). unfold k in Hc. lia. }
        destruct (Hpush p x Hdp Hc (proj2 (st_edge _ HS p x) Hp)) as [?|Hin]; [assumption|]. rewrite He in Hin. inv Hin.
  Qed.
End Ends.

(** * K. The end of the pass *)
Definition finish (X : state) : state :=
  X <| log := endEvs X None ++ log X |> <| status := 0 |> <| stabNum := stabNum X + 1 |>
    <| handlers := [] |> <| setDuring := [] |> <| setRemoved := [] |>.

Lemma filter_id {A} (P : A -> Prop) `{forall x, Decision (P x)} (l : list A) :
  (forall x, x ∈ l -> P x) -> filter P l = l.
Proof.
  induction l as [|a l IH]; intros Hl; [reflexivity|]. rewrite filter_cons, decide_True by (apply Hl; left).
  f_equal. apply IH. intros; apply Hl; right; assumption.
Qed.

Lemma updEvents_finish X :
  updEvents (finish X) = rev (map (handlerEv X) (handlers X)) ++ updEvents X.
Proof.
  unfold updEvents, finish, endEvs. cbn. rewrite <- app_assoc, !list.filter_app. cbn. f_equal.
  apply filter_id. intros e He. apply elem_of_list_In, in_rev, elem_of_list_In, elem_of_list_fmap in He as (k & -> & _).
  unfold handlerEv. destruct (obs X !! k); reflexivity.
Qed.

Lemma stabilize_unfold s s1 : status s = 0 -> stabilize [] false s = Ok (s1, None) ->
  exists sL at_ always sR,
    passLoop (passFuel (passStart s)) [] (passStart s) [] = Ok (sL, None, at_, always) /\
    requeueAlways always sL = Ok sR /\ stabilizeEnd sR None = Ok s1.
Proof.
  intros Hst H. unfold stabilize in H. rewrite Hst in H. cbn [negb Z.eqb andb] in H.
  fold (passStart s) in H.
  destruct (passLoop (passFuel (passStart s)) [] (passStart s) []) as [[[[sL e] at_] always]| |] eqn:EL; cbn [rbind] in H; try discriminate.
  fold (requeueAlways always sL) in H.
  destruct (requeueAlways always sL) as [sR| |] eqn:ER; cbn [rbind] in H; try discriminate.
  destruct e as [e|].
  { exfalso. destruct (match e with EPanic _ => _ | _ => Ok sR end) as [s3| |]; cbn [rbind] in H; try discriminate.
    destruct (stabilizeEnd s3 (Some e)) as [s4| |]; cbn [rbind] in H; discriminate. }
  cbn [rbind] in H. destruct (stabilizeEnd sR None) as [s4| |] eqn:EE; cbn [rbind] in H; try discriminate.
  injection H as <-. exists sL, at_, always, sR. auto.
Qed.

Lemma handlers_unique s0 t1 t2 : HI s0 t1 -> HI s0 t2 -> (forall x, nd t1 x = nd t2 x) -> stabNum t1 = stabNum t2 ->
  handlers t1 = handlers t2.
Proof.
  intros [S1 M1] [S2 M2] Hnd Hk. apply sorted_lt_ext; [exact S1|exact S2|].
  intros x. rewrite M1, M2. unfold isDone. split; intros (n & A & B & C); exists n.
  - rewrite <- Hnd, <- Hk. auto.
  - rewrite Hnd, Hk. auto.
Qed.

Lemma nodes_unique t1 t2 : (forall x, has t1 x <-> has t2 x) -> (forall x, nd t1 x = nd t2 x) -> nodes t1 = nodes t2.
Proof.
  intros Hh Hnd. apply map_eq. intros x. specialize (Hh x). specialize (Hnd x). unfold has, nd in *.
  destruct (nodes t1 !! x) as [a|], (nodes t2 !! x) as [b|]; cbn in *; try congruence.
  - exfalso. destruct Hh as [Hh _]. destruct Hh as [? ?]; [eauto|discriminate].
  - exfalso. destruct Hh as [_ Hh]. destruct Hh as [? ?]; [eauto|discriminate].
Qed.

(** * L. What a pass (serial or parallel) leaves behind, and when two passes agree *)
Record PassRes (s sE : state) : Prop := {
  pr_ex : exists sL X,
    Fin (passStart s) (Heap.ids (heap s)) sL /\ MyInv (passStart s) sL /\ sframe (passStart s) sL /\
    only_heap sL X /\ sE = finish X /\ HeapSpec.inv (heap X) /\
    (forall x, x ∈ Heap.ids (heap X) <-> inGraph (nd sL x) = true /\ isAlways (nkind (nd sL x)) = true) /\
    (forall x, x ∈ Heap.ids (heap X) -> Heap.hinOf (heap X) x = height (nd sL x)) /\
    cursor_ok (heap X)
}.

Lemma addAll_cursor hf l : forall w w', HeapSpec.inv w -> (forall c, c ∈ l -> 0 <= hf c) -> cursor_ok w ->
  addAll hf l w = Ok w' -> cursor_ok w'.
Proof.
  induction l as [|c l IH]; intros w w' I Hh C H; [injection H as <-; exact C|].
  rewrite addAll_cons in H. apply rbind_ok in H as (w1 & H1 & H2).
  assert (Hl : forall c0, c0 ∈ l -> 0 <= hf c0) by (intros; apply Hh; right; assumption).
  unfold Heap.addIfNotPresent in H1. destruct (Heap.mem w c) eqn:Em.
  - injection H1 as <-. apply (IH _ _ I Hl C H2).
  - destruct (heap_add_spec w c (hf c) I Em (Hh c ltac:(left))) as (w1' & A1 & I1 & _).
    rewrite A1 in H1. injection H1 as <-. apply (IH _ _ I1 Hl (cursor_add _ _ _ _ I C A1) H2).
Qed.

Lemma serial_PassRes s s1 : wfb s = true -> ValInv s -> stabilize [] false s = Ok (s1, None) -> PassRes s s1.
Proof.
  intros Hwf V H. destruct (wfb_transients s Hwf) as (Hst & Hsd & Hsr & Hh).
  set (s0 := passStart s). set (h0 := Heap.ids (heap s)).
  pose proof (start_c0 s Hwf V) as Hc0. fold s0 in Hc0.
  destruct (stabilize_unfold s s1 Hst H) as (sL1 & at_ & al1 & sR1 & EL1 & ER1 & EE1). fold s0 in EL1.
  destruct (serial_loop s0 h0 (EvPassStart :: log s) Hc0 _ s0 [] sL1 None at_ al1 (start_Struct s Hwf V)
              (LInv_start s Hwf V) (start_MyInv s Hwf V) EL1) as (_ & HS1 & L1 & M1 & He1 & F1).
  pose proof (serial_Fin s0 h0 Hc0 _ sL1 F1 HS1 L1 M1 He1) as Fin1.
  pose proof (requeue_only_heap _ _ _ ER1) as OR1.
  assert (Hsd1 : setDuring sR1 = [] /\ setRemoved sR1 = []).
  { rewrite (oh_setDuring _ _ OR1), (oh_setRemoved _ _ OR1), (sf_setDuring _ _ F1), (sf_setRemoved _ _ F1). auto. }
  rewrite (stabilizeEnd_char sR1 None (proj1 Hsd1) (proj2 Hsd1)) in EE1. injection EE1 as Es1.
  fold (finish sR1) in Es1.
  destruct (pass_end s s1 Hwf V H) as (sL' & hev & E).
  destruct (pe_heap _ _ _ _ E) as (Ih & Hids & Hhin & Hcur).
  assert (Hnd : forall x, nd sL' x = nd sL1 x).
  { intros x. apply ParProofs.nd_ext. rewrite <- (pe_nodes _ _ _ _ E), <- Es1. cbn. apply (oh_nodes _ _ OR1). }
  assert (Hheap : heap s1 = heap sR1) by (rewrite <- Es1; reflexivity).
  constructor. exists sL1, sR1. split; [exact Fin1|]. split; [exact M1|]. split; [exact F1|]. split; [exact OR1|].
  split; [symmetry; exact Es1|]. rewrite <- Hheap. split; [exact Ih|]. split; [|split; [|exact Hcur]].
  - intros x. rewrite (Hids x), (Hnd x). reflexivity.
  - intros x Hx. rewrite (Hhin x Hx), (Hnd x). reflexivity.
Qed.

Lemma always_queued s x : ValInv s -> inGraph (nd s x) = true -> isAlways (nkind (nd s x)) = true -> inHeap s x = true.
Proof.
  intros V Hg Hk. apply (vi_owed _ V x Hg). unfold isStale. rewrite (bf_valid s (vi_bf _ V)).
  destruct (nkind (nd s x)); try discriminate Hk. reflexivity.
Qed.

Lemma parallel_PassRes s : wfb s = true -> ValInv s -> exists s2, parStabilize [] s = Ok (s2, None) /\ PassRes s s2.
Proof.
  intros Hwf V. destruct (wfb_transients s Hwf) as (Hst & Hsd & Hsr & Hh).
  set (s0 := passStart s). set (h0 := Heap.ids (heap s)).
  pose proof (start_c0 s Hwf V) as Hc0. pose proof (start_r0 s Hwf V) as Hr0. fold s0 in Hc0, Hr0.
  assert (HAL0 : AL s0 []).
  { intros x. rewrite elem_of_nil. pose proof (start_notdone s Hwf V x) as Hd. fold s0 in Hd. rewrite Hd. split; [tauto|intros [? _]; discriminate]. }
  destruct (parLoop_inv s0 h0 Hc0 Hr0 (passFuel s0) s0 0 [] (start_PInv s Hwf V) HAL0 (start_mu s Hwf))
    as (sL2 & lb2 & al2 & EL2 & P2 & He2 & F2 & AL2).
  pose proof (parallel_Fin s0 h0 Hc0 sL2 lb2 F2 P2 He2) as Fin2.
  pose proof (pi_struct _ _ _ _ P2) as HS2.
  assert (Hal_reg : forall x, x ∈ al2 -> inGraph (nd sL2 x) = true).
  { intros x Hx. apply AL2 in Hx as [Hd _]. apply (pi_done _ _ _ _ P2 x Hd). }
  assert (Hfil : filter (fun n => height (nd sL2 n) <> unset) al2 = al2).
  { apply filter_id. intros x Hx. pose proof (st_hnonneg _ HS2 x (Hal_reg x Hx)). unfold unset. lia. }
  assert (Hpos : forall c, c ∈ al2 -> 0 <= height (nd sL2 c)) by (intros c Hc; apply (st_hnonneg _ HS2 c (Hal_reg c Hc))).
  destruct (addAll_total (fun c => height (nd sL2 c)) al2 (heap sL2) Hpos) as [w2 Hw2].
  set (X2 := sL2 <| heap := w2 |>).
  assert (Hsd2 : setDuring X2 = [] /\ setRemoved X2 = []).
  { change (setDuring sL2 = [] /\ setRemoved sL2 = []). rewrite (sf_setDuring _ _ F2), (sf_setRemoved _ _ F2). auto. }
  exists (finish X2). split.
  { unfold parStabilize. rewrite Hst. cbn [negb Z.eqb]. fold (passStart s). fold s0. rewrite EL2. cbn [rbind].
    rewrite requeue_char, Hfil, Hw2. cbn [rbind]. fold X2.
    rewrite (stabilizeEnd_char X2 None (proj1 Hsd2) (proj2 Hsd2)). reflexivity. }
  pose proof (po_heap _ (pi_pass _ _ _ _ P2)) as I2.
  destruct (addAll_inv _ _ _ _ I2 Hpos Hw2) as (Iw & Hnew).
  constructor. exists sL2, X2. split; [exact Fin2|]. split; [exact (pi_my _ _ _ _ P2)|]. split; [exact F2|].
  assert (Hcur : cursor_ok w2).
  { apply (addAll_cursor _ _ _ _ I2 Hpos); [|exact Hw2]. intros Hp. rewrite (inv_cnt _ I2), He2 in Hp. cbn in Hp. lia. }
  split; [apply only_heap_set|]. split; [reflexivity|]. split; [exact Iw|]. split; [|split; [|exact Hcur]].
  - intros x. change (heap X2) with w2. rewrite (addAll_ids _ _ _ _ I2 Hpos Hw2 x), He2, elem_of_nil, (AL2 x). split.
    + intros [[]|[Hd Hk]]. split; [apply (pi_done _ _ _ _ P2 x Hd)|exact Hk].
    + intros [Hg Hk]. right. split; [|exact Hk].
      assert (Hin : x ∈ h0).
      { apply inHeap_iff0; [apply (wfb_queued s Hwf)|]. apply (always_queued s x V).
        - change (nd s x) with (nd s0 x). rewrite <- (sf_inGraph _ _ F2 x). exact Hg.
        - change (nd s x) with (nd s0 x). rewrite <- (sf_nkind _ _ F2 x). exact Hk. }
      destruct (pi_prog _ _ _ _ P2 x Hin) as [?|Hq]; [assumption|]. rewrite He2 in Hq. inversion Hq.
  - intros x Hx. change (heap X2) with w2 in *. destruct (Hnew x Hx) as [[Hx0 _]|[_ E]]; [rewrite He2 in Hx0; inversion Hx0|exact E].
Qed.

(** two passes (serial or parallel, in any combination) from states with the same node records,
    pass number, observers and queued SET end in states that agree on everything but the layout
    of the heap and the order of the log *)
Record ObsEq (e1 e2 : state) : Prop := {
  oe_nodes : nodes e1 = nodes e2;
  oe_binds : binds e1 = binds e2;
  oe_next : next e1 = next e2;
  oe_reg : reg e1 = reg e2;
  oe_obs : obs e1 = obs e2;
  oe_adj : adj e1 = adj e2;
  oe_invq : invq e1 = invq e2;
  oe_stabNum : stabNum e1 = stabNum e2;
  oe_status : status e1 = status e2;
  oe_numNodes : numNodes e1 = numNodes e2;
  oe_setDuring : setDuring e1 = setDuring e2;
  oe_setRemoved : setRemoved e1 = setRemoved e2;
  oe_handlers : handlers e1 = handlers e2;
  oe_maxHeight : maxHeight e1 = maxHeight e2;
  oe_upd : updEvents e1 = updEvents e2;
  oe_queued : forall x, x ∈ Heap.ids (heap e1) <-> x ∈ Heap.ids (heap e2)
}.

Lemma ObsEq_refl s : ObsEq s s.
Proof. constructor; reflexivity. Qed.

Lemma Fin_ext s0 s0' h0 h0' t : (forall x, nd s0' x = nd s0 x) -> stabNum s0' = stabNum s0 ->
  (forall x, x ∈ h0' <-> x ∈ h0) -> Fin s0 h0 t -> Fin s0' h0' t.
Proof.
  intros Hnd Hk Hh [F1 F2 F3]. constructor.
  - congruence.
  - intros n. rewrite (F2 n), Hk, Hnd. reflexivity.
  - intros x. rewrite (F3 x). unfold Owed. rewrite Hk, !Hnd. setoid_rewrite Hh. reflexivity.
Qed.

Lemma HI_ext s0 s0' t : (forall x, nd s0' x = nd s0 x) -> stabNum s0' = stabNum s0 -> HI s0 t -> HI s0' t.
Proof.
  intros Hnd Hk [H1 H2]. split; [exact H1|]. intros x. rewrite (H2 x), Hk. setoid_rewrite Hnd. reflexivity.
Qed.

Theorem PassRes_agree sA sB eA eB :
  wfb sA = true -> ValInv sA -> ObsEq sA sB -> PassRes sA eA -> PassRes sB eB -> ObsEq eA eB.
Proof.
  intros Hwf V Q [(LA & XA & FinA & MA & FA & OA & -> & IA & HidsA & HhinA & _)] [(LB & XB & FinB & MB & FB & OB & -> & IB & HidsB & HhinB & _)].
  set (s0 := passStart sA) in *. set (s0' := passStart sB) in *.
  assert (Hnd0 : forall x, nd s0 x = nd s0' x) by (intros x; apply ParProofs.nd_ext, (oe_nodes _ _ Q)).
  assert (Hk0 : stabNum s0 = stabNum s0') by apply (oe_stabNum _ _ Q).
  pose proof (Fin_ext s0' s0 _ (Heap.ids (heap sA)) LB Hnd0 Hk0 (oe_queued _ _ Q) FinB) as FinB'.
  pose proof (final_unique s0 _ (start_Struct sA Hwf V) (BF_KA _ (start_BF sA V)) LA LB FinA FinB') as Hnd.
  assert (Hk : stabNum LA = stabNum LB) by (rewrite (mi_k _ _ MA), (mi_k _ _ MB); exact Hk0).
  assert (Hn : nodes LA = nodes LB).
  { apply nodes_unique; [|exact Hnd]. intros x. rewrite (sf_has _ _ FA x), (sf_has _ _ FB x).
    unfold has. change (nodes s0) with (nodes sA). change (nodes s0') with (nodes sB). rewrite (oe_nodes _ _ Q). reflexivity. }
  assert (Hh : handlers LA = handlers LB).
  { apply (handlers_unique s0); [apply (mi_hi _ _ MA)|apply (HI_ext s0' s0 LB Hnd0 Hk0), (mi_hi _ _ MB)|exact Hnd|exact Hk]. }
  assert (Ho : obs LA = obs LB) by (rewrite (sf_obs _ _ FA), (sf_obs _ _ FB); apply (oe_obs _ _ Q)).
  assert (HnX : nodes XA = nodes XB) by (rewrite (oh_nodes _ _ OA), (oh_nodes _ _ OB); exact Hn).
  assert (HoX : obs XA = obs XB) by (rewrite (oh_obs _ _ OA), (oh_obs _ _ OB); exact Ho).
  constructor.
  - cbn; exact HnX.
  - cbn; rewrite (oh_binds _ _ OA), (oh_binds _ _ OB), (sf_binds _ _ FA), (sf_binds _ _ FB). apply (oe_binds _ _ Q).
  - cbn; rewrite (oh_next _ _ OA), (oh_next _ _ OB), (sf_next _ _ FA), (sf_next _ _ FB). apply (oe_next _ _ Q).
  - cbn; rewrite (oh_reg _ _ OA), (oh_reg _ _ OB), (sf_reg _ _ FA), (sf_reg _ _ FB). apply (oe_reg _ _ Q).
  - cbn; exact HoX.
  - cbn; rewrite (oh_adj _ _ OA), (oh_adj _ _ OB), (sf_adj _ _ FA), (sf_adj _ _ FB). apply (oe_adj _ _ Q).
  - cbn; rewrite (oh_invq _ _ OA), (oh_invq _ _ OB), (sf_invq _ _ FA), (sf_invq _ _ FB). apply (oe_invq _ _ Q).
  - cbn; rewrite (oh_stabNum _ _ OA), (oh_stabNum _ _ OB), Hk. reflexivity.
  - cbn; reflexivity.
  - cbn; rewrite (oh_numNodes _ _ OA), (oh_numNodes _ _ OB), (sf_numNodes _ _ FA), (sf_numNodes _ _ FB). apply (oe_numNodes _ _ Q).
  - cbn; reflexivity.
  - cbn; reflexivity.
  - cbn; reflexivity.
  - cbn; rewrite (oh_maxHeight _ _ OA), (oh_maxHeight _ _ OB), (sf_maxHeight _ _ FA), (sf_maxHeight _ _ FB). apply (oe_maxHeight _ _ Q).
  - rewrite !updEvents_finish. f_equal.
    + f_equal. rewrite (oh_handlers _ _ OA), (oh_handlers _ _ OB), Hh. apply map_ext. intros k.
      apply handlerEv_ext; [exact HnX|exact HoX].
    + unfold updEvents. rewrite (oh_log _ _ OA), (oh_log _ _ OB). fold (updEvents LA). fold (updEvents LB).
      rewrite (mi_ui _ _ MA), (mi_ui _ _ MB). unfold updEvents. cbn. apply (oe_upd _ _ Q).
  - intros x. change (heap (finish XA)) with (heap XA). change (heap (finish XB)) with (heap XB).
    rewrite (HidsA x), (HidsB x), (Hnd x). reflexivity.
Qed.

(** ** C04, first sentence, bind-free fragment, fault-free and write-free plan *)
Theorem serial_parallel_obs s s1 :
  wfb s = true -> ValInv s -> stabilize [] false s = Ok (s1, None) ->
  exists s2, parStabilize [] s = Ok (s2, None) /\ ObsEq s1 s2.
Proof.
  intros Hwf V H. destruct (parallel_PassRes s Hwf V) as (s2 & H2 & R2).
  exists s2. split; [exact H2|]. apply (PassRes_agree s s s1 s2 Hwf V (ObsEq_refl s) (serial_PassRes s s1 Hwf V H) R2).
Qed.

Theorem serial_parallel_agree s s1 :
  wfb s = true -> ValInv s -> stabilize [] false s = Ok (s1, None) ->
  exists s2, parStabilize [] s = Ok (s2, None) /\
    nodes s1 = nodes s2 /\ obs s1 = obs s2 /\ reg s1 = reg s2 /\ numNodes s1 = numNodes s2 /\
    binds s1 = binds s2 /\ next s1 = next s2 /\ stabNum s1 = stabNum s2 /\ status s1 = status s2 /\
    handlers s1 = handlers s2 /\ updEvents s1 = updEvents s2.
Proof.
  intros Hwf V H. destruct (serial_parallel_obs s s1 Hwf V H) as (s2 & H2 & Q). exists s2. split; [exact H2|].
  destruct Q. auto 12.
Qed.

(** ... and against every fair schedule of the parallel pass *)
Corollary serial_parallel_any_schedule sched s s1 :
  fair sched -> wfb s = true -> ValInv s -> stabilize [] false s = Ok (s1, None) ->
  exists s2, parStabilizeS sched [] s = Ok (s2, None) /\
    nodes s1 = nodes s2 /\ obs s1 = obs s2 /\ reg s1 = reg s2 /\ numNodes s1 = numNodes s2 /\
    binds s1 = binds s2 /\ next s1 = next s2 /\ stabNum s1 = stabNum s2 /\ status s1 = status s2 /\
    handlers s1 = handlers s2 /\ updEvents s1 ≡ₚ updEvents s2.
Proof.
  intros F Hwf V H.
  destruct (serial_parallel_agree s s1 Hwf V H) as (s2 & H2 & A1 & A2 & A3 & A4 & A5 & A6 & A7 & A8 & A9 & A10).
  destruct (parStabilize_any_schedule sched [] s s2 None F (plan_par_ok_quiet [] s (fun _ _ => eq_refl))
              (wfb_pass_ok s Hwf V) H2) as (s2' & H2' & S).
  exists s2'. split; [exact H2'|]. destruct S.
  repeat (split; [congruence|]). rewrite A10. unfold updEvents. rewrite sim_log. reflexivity.
Qed.

(** the parallel pass of the fragment always succeeds: no fuel or crash escape *)
Theorem parallel_pass_total s : wfb s = true -> ValInv s -> exists s2, parStabilize [] s = Ok (s2, None).
Proof. intros Hwf V. destruct (parallel_PassRes s Hwf V) as (s2 & H2 & _). eauto. Qed.
