(** Proofs about the pmap model: refinement of the sorted-list reference, preservation of
    the AVL invariant, the lookup family, the height bound, exactness of diff, soundness
    of the reducer. *)
From incr Require Import Base PMap PMapSpec.

Local Open Scope Z_scope.

(** * Lists sorted by key *)

Lemma Forall_mono {A} (P Q : A -> Prop) l :
  Forall P l -> (forall x, P x -> Q x) -> Forall Q l.
Proof. induction 1; constructor; auto. Qed.

Lemma sorted_app l1 k v l2 :
  sorted (l1 ++ (k, v) :: l2) <->
  sorted l1 /\ sorted l2 /\ Forall (fun p => fst p < k) l1 /\ Forall (fun p => k < fst p) l2.
Proof.
  induction l1 as [|[k1 v1] l1 IH]; simpl.
  - split; [intros [H1 H2]; repeat split; auto | intros (_ & H2 & _ & H4); auto].
  - rewrite Forall_app, Forall_cons_iff, IH, Forall_cons_iff. simpl. split.
    + intros ((Ha & Hk & Hb) & Hs1 & Hs2 & Hl & Hr). repeat split; auto.
    + intros ((Ha & Hs1) & Hs2 & (Hk & Hl) & Hr). repeat split; auto.
      eapply Forall_mono; [exact Hr|]. simpl. intros; lia.
Qed.

Lemma sorted_tail p l : sorted (p :: l) -> sorted l.
Proof. destruct p; simpl; tauto. Qed.

Lemma l_get_none_lt k l : Forall (fun p => fst p < k) l -> l_get k l = None.
Proof.
  induction 1 as [|[k' v'] l Hk _ IH]; simpl in *; auto.
  destruct (k' =? k) eqn:He; [lia|auto].
Qed.

Lemma l_get_none_gt k l : Forall (fun p => k < fst p) l -> l_get k l = None.
Proof.
  induction 1 as [|[k' v'] l Hk _ IH]; simpl in *; auto.
  destruct (k' =? k) eqn:He; [lia|auto].
Qed.

Lemma l_get_app k l1 l2 :
  l_get k (l1 ++ l2) = match l_get k l1 with Some v => Some v | None => l_get k l2 end.
Proof.
  induction l1 as [|[k' v'] l1 IH]; simpl; auto.
  destruct (k' =? k); auto.
Qed.

Lemma Forall_lt_trans (k k' : Z) (l : list (Z * Z)) :
  k <= k' -> Forall (fun p => fst p < k) l -> Forall (fun p => fst p < k') l.
Proof. intros Hk H. eapply Forall_mono; [exact H|]. simpl; intros; lia. Qed.

Lemma Forall_gt_trans (k k' : Z) (l : list (Z * Z)) :
  k' <= k -> Forall (fun p => k < fst p) l -> Forall (fun p => k' < fst p) l.
Proof. intros Hk H. eapply Forall_mono; [exact H|]. simpl; intros; lia. Qed.

(* insertion below / above a pivot *)
Lemma l_insert_app_lt k v l1 k' v' l2 :
  k < k' -> l_insert k v (l1 ++ (k', v') :: l2) = l_insert k v l1 ++ (k', v') :: l2.
Proof.
  intros Hk. induction l1 as [|[k1 v1] l1 IH]; simpl.
  - destruct (k <? k') eqn:H1; [reflexivity|lia].
  - destruct (k <? k1); [reflexivity|]. destruct (k1 <? k); [|reflexivity].
    rewrite IH. reflexivity.
Qed.

Lemma l_insert_app_gt k v l1 k' v' l2 :
  k' < k -> Forall (fun p => fst p < k') l1 ->
  l_insert k v (l1 ++ (k', v') :: l2) = l1 ++ (k', v') :: l_insert k v l2.
Proof.
  intros Hk H. induction H as [|[k1 v1] l1 H1 _ IH]; simpl in *.
  - destruct (k <? k') eqn:Ha; [lia|]. destruct (k' <? k) eqn:Hb; [reflexivity|lia].
  - destruct (k <? k1) eqn:Ha; [lia|]. destruct (k1 <? k) eqn:Hb; [|lia].
    rewrite IH. reflexivity.
Qed.

Lemma l_insert_app_eq k v l1 v' l2 :
  Forall (fun p => fst p < k) l1 ->
  l_insert k v (l1 ++ (k, v') :: l2) = l1 ++ (k, v) :: l2.
Proof.
  intros H. induction H as [|[k1 v1] l1 H1 _ IH]; simpl in *.
  - rewrite Z.ltb_irrefl. reflexivity.
  - destruct (k <? k1) eqn:Ha; [lia|]. destruct (k1 <? k) eqn:Hb; [|lia].
    rewrite IH. reflexivity.
Qed.

Lemma l_delete_app_lt k l1 k' v' l2 :
  k < k' -> Forall (fun p => k' < fst p) l2 ->
  l_delete k (l1 ++ (k', v') :: l2) = l_delete k l1 ++ (k', v') :: l2.
Proof.
  intros Hk H2. induction l1 as [|[k1 v1] l1 IH]; simpl.
  - destruct (k' =? k) eqn:He; [lia|]. f_equal.
    clear -Hk H2. induction H2 as [|[k2 v2] l2 Hx _ IH]; simpl in *; auto.
    destruct (k2 =? k) eqn:He; [lia|]. rewrite IH. reflexivity.
  - destruct (k1 =? k); [reflexivity|]. rewrite IH. reflexivity.
Qed.

Lemma l_delete_none_lt k l : Forall (fun p => fst p < k) l -> l_delete k l = l.
Proof.
  induction 1 as [|[k' v'] l Hk _ IH]; simpl in *; auto.
  destruct (k' =? k) eqn:He; [lia|]. rewrite IH; reflexivity.
Qed.

Lemma l_delete_none_gt k l : Forall (fun p => k < fst p) l -> l_delete k l = l.
Proof.
  induction 1 as [|[k' v'] l Hk _ IH]; simpl in *; auto.
  destruct (k' =? k) eqn:He; [lia|]. rewrite IH; reflexivity.
Qed.

Lemma l_delete_app_gt k l1 k' v' l2 :
  k' < k -> Forall (fun p => fst p < k') l1 ->
  l_delete k (l1 ++ (k', v') :: l2) = l1 ++ (k', v') :: l_delete k l2.
Proof.
  intros Hk H. induction H as [|[k1 v1] l1 H1 _ IH]; simpl in *.
  - destruct (k' =? k) eqn:He; [lia|reflexivity].
  - destruct (k1 =? k) eqn:He; [lia|]. rewrite IH. reflexivity.
Qed.

Lemma l_delete_app_eq k l1 v' l2 :
  Forall (fun p => fst p < k) l1 ->
  l_delete k (l1 ++ (k, v') :: l2) = l1 ++ l2.
Proof.
  intros H. induction H as [|[k1 v1] l1 H1 _ IH]; simpl in *.
  - rewrite Z.eqb_refl. reflexivity.
  - destruct (k1 =? k) eqn:He; [lia|]. rewrite IH. reflexivity.
Qed.

(** the reference operations do what their names say *)
Lemma l_insert_Forall (P : Z * Z -> Prop) k v l :
  P (k, v) -> Forall P l -> Forall P (l_insert k v l).
Proof.
  intros Hp H. induction H as [|[k' v'] l Hx Hl IH]; simpl.
  - constructor; auto.
  - destruct (k <? k'); [repeat constructor; auto|].
    destruct (k' <? k); constructor; auto.
Qed.

Lemma l_insert_sorted k v l : sorted l -> sorted (l_insert k v l).
Proof.
  induction l as [|[k' v'] l IH]; simpl.
  - intros _. split; [constructor|exact I].
  - intros [Hk Hs]. destruct (k <? k') eqn:Ha; simpl.
    + split; [|split; auto]. constructor; [simpl; lia|].
      eapply Forall_gt_trans; [|exact Hk]. lia.
    + destruct (k' <? k) eqn:Hb; simpl.
      * split; [|auto]. apply l_insert_Forall; [simpl; lia|exact Hk].
      * assert (k = k') by lia. subst. split; auto.
Qed.

Lemma l_get_insert k v l k' : sorted l ->
  l_get k' (l_insert k v l) = if k' =? k then Some v else l_get k' l.
Proof.
  induction l as [|[k1 v1] l IH]; simpl.
  - intros _. rewrite (Z.eqb_sym k k'). destruct (k' =? k); reflexivity.
  - intros [Hk Hs]. destruct (k <? k1) eqn:Ha; simpl.
    + rewrite (Z.eqb_sym k k'). destruct (k' =? k) eqn:He; reflexivity.
    + destruct (k1 <? k) eqn:Hb; simpl.
      * rewrite (IH Hs). destruct (k1 =? k') eqn:H1; [|reflexivity].
        destruct (k' =? k) eqn:H2; [lia|reflexivity].
      * assert (k = k1) by lia. subst k1. rewrite (Z.eqb_sym k k').
        destruct (k' =? k); reflexivity.
Qed.

Lemma l_delete_Forall (P : Z * Z -> Prop) k l : Forall P l -> Forall P (l_delete k l).
Proof.
  induction 1 as [|[k' v'] l Hx Hl IH]; simpl; [constructor|].
  destruct (k' =? k); [exact Hl|constructor; auto].
Qed.

Lemma l_delete_sorted k l : sorted l -> sorted (l_delete k l).
Proof.
  induction l as [|[k' v'] l IH]; simpl; auto.
  intros [Hk Hs]. destruct (k' =? k); [exact Hs|]. simpl. split; auto.
  apply l_delete_Forall; exact Hk.
Qed.

Lemma l_get_delete k l k' : sorted l ->
  l_get k' (l_delete k l) = if k' =? k then None else l_get k' l.
Proof.
  induction l as [|[k1 v1] l IH]; simpl.
  - intros _. destruct (k' =? k); reflexivity.
  - intros [Hk Hs]. destruct (k1 =? k) eqn:Ha; simpl.
    + assert (k1 = k) by lia. subst k1. destruct (k =? k') eqn:Hb.
      * rewrite (Z.eqb_sym k' k), Hb. apply l_get_none_gt.
        assert (k' = k) by lia. subst. exact Hk.
      * rewrite (Z.eqb_sym k' k), Hb. reflexivity.
    + rewrite (IH Hs). destruct (k1 =? k') eqn:Hb; [|reflexivity].
      destruct (k' =? k) eqn:Hc; [lia|reflexivity].
Qed.

(* a sorted list is determined by its lookups *)
Lemma sorted_ext l1 l2 :
  sorted l1 -> sorted l2 -> (forall k, l_get k l1 = l_get k l2) -> l1 = l2.
Proof.
  revert l2. induction l1 as [|[k1 v1] l1 IH]; intros [|[k2 v2] l2]; simpl; auto.
  - intros _ _ H. specialize (H k2). rewrite Z.eqb_refl in H. discriminate.
  - intros _ _ H. specialize (H k1). rewrite Z.eqb_refl in H. discriminate.
  - intros [Hk1 Hs1] [Hk2 Hs2] H.
    assert (k1 = k2) as ->.
    { pose proof (H k1) as Ha. pose proof (H k2) as Hb.
      rewrite Z.eqb_refl in Ha, Hb.
      destruct (k2 =? k1) eqn:E1; [lia|]. destruct (k1 =? k2) eqn:E2; [lia|].
      destruct (Z.lt_trichotomy k1 k2) as [Hlt|[Heq|Hgt]]; [|lia|].
      - rewrite (l_get_none_gt k1 l2) in Ha; [discriminate|].
        eapply Forall_gt_trans; [|exact Hk2]. lia.
      - rewrite (l_get_none_gt k2 l1) in Hb; [discriminate|].
        eapply Forall_gt_trans; [|exact Hk1]. lia. }
    assert (v1 = v2) as ->.
    { specialize (H k2). rewrite Z.eqb_refl in H. congruence. }
    f_equal. apply IH; auto. intros k. specialize (H k).
    destruct (k2 =? k) eqn:He; [|exact H].
    assert (k2 = k) by lia. subst k.
    rewrite (l_get_none_gt k2 l1), (l_get_none_gt k2 l2); auto.
Qed.

(** * Trees: cached fields, join *)

Lemma height_nonneg t : 0 <= height t.
Proof. induction t; simpl; lia. Qed.

Lemma size_nonneg t : 0 <= size t.
Proof. induction t; simpl; lia. Qed.

Lemma treeHeight_cached t : cached t -> treeHeight t = height t.
Proof. destruct t; simpl; [reflexivity|]. intros (_ & _ & -> & _). reflexivity. Qed.

Lemma treeSize_cached t : cached t -> treeSize t = size t.
Proof. destruct t; simpl; [reflexivity|]. intros (_ & _ & _ & ->). reflexivity. Qed.

Lemma size_length t : size t = Z.of_nat (length (elems t)).
Proof.
  induction t as [|l IHl k v r IHr h s]; simpl; [reflexivity|].
  rewrite app_length. simpl. lia.
Qed.

Lemma all_elems t : all t = elems t.
Proof. induction t as [|l IHl k v r IHr h s]; simpl; congruence. Qed.

Lemma join_elems k v l r : elems (join k v l r) = elems l ++ (k, v) :: elems r.
Proof. reflexivity. Qed.

Lemma join_height k v l r : height (join k v l r) = Z.max (height l) (height r) + 1.
Proof. reflexivity. Qed.

Lemma join_cached k v l r : cached l -> cached r -> cached (join k v l r).
Proof.
  intros Hl Hr. unfold join. simpl. repeat split; auto.
  - rewrite !(treeHeight_cached _ Hl), !(treeHeight_cached _ Hr).
    destruct (height r >? height l) eqn:Hc; lia.
  - rewrite (treeSize_cached _ Hl), (treeSize_cached _ Hr). reflexivity.
Qed.

Lemma join_avl k v l r :
  avl (join k v l r) <-> avl l /\ avl r /\ -1 <= height l - height r <= 1.
Proof. reflexivity. Qed.

Global Opaque join.

Lemma bst_sorted t : bst t <-> sorted (elems t).
Proof.
  induction t as [|l IHl k v r IHr h s]; simpl; [tauto|].
  rewrite sorted_app, IHl, IHr. tauto.
Qed.

(** * balance *)

(* balance is total on trees whose cached heights are right: the nil-dereference
   branches are unreachable.  No balance assumption: this covers what split feeds it. *)
Lemma balance_spec k v l r :
  cached l -> cached r ->
  exists t, balance k v l r = Ok t /\ elems t = elems l ++ (k, v) :: elems r /\ cached t.
Proof.
  intros Hl Hr. unfold balance.
  rewrite (treeHeight_cached _ Hl), (treeHeight_cached _ Hr).
  destruct (height l >? height r + 1) eqn:H1.
  - destruct l as [|ll lk lv lr lh ls].
    { simpl in H1. pose proof (height_nonneg r). lia. }
    destruct Hl as (Hll & Hlr & _ & _).
    rewrite (treeHeight_cached _ Hll), (treeHeight_cached _ Hlr).
    destruct (height ll >=? height lr) eqn:H2.
    + eexists; split; [reflexivity|]. split.
      * rewrite !join_elems. simpl. rewrite <- app_assoc. reflexivity.
      * auto using join_cached.
    + destruct lr as [|lrl lrk lrv lrr lrh lrs].
      { simpl in H2. pose proof (height_nonneg ll). lia. }
      destruct Hlr as (Hlrl & Hlrr & _ & _).
      eexists; split; [reflexivity|]. split.
      * rewrite !join_elems. simpl. rewrite <- !app_assoc. simpl.
        rewrite <- app_assoc. reflexivity.
      * auto using join_cached.
  - destruct (height r >? height l + 1) eqn:H3.
    + destruct r as [|rl rk rv rr rh rs].
      { simpl in H3. pose proof (height_nonneg l). lia. }
      destruct Hr as (Hrl & Hrr & _ & _).
      rewrite (treeHeight_cached _ Hrl), (treeHeight_cached _ Hrr).
      destruct (height rr >=? height rl) eqn:H2.
      * eexists; split; [reflexivity|]. split.
        -- rewrite !join_elems. simpl. rewrite <- app_assoc. reflexivity.
        -- auto using join_cached.
      * destruct rl as [|rll rlk rlv rlr rlh rls].
        { simpl in H2. pose proof (height_nonneg rr). lia. }
        destruct Hrl as (Hrll & Hrlr & _ & _).
        eexists; split; [reflexivity|]. split.
        -- rewrite !join_elems. simpl. rewrite <- !app_assoc. reflexivity.
        -- auto using join_cached.
    + eexists; split; [reflexivity|]. split; [apply join_elems|auto using join_cached].
Qed.

(* on AVL subtrees whose heights differ by at most two, the result is AVL and its height
   is the larger height or one more; when they differ by at most one it is one more *)
Lemma balance_avl k v l r t :
  cached l -> cached r -> avl l -> avl r ->
  -2 <= height l - height r <= 2 ->
  balance k v l r = Ok t ->
  avl t /\
  Z.max (height l) (height r) <= height t <= Z.max (height l) (height r) + 1 /\
  (-1 <= height l - height r <= 1 -> height t = Z.max (height l) (height r) + 1).
Proof.
  intros Hl Hr Al Ar Hd. unfold balance.
  rewrite (treeHeight_cached _ Hl), (treeHeight_cached _ Hr).
  destruct (height l >? height r + 1) eqn:H1.
  - destruct l as [|ll lk lv lr lh ls]; [discriminate|].
    destruct Hl as (Hll & Hlr & _ & _). destruct Al as (All & Alr & Hbl).
    rewrite (treeHeight_cached _ Hll), (treeHeight_cached _ Hlr).
    simpl in Hd, H1.
    destruct (height ll >=? height lr) eqn:H2.
    + intros [= <-]. rewrite !join_avl, !join_height. simpl. repeat split; auto; lia.
    + destruct lr as [|lrl lrk lrv lrr lrh lrs]; [discriminate|].
      destruct Hlr as (Hlrl & Hlrr & _ & _). destruct Alr as (Alrl & Alrr & Hblr).
      simpl in Hd, H1, H2, Hbl.
      intros [= <-]. rewrite !join_avl, !join_height. simpl. repeat split; auto; lia.
  - destruct (height r >? height l + 1) eqn:H3.
    + destruct r as [|rl rk rv rr rh rs]; [discriminate|].
      destruct Hr as (Hrl & Hrr & _ & _). destruct Ar as (Arl & Arr & Hbr).
      rewrite (treeHeight_cached _ Hrl), (treeHeight_cached _ Hrr).
      simpl in Hd, H3.
      destruct (height rr >=? height rl) eqn:H2.
      * intros [= <-]. rewrite !join_avl, !join_height. simpl. repeat split; auto; lia.
      * destruct rl as [|rll rlk rlv rlr rlh rls]; [discriminate|].
        destruct Hrl as (Hrll & Hrlr & _ & _). destruct Arl as (Arll & Arlr & Hbrl).
        simpl in Hd, H3, H2, Hbr.
        intros [= <-]. rewrite !join_avl, !join_height. simpl. repeat split; auto; lia.
    + intros [= <-]. rewrite join_avl, join_height. repeat split; auto; lia.
Qed.

Ltac fin :=
  repeat match goal with |- _ /\ _ => split end; auto using join_cached; try lia.

(** * insert *)

Lemma insert_spec k v t :
  cached t -> avl t -> sorted (elems t) ->
  exists t', insert t k v = Ok t' /\ elems t' = l_insert k v (elems t) /\
             cached t' /\ avl t' /\ height t <= height t' <= height t + 1.
Proof.
  induction t as [|l IHl k' v' r IHr h s]; intros Hc Ha Hs.
  - simpl. eexists; split; [reflexivity|].
    rewrite join_elems, join_avl, join_height. simpl.
    fin.
  - destruct Hc as (Hcl & Hcr & _ & _). destruct Ha as (Al & Ar & Hb).
    simpl in Hs. apply sorted_app in Hs. destruct Hs as (Sl & Sr & Fl & Fr).
    simpl insert. destruct (k <? k') eqn:H1.
    + destruct (IHl Hcl Al Sl) as (l' & -> & El & Cl' & Al' & Hh). simpl rbind.
      destruct (balance_spec k' v' l' r Cl' Hcr) as (t & Hbal & Et & Ct).
      exists t. split; [exact Hbal|].
      destruct (balance_avl _ _ _ _ _ Cl' Hcr Al' Ar ltac:(lia) Hbal) as (At & Hh1 & Hh2).
      simpl elems. simpl height. rewrite Et, El, l_insert_app_lt by lia.
      fin.
    + destruct (k' <? k) eqn:H2.
      * destruct (IHr Hcr Ar Sr) as (r' & -> & Er & Cr' & Ar' & Hh). simpl rbind.
        destruct (balance_spec k' v' l r' Hcl Cr') as (t & Hbal & Et & Ct).
        exists t. split; [exact Hbal|].
        destruct (balance_avl _ _ _ _ _ Hcl Cr' Al Ar' ltac:(lia) Hbal) as (At & Hh1 & Hh2).
        simpl elems. simpl height. rewrite Et, Er, l_insert_app_gt by (auto; lia).
        fin.
      * assert (k = k') by lia. subst k'.
        eexists; split; [reflexivity|].
        rewrite join_elems, join_avl, join_height. simpl.
        rewrite l_insert_app_eq by auto.
        fin.
Qed.

(** * removeMin, removeMax, glue, remove *)

Lemma tree_E_dec (t : tree) : {t = E} + {t <> E}.
Proof. destruct t; [left; reflexivity|right; discriminate]. Qed.

Lemma removeMin_T l k v r h s : l <> E ->
  removeMin (T l k v r h s) =
  ('(key, value, rest) <-! removeMin l; t <-! balance k v rest r; Ok (key, value, t)).
Proof. destruct l; [congruence|reflexivity]. Qed.

Lemma removeMax_T l k v r h s : r <> E ->
  removeMax (T l k v r h s) =
  ('(key, value, rest) <-! removeMax r; t <-! balance k v l rest; Ok (key, value, t)).
Proof. destruct r; [congruence|reflexivity]. Qed.

Lemma removeMin_spec t :
  t <> E -> cached t -> avl t ->
  exists k v rest, removeMin t = Ok (k, v, rest) /\ elems t = (k, v) :: elems rest /\
                   cached rest /\ avl rest /\ height t - 1 <= height rest <= height t.
Proof.
  induction t as [|l IHl k v r IHr h s]; intros Hne Hc Ha; [congruence|].
  destruct Hc as (Hcl & Hcr & _ & _). destruct Ha as (Al & Ar & Hb).
  destruct (tree_E_dec l) as [->|Hl].
  - exists k, v, r. simpl in *. pose proof (height_nonneg r). fin.
  - rewrite removeMin_T by exact Hl.
    destruct (IHl Hl Hcl Al) as (mk & mv & rest & -> & El & Crest & Arest & Hh). simpl rbind.
    destruct (balance_spec k v rest r Crest Hcr) as (t & Hbal & Et & Ct).
    destruct (balance_avl _ _ _ _ _ Crest Hcr Arest Ar ltac:(lia) Hbal) as (At & Hh1 & Hh2).
    rewrite Hbal. simpl rbind. exists mk, mv, t. simpl elems. simpl height.
    rewrite Et, El. fin.
Qed.

Lemma removeMax_spec t :
  t <> E -> cached t -> avl t ->
  exists k v rest, removeMax t = Ok (k, v, rest) /\ elems t = elems rest ++ [(k, v)] /\
                   cached rest /\ avl rest /\ height t - 1 <= height rest <= height t.
Proof.
  induction t as [|l IHl k v r IHr h s]; intros Hne Hc Ha; [congruence|].
  destruct Hc as (Hcl & Hcr & _ & _). destruct Ha as (Al & Ar & Hb).
  destruct (tree_E_dec r) as [->|Hr].
  - exists k, v, l. simpl in *. pose proof (height_nonneg l). fin.
  - rewrite removeMax_T by exact Hr.
    destruct (IHr Hr Hcr Ar) as (mk & mv & rest & -> & Er & Crest & Arest & Hh). simpl rbind.
    destruct (balance_spec k v l rest Hcl Crest) as (t & Hbal & Et & Ct).
    destruct (balance_avl _ _ _ _ _ Hcl Crest Al Arest ltac:(lia) Hbal) as (At & Hh1 & Hh2).
    rewrite Hbal. simpl rbind. exists mk, mv, t. simpl elems. simpl height.
    rewrite Et, Er. rewrite <- app_assoc. simpl. fin.
Qed.

Lemma glue_nonempty l r : l <> E -> r <> E ->
  glue l r =
  if treeHeight l >? treeHeight r then
    '(key, value, rest) <-! removeMax l; balance key value rest r
  else
    '(key, value, rest) <-! removeMin r; balance key value l rest.
Proof. destruct l; [congruence|]. destruct r; [congruence|]. reflexivity. Qed.

Lemma glue_spec l r :
  cached l -> cached r -> avl l -> avl r -> -1 <= height l - height r <= 1 ->
  exists t, glue l r = Ok t /\ elems t = elems l ++ elems r /\ cached t /\ avl t /\
            Z.max (height l) (height r) <= height t <= Z.max (height l) (height r) + 1.
Proof.
  intros Hcl Hcr Al Ar Hb.
  destruct (tree_E_dec l) as [->|Hl].
  { exists r. simpl. pose proof (height_nonneg r). fin. }
  destruct (tree_E_dec r) as [->|Hr].
  { exists l. rewrite app_nil_r. pose proof (height_nonneg l).
    destruct l; [congruence|]. simpl height in *; fin. }
  rewrite glue_nonempty by auto.
  rewrite (treeHeight_cached _ Hcl), (treeHeight_cached _ Hcr).
  destruct (height l >? height r) eqn:Hgt.
  - destruct (removeMax_spec l Hl Hcl Al) as (mk & mv & rest & -> & El & Crest & Arest & Hh).
    simpl rbind.
    destruct (balance_spec mk mv rest r Crest Hcr) as (t & Hbal & Et & Ct).
    destruct (balance_avl _ _ _ _ _ Crest Hcr Arest Ar ltac:(lia) Hbal) as (At & Hh1 & Hh2).
    exists t. rewrite Et, El, <- app_assoc. simpl. fin.
  - destruct (removeMin_spec r Hr Hcr Ar) as (mk & mv & rest & -> & Er & Crest & Arest & Hh).
    simpl rbind.
    destruct (balance_spec mk mv l rest Hcl Crest) as (t & Hbal & Et & Ct).
    destruct (balance_avl _ _ _ _ _ Hcl Crest Al Arest ltac:(lia) Hbal) as (At & Hh1 & Hh2).
    exists t. rewrite Et, Er. fin.
Qed.

Lemma remove_spec k t :
  cached t -> avl t -> sorted (elems t) ->
  exists t', remove t k = Ok t' /\ elems t' = l_delete k (elems t) /\
             cached t' /\ avl t' /\ height t - 1 <= height t' <= height t.
Proof.
  induction t as [|l IHl k' v' r IHr h s]; intros Hc Ha Hs.
  - exists E. simpl. fin.
  - destruct Hc as (Hcl & Hcr & _ & _). destruct Ha as (Al & Ar & Hb).
    simpl in Hs. apply sorted_app in Hs. destruct Hs as (Sl & Sr & Fl & Fr).
    simpl remove. destruct (k <? k') eqn:H1.
    + destruct (IHl Hcl Al Sl) as (l' & -> & El & Cl' & Al' & Hh). simpl rbind.
      destruct (balance_spec k' v' l' r Cl' Hcr) as (t & Hbal & Et & Ct).
      exists t. split; [exact Hbal|].
      destruct (balance_avl _ _ _ _ _ Cl' Hcr Al' Ar ltac:(lia) Hbal) as (At & Hh1 & Hh2).
      simpl elems. simpl height. rewrite Et, El, l_delete_app_lt by (auto; lia).
      fin.
    + destruct (k' <? k) eqn:H2.
      * destruct (IHr Hcr Ar Sr) as (r' & -> & Er & Cr' & Ar' & Hh). simpl rbind.
        destruct (balance_spec k' v' l r' Hcl Cr') as (t & Hbal & Et & Ct).
        exists t. split; [exact Hbal|].
        destruct (balance_avl _ _ _ _ _ Hcl Cr' Al Ar' ltac:(lia) Hbal) as (At & Hh1 & Hh2).
        simpl elems. simpl height. rewrite Et, Er, l_delete_app_gt by (auto; lia).
        fin.
      * assert (k = k') by lia. subst k'.
        destruct (glue_spec l r Hcl Hcr Al Ar Hb) as (t & Hg & Et & Ct & At & Hh).
        exists t. split; [exact Hg|]. simpl elems. simpl height.
        rewrite Et, l_delete_app_eq by auto. fin.
Qed.

(** the operations on [ok] maps *)

Lemma ok_sorted t : ok t -> sorted (elems t).
Proof. intros (Hb & _). apply bst_sorted. exact Hb. Qed.

Theorem ok_empty : ok E.
Proof. repeat split. Qed.

Theorem insert_ok t k v :
  ok t -> exists t', insert t k v = Ok t' /\ ok t' /\ elems t' = l_insert k v (elems t).
Proof.
  intros (Hb & Ha & Hc). apply bst_sorted in Hb.
  destruct (insert_spec k v t Hc Ha Hb) as (t' & Hi & El & Ct & At & _).
  exists t'. split; [exact Hi|]. split; [|exact El].
  split; [|split; auto]. apply bst_sorted. rewrite El. apply l_insert_sorted. exact Hb.
Qed.

Theorem remove_ok t k :
  ok t -> exists t', remove t k = Ok t' /\ ok t' /\ elems t' = l_delete k (elems t).
Proof.
  intros (Hb & Ha & Hc). apply bst_sorted in Hb.
  destruct (remove_spec k t Hc Ha Hb) as (t' & Hi & El & Ct & At & _).
  exists t'. split; [exact Hi|]. split; [|exact El].
  split; [|split; auto]. apply bst_sorted. rewrite El. apply l_delete_sorted. exact Hb.
Qed.

(** * The lookup family *)

Theorem all_spec t : all t = elems t.
Proof. apply all_elems. Qed.

Theorem get_spec t k : sorted (elems t) -> get t k = l_get k (elems t).
Proof.
  induction t as [|l IHl k' v' r IHr h s]; simpl; [reflexivity|].
  intros Hs. apply sorted_app in Hs. destruct Hs as (Sl & Sr & Fl & Fr).
  rewrite l_get_app. simpl.
  destruct (k <? k') eqn:H1.
  - rewrite IHl by auto. destruct (l_get k (elems l)); [reflexivity|].
    destruct (k' =? k) eqn:He; [lia|]. symmetry. apply l_get_none_gt.
    eapply Forall_gt_trans; [|exact Fr]. lia.
  - destruct (k' <? k) eqn:H2.
    + rewrite (l_get_none_lt k (elems l)) by (eapply Forall_lt_trans; [|exact Fl]; lia).
      destruct (k' =? k) eqn:He; [lia|]. auto.
    + assert (k = k') by lia; subst k'.
      rewrite (l_get_none_lt k (elems l)) by auto. rewrite Z.eqb_refl. reflexivity.
Qed.

Theorem has_spec t k : sorted (elems t) -> has t k = is_some (l_get k (elems t)).
Proof. intros Hs. unfold has. rewrite get_spec by auto. reflexivity. Qed.

Theorem len_spec t : cached t -> len t = Z.of_nat (length (elems t)).
Proof. intros Hc. unfold len. rewrite treeSize_cached by auto. apply size_length. Qed.

Lemma min_T l k v r h s : l <> E -> min (T l k v r h s) = min l.
Proof. destruct l; [congruence|reflexivity]. Qed.

Lemma max_T l k v r h s : r <> E -> max (T l k v r h s) = max r.
Proof. destruct r; [congruence|reflexivity]. Qed.

Lemma elems_nonempty t : t <> E -> elems t <> [].
Proof. destruct t; [congruence|]. intros _. simpl. destruct (elems t1); discriminate. Qed.

Lemma head_app_nonempty {A} (l1 l2 : list A) : l1 <> [] -> l_head (l1 ++ l2) = l_head l1.
Proof. destruct l1; [congruence|reflexivity]. Qed.

Lemma last_middle {A} (l1 : list A) x l2 :
  l_last (l1 ++ x :: l2) = match l_last l2 with Some y => Some y | None => Some x end.
Proof.
  induction l1 as [|a l1 IH]; simpl; [reflexivity|].
  rewrite IH. destruct (l_last l2); reflexivity.
Qed.

Lemma last_nonempty {A} (l : list A) : l <> [] -> l_last l <> None.
Proof. destruct l as [|a l]; [congruence|]. intros _. simpl. destruct (l_last l); discriminate. Qed.

Theorem min_spec t : min t = l_head (elems t).
Proof.
  induction t as [|l IHl k v r IHr h s]; [reflexivity|].
  destruct (tree_E_dec l) as [->|Hl]; [reflexivity|].
  rewrite min_T by auto. rewrite IHl. simpl. symmetry.
  apply head_app_nonempty, elems_nonempty, Hl.
Qed.

Theorem max_spec t : max t = l_last (elems t).
Proof.
  induction t as [|l IHl k v r IHr h s]; [reflexivity|].
  simpl elems. rewrite last_middle.
  destruct (tree_E_dec r) as [->|Hr]; [reflexivity|].
  rewrite max_T by auto. rewrite IHr.
  destruct (l_last (elems r)) eqn:Hl; [reflexivity|].
  exfalso. eapply last_nonempty; [|exact Hl]. apply elems_nonempty, Hr.
Qed.

Lemma nth_loop_spec t i :
  cached t -> 0 <= i -> nth_loop t i = elems t !! Z.to_nat i.
Proof.
  revert i. induction t as [|l IHl k v r IHr h s]; intros i Hc Hi; simpl; [reflexivity|].
  destruct Hc as (Hcl & Hcr & _ & _).
  rewrite (treeSize_cached _ Hcl), size_length.
  destruct (i <? Z.of_nat (length (elems l))) eqn:H1.
  - rewrite IHl by auto. symmetry. apply lookup_app_l. lia.
  - destruct (i =? Z.of_nat (length (elems l))) eqn:H2.
    + symmetry. apply list_lookup_middle. lia.
    + rewrite IHr by (auto; lia). symmetry.
      rewrite lookup_app_r by lia.
      replace (Z.to_nat i - length (elems l))%nat
        with (S (Z.to_nat (i - (Z.of_nat (length (elems l)) + 1)))) by lia.
      reflexivity.
Qed.

Theorem nth_spec t i :
  cached t -> nth t i = if i <? 0 then None else elems t !! Z.to_nat i.
Proof.
  intros Hc. unfold nth. destruct (i <? 0) eqn:Hi; [reflexivity|].
  apply nth_loop_spec; auto; lia.
Qed.

Lemma below_app k l1 l2 : below k (l1 ++ l2) = below k l1 ++ below k l2.
Proof.
  induction l1 as [|p l1 IH]; simpl; [reflexivity|].
  destruct (fst p <? k); simpl; rewrite IH; reflexivity.
Qed.

Lemma above_app k l1 l2 : above k (l1 ++ l2) = above k l1 ++ above k l2.
Proof.
  induction l1 as [|p l1 IH]; simpl; [reflexivity|].
  destruct (k <? fst p); simpl; rewrite IH; reflexivity.
Qed.

Lemma below_all k l : Forall (fun p => fst p < k) l -> below k l = l.
Proof.
  induction 1 as [|p l Hp _ IH]; simpl; [reflexivity|].
  destruct (fst p <? k) eqn:He; [|lia]. rewrite IH; reflexivity.
Qed.

Lemma below_none k l : Forall (fun p => k <= fst p) l -> below k l = [].
Proof.
  induction 1 as [|p l Hp _ IH]; simpl; [reflexivity|].
  destruct (fst p <? k) eqn:He; [lia|]. exact IH.
Qed.

Lemma above_all k l : Forall (fun p => k < fst p) l -> above k l = l.
Proof.
  induction 1 as [|p l Hp _ IH]; simpl; [reflexivity|].
  destruct (k <? fst p) eqn:He; [|lia]. rewrite IH; reflexivity.
Qed.

Lemma above_none k l : Forall (fun p => fst p <= k) l -> above k l = [].
Proof.
  induction 1 as [|p l Hp _ IH]; simpl; [reflexivity|].
  destruct (k <? fst p) eqn:He; [lia|]. exact IH.
Qed.

Lemma rank_loop_snd t k acc : snd (rank_loop t k acc) = is_some (get t k).
Proof.
  revert acc. induction t as [|l IHl k' v' r IHr h s]; intros acc; simpl; [reflexivity|].
  destruct (k <? k'); [apply IHl|]. destruct (k' <? k); [apply IHr|reflexivity].
Qed.

Lemma rank_loop_fst t k acc :
  cached t -> sorted (elems t) ->
  fst (rank_loop t k acc) = acc + Z.of_nat (length (below k (elems t))).
Proof.
  revert acc. induction t as [|l IHl k' v' r IHr h s]; intros acc Hc Hs; simpl; [lia|].
  destruct Hc as (Hcl & Hcr & _ & _).
  apply sorted_app in Hs. destruct Hs as (Sl & Sr & Fl & Fr).
  rewrite below_app. simpl. rewrite app_length.
  rewrite (treeSize_cached _ Hcl), size_length.
  destruct (k <? k') eqn:H1.
  - rewrite IHl by auto.
    destruct (k' <? k) eqn:H2; [lia|].
    rewrite (below_none k (elems r)); [simpl; lia|].
    eapply Forall_mono; [exact Fr|]. simpl; intros; lia.
  - destruct (k' <? k) eqn:H2.
    + rewrite IHr by auto.
      rewrite (below_all k (elems l)) by (eapply Forall_lt_trans; [|exact Fl]; lia).
      simpl. lia.
    + assert (k = k') by lia; subst k'. simpl.
      rewrite (below_all k (elems l)) by auto.
      rewrite (below_none k (elems r)); [simpl; lia|].
      eapply Forall_mono; [exact Fr|]. simpl; intros; lia.
Qed.

Theorem rank_spec t k :
  cached t -> sorted (elems t) ->
  rank t k = (Z.of_nat (length (below k (elems t))), is_some (l_get k (elems t))).
Proof.
  intros Hc Hs. unfold rank.
  rewrite (surjective_pairing (rank_loop t k 0)).
  rewrite rank_loop_fst, rank_loop_snd, get_spec by auto. reflexivity.
Qed.

Lemma between_app lo hi l1 l2 : between lo hi (l1 ++ l2) = between lo hi l1 ++ between lo hi l2.
Proof.
  induction l1 as [|p l1 IH]; simpl; [reflexivity|].
  destruct ((lo <=? fst p) && (fst p <=? hi)); simpl; rewrite IH; reflexivity.
Qed.

Lemma between_none_lt lo hi l : Forall (fun p => fst p < lo) l -> between lo hi l = [].
Proof.
  induction 1 as [|p l Hp _ IH]; simpl; [reflexivity|].
  destruct (lo <=? fst p) eqn:He; [lia|]. exact IH.
Qed.

Lemma between_none_gt lo hi l : Forall (fun p => hi < fst p) l -> between lo hi l = [].
Proof.
  induction 1 as [|p l Hp _ IH]; simpl; [reflexivity|].
  destruct (fst p <=? hi) eqn:He; [lia|]. rewrite andb_false_r. exact IH.
Qed.

Theorem range_spec t lo hi : sorted (elems t) -> range t lo hi = between lo hi (elems t).
Proof.
  induction t as [|l IHl k v r IHr h s]; simpl; [reflexivity|].
  intros Hs. apply sorted_app in Hs. destruct Hs as (Sl & Sr & Fl & Fr).
  rewrite between_app. simpl.
  assert ((if lo <? k then range l lo hi else []) = between lo hi (elems l)) as ->.
  { destruct (lo <? k) eqn:H1; [auto|].
    symmetry. apply between_none_lt. eapply Forall_lt_trans; [|exact Fl]. lia. }
  assert ((if k <? hi then range r lo hi else []) = between lo hi (elems r)) as ->.
  { destruct (k <? hi) eqn:H1; [auto|].
    symmetry. apply between_none_gt. eapply Forall_gt_trans; [|exact Fr]. lia. }
  f_equal.
  destruct (k <? lo) eqn:H1, (hi <? k) eqn:H2, (lo <=? k) eqn:H3, (k <=? hi) eqn:H4;
    simpl; try reflexivity; lia.
Qed.

(** * Logarithmic height *)

Lemma pow_half_step a b :
  0 <= a -> 0 <= b -> -1 <= a - b <= 1 ->
  2 ^ ((Z.max a b + 1) / 2) <= 2 ^ (a / 2) + 2 ^ (b / 2).
Proof.
  intros Ha Hb Hd.
  assert (0 <= a / 2) as Ha2 by (apply Z.div_pos; lia).
  assert (0 <= b / 2) as Hb2 by (apply Z.div_pos; lia).
  assert (0 < 2 ^ (a / 2)) as Pa by (apply Z.pow_pos_nonneg; lia).
  assert (0 < 2 ^ (b / 2)) as Pb by (apply Z.pow_pos_nonneg; lia).
  assert ((Z.max a b + 1) / 2 <= a / 2 \/ (Z.max a b + 1) / 2 <= b / 2 \/
          ((Z.max a b + 1) / 2 = a / 2 + 1 /\ a / 2 = b / 2)) as Hcase.
  { Z.div_mod_to_equations. lia. }
  assert (0 <= (Z.max a b + 1) / 2) as He by (apply Z.div_pos; lia).
  destruct Hcase as [H|[H|[H1 H2]]].
  - pose proof (Z.pow_le_mono_r 2 _ _ ltac:(lia) H). lia.
  - pose proof (Z.pow_le_mono_r 2 _ _ ltac:(lia) H). lia.
  - rewrite H1, Z.pow_add_r, Z.pow_1_r, <- H2 by lia. lia.
Qed.

Theorem avl_height_bound t : avl t -> 2 ^ (height t / 2) <= size t + 1.
Proof.
  induction t as [|l IHl k v r IHr h s]; simpl.
  - intros _. reflexivity.
  - intros (Al & Ar & Hb). specialize (IHl Al). specialize (IHr Ar).
    pose proof (pow_half_step (height l) (height r) (height_nonneg l) (height_nonneg r) Hb).
    lia.
Qed.

Corollary avl_height_log t : avl t -> height t <= 2 * Z.log2 (size t + 1) + 1.
Proof.
  intros Ha. pose proof (avl_height_bound t Ha) as Hb.
  pose proof (size_nonneg t). pose proof (height_nonneg t).
  assert (height t / 2 <= Z.log2 (size t + 1)) as Hl.
  { apply Z.log2_le_pow2; [lia|exact Hb]. }
  Z.div_mod_to_equations. lia.
Qed.

(* a lookup descends at most [height t] levels: the number of nodes [get] visits *)
Fixpoint get_steps (n : tree) (key : Z) : Z :=
  match n with
  | E => 0
  | T l k _ r _ _ =>
    if key <? k then 1 + get_steps l key
    else if k <? key then 1 + get_steps r key
    else 1
  end.

Lemma get_steps_height t k : get_steps t k <= height t.
Proof.
  induction t as [|l IHl k' v' r IHr h s]; simpl; [lia|].
  destruct (k <? k'); [lia|]. destruct (k' <? k); [lia|].
  pose proof (height_nonneg l). lia.
Qed.

Theorem lookup_logarithmic t k :
  ok t -> get_steps t k <= 2 * Z.log2 (Z.of_nat (length (elems t)) + 1) + 1.
Proof.
  intros (_ & Ha & _). rewrite <- size_length.
  pose proof (get_steps_height t k). pose proof (avl_height_log t Ha). lia.
Qed.

(** * split and diff *)

Lemma Forall_below (P : Z * Z -> Prop) k l : Forall P l -> Forall P (below k l).
Proof.
  induction 1 as [|p l Hp _ IH]; simpl; [constructor|].
  destruct (fst p <? k); [constructor|]; auto.
Qed.

Lemma Forall_above (P : Z * Z -> Prop) k l : Forall P l -> Forall P (above k l).
Proof.
  induction 1 as [|p l Hp _ IH]; simpl; [constructor|].
  destruct (k <? fst p); [constructor|]; auto.
Qed.

Lemma below_sorted k l : sorted l -> sorted (below k l).
Proof.
  induction l as [|[k' v'] l IH]; simpl; [auto|]. intros [Hk Hs].
  destruct (k' <? k); [|auto]. simpl. split; [apply Forall_below; exact Hk|auto].
Qed.

Lemma above_sorted k l : sorted l -> sorted (above k l).
Proof.
  induction l as [|[k' v'] l IH]; simpl; [auto|]. intros [Hk Hs].
  destruct (k <? k'); [|auto]. simpl. split; [apply Forall_above; exact Hk|auto].
Qed.

Lemma below_lt k l : Forall (fun p => fst p < k) (below k l).
Proof.
  induction l as [|p l IH]; simpl; [constructor|].
  destruct (fst p <? k) eqn:He; [constructor; [lia|exact IH]|exact IH].
Qed.

Lemma above_gt k l : Forall (fun p => k < fst p) (above k l).
Proof.
  induction l as [|p l IH]; simpl; [constructor|].
  destruct (k <? fst p) eqn:He; [constructor; [lia|exact IH]|exact IH].
Qed.

Lemma split_spec t k :
  cached t -> sorted (elems t) ->
  exists l ov r, split t k = Ok (l, ov, r) /\
    elems l = below k (elems t) /\ elems r = above k (elems t) /\
    ov = l_get k (elems t) /\ cached l /\ cached r.
Proof.
  induction t as [|tl IHl k' v' tr IHr h s]; intros Hc Hs.
  - exists E, None, E. simpl. repeat split; auto.
  - destruct Hc as (Hcl & Hcr & _ & _).
    simpl in Hs. apply sorted_app in Hs. destruct Hs as (Sl & Sr & Fl & Fr).
    simpl split. simpl elems. rewrite below_app, above_app, l_get_app. simpl.
    destruct (k <? k') eqn:H1.
    + destruct (IHl Hcl Sl) as (sl & sv & sr & -> & El & Er & Ev & Csl & Csr). simpl rbind.
      destruct (balance_spec k' v' sr tr Csr Hcr) as (t & -> & Et & Ct). simpl rbind.
      exists sl, sv, t. split; [reflexivity|].
      destruct (k' <? k) eqn:H2; [lia|]. destruct (k' =? k) eqn:H3; [lia|].
      rewrite (below_none k (elems tr)) by (eapply Forall_mono; [exact Fr|]; simpl; intros; lia).
      rewrite (above_all k (elems tr)) by (eapply Forall_gt_trans; [|exact Fr]; lia).
      rewrite (l_get_none_gt k (elems tr)) by (eapply Forall_gt_trans; [|exact Fr]; lia).
      rewrite app_nil_r, Et, Er, El, Ev.
      repeat split; auto. destruct (l_get k (elems tl)); reflexivity.
    + destruct (k' <? k) eqn:H2.
      * destruct (IHr Hcr Sr) as (sl & sv & sr & -> & El & Er & Ev & Csl & Csr). simpl rbind.
        destruct (balance_spec k' v' tl sl Hcl Csl) as (t & -> & Et & Ct). simpl rbind.
        exists t, sv, sr. split; [reflexivity|].
        destruct (k' =? k) eqn:H3; [lia|].
        rewrite (below_all k (elems tl)) by (eapply Forall_lt_trans; [|exact Fl]; lia).
        rewrite (above_none k (elems tl)) by (eapply Forall_mono; [exact Fl|]; simpl; intros; lia).
        rewrite (l_get_none_lt k (elems tl)) by (eapply Forall_lt_trans; [|exact Fl]; lia).
        rewrite Et, Er, El, Ev. repeat split; auto.
      * assert (k = k') by lia. subst k'. rewrite Z.eqb_refl.
        exists tl, (Some v'), tr. split; [reflexivity|].
        rewrite (below_all k (elems tl)) by auto.
        rewrite (above_none k (elems tl)) by (eapply Forall_mono; [exact Fl|]; simpl; intros; lia).
        rewrite (l_get_none_lt k (elems tl)) by auto.
        rewrite (below_none k (elems tr)) by (eapply Forall_mono; [exact Fr|]; simpl; intros; lia).
        rewrite (above_all k (elems tr)) by auto.
        rewrite app_nil_r. repeat split; auto.
Qed.

(* filters commute as needed when a second pivot lies above the first *)
Lemma below_below k1 k l : k1 <= k -> below k1 (below k l) = below k1 l.
Proof.
  intros Hk. induction l as [|p l IH]; simpl; [reflexivity|].
  destruct (fst p <? k) eqn:H1; simpl; destruct (fst p <? k1) eqn:H2; try lia; rewrite IH; reflexivity.
Qed.

Lemma above_above k1 k l : k1 <= k -> above k (above k1 l) = above k l.
Proof.
  intros Hk. induction l as [|p l IH]; simpl; [reflexivity|].
  destruct (k1 <? fst p) eqn:H1; simpl; destruct (k <? fst p) eqn:H2; try lia; rewrite IH; reflexivity.
Qed.

Lemma above_below k1 k l : above k1 (below k l) = below k (above k1 l).
Proof.
  induction l as [|p l IH]; simpl; [reflexivity|].
  destruct (fst p <? k) eqn:H1; simpl; destruct (k1 <? fst p) eqn:H2; simpl;
    try rewrite H1; rewrite IH; reflexivity.
Qed.

Lemma l_get_below k1 k l : k1 < k -> l_get k1 (below k l) = l_get k1 l.
Proof.
  intros Hk. induction l as [|[k' v'] l IH]; simpl; [reflexivity|].
  destruct (k' <? k) eqn:H1; simpl.
  - rewrite IH. reflexivity.
  - destruct (k' =? k1) eqn:H2; [lia|]. exact IH.
Qed.

Lemma l_get_above k1 k l : k1 < k -> l_get k (above k1 l) = l_get k l.
Proof.
  intros Hk. induction l as [|[k' v'] l IH]; simpl; [reflexivity|].
  destruct (k1 <? k') eqn:H1; simpl.
  - rewrite IH. reflexivity.
  - destruct (k' =? k) eqn:H2; [lia|]. exact IH.
Qed.

Section DiffProofs.
  Variable same : tree -> tree -> bool.
  Hypothesis same_sound : forall a b, same a b = true -> a = b.
  Variable equal : option (Z -> Z -> bool).
  Hypothesis equal_refl : eq_reflexive equal.

  Lemma merge_diff_same l : sorted l -> merge_diff equal l l = [].
  Proof.
    induction l as [|[k v] l IH]; simpl; [reflexivity|]. intros [Hk Hs].
    rewrite Z.ltb_irrefl, Z.eqb_refl.
    rewrite (below_none k l) by (eapply Forall_mono; [exact Hk|]; simpl; intros; lia).
    rewrite (above_all k l) by exact Hk.
    rewrite (IH Hs). simpl. rewrite app_nil_r.
    unfold eq_reflexive in equal_refl. destruct equal as [eqf|]; [|reflexivity].
    rewrite equal_refl. reflexivity.
  Qed.

  Lemma merge_diff_nil_r la : merge_diff equal la [] = removed la.
  Proof. induction la as [|[k v] la IH]; simpl; [reflexivity|]. rewrite IH. reflexivity. Qed.

  Lemma merge_diff_app L k v R B :
    Forall (fun p => fst p < k) L ->
    merge_diff equal (L ++ (k, v) :: R) B =
    merge_diff equal L (below k B) ++ verdict equal k v (l_get k B) ++ merge_diff equal R (above k B).
  Proof.
    revert B. induction L as [|[k1 v1] L IH]; intros B HL; simpl; [reflexivity|].
    apply Forall_cons_iff in HL. destruct HL as [Hk1 HL]. simpl in Hk1.
    rewrite (IH _ HL).
    rewrite below_below, l_get_below, above_below, l_get_above, above_above by lia.
    rewrite <- !app_assoc. reflexivity.
  Qed.

  Lemma diff_unfold older newer :
    diff same equal older newer =
    if same older newer then Ok [] else
    match older with
    | E => Ok (added (all newer))
    | T ol okey ov orr _ _ =>
      match newer with
      | E => Ok (removed (all older))
      | T _ _ _ _ _ _ =>
        '(newLeft, newValue, newRight) <-! split newer okey;
        a <-! diff same equal ol newLeft;
        b <-! diff same equal orr newRight;
        Ok (a ++ verdict equal okey ov newValue ++ b)
      end
    end.
  Proof. destruct older; reflexivity. Qed.

  (* diff is exact on search trees with right cached fields, balanced or not *)
  Theorem diff_spec a b :
    cached a -> sorted (elems a) -> cached b -> sorted (elems b) ->
    diff same equal a b = Ok (merge_diff equal (elems a) (elems b)).
  Proof.
    revert b. induction a as [|al IHl k v ar IHr h s]; intros b Hca Hsa Hcb Hsb;
      rewrite diff_unfold; destruct (same _ b) eqn:Hsame.
    - apply same_sound in Hsame. subst b. reflexivity.
    - rewrite all_elems. reflexivity.
    - apply same_sound in Hsame. subst b. rewrite merge_diff_same by auto. reflexivity.
    - destruct (tree_E_dec b) as [->|Hb].
      + rewrite all_elems. change (elems E) with (@nil (Z * Z)).
        rewrite merge_diff_nil_r. reflexivity.
      + destruct (split_spec b k Hcb Hsb) as (nl & nv & nr & Hsp & El & Er & Ev & Cnl & Cnr).
        destruct b as [|bl bk bv br bh bs]; [congruence|].
        rewrite Hsp. simpl rbind.
        destruct Hca as (Hcl & Hcr & _ & _).
        simpl in Hsa. apply sorted_app in Hsa. destruct Hsa as (Sl & Sr & Fl & Fr).
        rewrite (IHl nl Hcl Sl Cnl) by (rewrite El; apply below_sorted; exact Hsb).
        simpl rbind.
        rewrite (IHr nr Hcr Sr Cnr) by (rewrite Er; apply above_sorted; exact Hsb).
        simpl rbind.
        change (elems (T al k v ar h s)) with (elems al ++ (k, v) :: elems ar).
        rewrite merge_diff_app by exact Fl. rewrite El, Er, Ev. reflexivity.
  Qed.

  (* the consumer stops after j yields: it has seen exactly the first j changes *)
  Corollary symmetricDiff_spec a b stop :
    cached a -> sorted (elems a) -> cached b -> sorted (elems b) ->
    symmetricDiff same equal a b stop =
    Ok (match stop with
        | Some j => take j (merge_diff equal (elems a) (elems b))
        | None => merge_diff equal (elems a) (elems b)
        end).
  Proof. intros. unfold symmetricDiff. rewrite diff_spec by auto. reflexivity. Qed.
End DiffProofs.

Theorem diff_exact same equal a b :
  (forall x y, same x y = true -> x = y) -> eq_reflexive equal ->
  wf a -> wf b ->
  diff same equal a b = Ok (merge_diff equal (elems a) (elems b)).
Proof.
  intros Hsame Hrefl (Ba & Ca) (Bb & Cb).
  apply diff_spec; auto; apply bst_sorted; auto.
Qed.

Theorem ok_wf t : ok t -> wf t.
Proof. intros (Hb & _ & Hc). split; auto. Qed.

(* split hands back search trees with right caches: diff's recursion stays in its domain *)
Theorem split_wf t k :
  wf t -> exists l ov r, split t k = Ok (l, ov, r) /\ wf l /\ wf r /\
    elems l = below k (elems t) /\ elems r = above k (elems t) /\ ov = l_get k (elems t).
Proof.
  intros (Hb & Hc). apply bst_sorted in Hb.
  destruct (split_spec t k Hc Hb) as (l & ov & r & Hs & El & Er & Ev & Cl & Cr).
  exists l, ov, r. split; [exact Hs|].
  repeat split; auto; apply bst_sorted.
  - rewrite El. apply below_sorted, Hb.
  - rewrite Er. apply above_sorted, Hb.
Qed.

(* balance never faults where the package calls it: on any two trees with right caches *)
Theorem balance_total k v l r :
  cached l -> cached r -> exists t, balance k v l r = Ok t.
Proof. intros Hl Hr. destruct (balance_spec k v l r Hl Hr) as (t & Ht & _). eauto. Qed.

(** * The reducer *)

Section ReducerProofs.
  Context {R : Type}.
  Variable project : Z -> Z -> R.
  Variable combine : R -> R -> R.
  Variable same : tree -> tree -> bool.
  Hypothesis same_sound : forall a b, same a b = true -> a = b.
  Hypothesis combine_assoc : forall x y z, combine x (combine y z) = combine (combine x y) z.

  Notation fold := (fold_list project combine).
  Notation sound := (memo_sound project combine).

  Lemma fold_list_app l1 l2 :
    fold (l1 ++ l2) =
    match fold l1, fold l2 with
    | None, y => y
    | Some x, None => Some x
    | Some x, Some y => Some (combine x y)
    end.
  Proof.
    induction l1 as [|[k v] l1 IH]; simpl.
    - destruct (fold l2); reflexivity.
    - rewrite IH. destruct (fold l1), (fold l2); try reflexivity.
      rewrite combine_assoc. reflexivity.
  Qed.

  (* the fold of a node, computed the way [reduce] does *)
  Lemma fold_node l k v r :
    fold (elems l ++ (k, v) :: elems r) =
    Some (let acc := project k v in
          let acc := match fold (elems l) with Some x => combine x acc | None => acc end in
          match fold (elems r) with Some x => combine acc x | None => acc end).
  Proof.
    rewrite fold_list_app. simpl.
    destruct (fold (elems l)), (fold (elems r)); try reflexivity.
    rewrite combine_assoc. reflexivity.
  Qed.

  Lemma memo_get_sound m n c :
    sound m -> memo_get same m n = Some c -> fold (elems n) = Some c.
  Proof.
    intros Hm. induction m as [|[n' c'] m IH]; simpl; [discriminate|].
    destruct (same n' n) eqn:Hs.
    - intros [= <-]. apply same_sound in Hs. subst n'. apply Hm. left. reflexivity.
    - apply IH. intros t x Hin. apply Hm. right. exact Hin.
  Qed.

  Lemma reduce_T m l k v r h s :
    reduce project combine same m (T l k v r h s) =
    match memo_get same m (T l k v r h s) with
    | Some cached => (Some cached, m)
    | None =>
      let acc := project k v in
      let '(lo, m) := reduce project combine same m l in
      let acc := match lo with Some x => combine x acc | None => acc end in
      let '(ro, m) := reduce project combine same m r in
      let acc := match ro with Some x => combine acc x | None => acc end in
      (Some acc, memo_set m (T l k v r h s) acc)
    end.
  Proof. reflexivity. Qed.

  Theorem reduce_spec n m :
    sound m ->
    exists m', reduce project combine same m n = (fold (elems n), m') /\ sound m'.
  Proof.
    revert m. induction n as [|l IHl k v r IHr h s]; intros m Hm.
    - exists m. split; [reflexivity|exact Hm].
    - rewrite reduce_T. destruct (memo_get same m (T l k v r h s)) as [c|] eqn:Hg.
      + exists m. rewrite (memo_get_sound _ _ _ Hm Hg). split; [reflexivity|exact Hm].
      + destruct (IHl m Hm) as (m1 & -> & Hm1).
        destruct (IHr m1 Hm1) as (m2 & -> & Hm2).
        eexists. split.
        * cbv zeta. change (elems (T l k v r h s)) with (elems l ++ (k, v) :: elems r).
          rewrite fold_node. reflexivity.
        * intros t c [Heq|Hin]; [|apply Hm2; exact Hin].
          injection Heq as <- <-.
          change (elems (T l k v r h s)) with (elems l ++ (k, v) :: elems r).
          rewrite fold_node. reflexivity.
  Qed.

  Lemma prune_sound m root : sound m -> sound (prune same m root).
  Proof.
    intros Hm t c Hin. unfold prune in Hin. apply filter_In in Hin. apply Hm, Hin.
  Qed.

  (* whatever is dropped from a sound memo, at whatever time, it stays sound *)
  Lemma memo_sound_sub (m m' : list (tree * R)) :
    sound m -> (forall e, In e m' -> In e m) -> sound m'.
  Proof. intros Hm Hsub t c Hin. apply Hm, Hsub, Hin. Qed.

  Theorem Reduce_spec m root :
    sound m ->
    exists m', Reduce project combine same m root = (fold (elems root), m') /\ sound m'.
  Proof.
    intros Hm. unfold Reduce.
    destruct (memoLen m >? 4 * len root + 64); apply reduce_spec; auto using prune_sound.
  Qed.

  Theorem reduceSeq_spec m roots :
    sound m ->
    reduceSeq project combine same m roots = map (fun t => fold (elems t)) roots.
  Proof.
    revert m. induction roots as [|t roots IH]; intros m Hm; simpl; [reflexivity|].
    destruct (Reduce_spec m t Hm) as (m' & -> & Hm'). rewrite (IH m' Hm'). reflexivity.
  Qed.

  (* a fresh reducer, any sequence of maps (related or not, revisited or not) *)
  Corollary reducer_correct roots :
    reduceSeq project combine same [] roots = map (fun t => fold (elems t)) roots.
  Proof. apply reduceSeq_spec. intros t c []. Qed.
End ReducerProofs.

(** * SetAll, DeleteAll, FromGoMap; histories *)

Lemma sorted_ins_In x y l : In x (sorted_ins y l) <-> x = y \/ In x l.
Proof.
  induction l as [|z l IH]; simpl; [intuition|].
  destruct (y <=? z); simpl; [intuition|]. rewrite IH. intuition.
Qed.

Lemma sortedKeys_In m k : In k (sortedKeys m) <-> In k (map fst m).
Proof.
  unfold sortedKeys. induction (map fst m) as [|x l IH]; simpl; [tauto|].
  rewrite sorted_ins_In, IH. intuition.
Qed.

Lemma goget_l_get m k :
  (In k (map fst m) -> l_get k m = Some (goget m k)) /\
  (~ In k (map fst m) -> l_get k m = None).
Proof.
  induction m as [|[k' v'] m IH]; simpl; [tauto|].
  destruct (k' =? k) eqn:He.
  - split; [reflexivity|]. intros Hn. exfalso. apply Hn. left. lia.
  - destruct IH as [IH1 IH2]. split.
    + intros [Hk|Hin]; [lia|auto].
    + intros Hn. apply IH2. tauto.
Qed.

Lemma insert_fold_ok (f : Z -> Z) ks t :
  ok t ->
  exists t', rfold (fun out key => insert out key (f key)) ks t = Ok t' /\ ok t' /\
    forall k, l_get k (elems t') = if bool_decide (k ∈ ks) then Some (f k) else l_get k (elems t).
Proof.
  revert t. induction ks as [|key ks IH]; intros t Hok; cbn [rfold].
  - exists t. split; [reflexivity|]. split; [exact Hok|].
    intros k. case_bool_decide as H; [|reflexivity].
    apply elem_of_nil in H. destruct H.
  - destruct (insert_ok t key (f key) Hok) as (t1 & -> & Hok1 & El1). simpl rbind.
    destruct (IH t1 Hok1) as (t' & Hr & Hok' & Hg). exists t'. split; [exact Hr|]. split; [exact Hok'|].
    intros k. rewrite Hg, El1, l_get_insert by (apply ok_sorted; exact Hok).
    destruct (Z.eqb_spec k key) as [->|Hne]; repeat case_bool_decide; try reflexivity; exfalso; set_solver.
Qed.

Theorem setAll_ok t m :
  ok t -> exists t', setAll t m = Ok t' /\ ok t' /\
    forall k, l_get k (elems t') = l_setAll_get m (elems t) k.
Proof.
  intros Hok. unfold setAll.
  destruct (insert_fold_ok (goget m) (sortedKeys m) t Hok) as (t' & Hr & Hok' & Hg).
  exists t'. split; [exact Hr|]. split; [exact Hok'|].
  intros k. rewrite Hg. unfold l_setAll_get. destruct (goget_l_get m k) as [H1 H2].
  case_bool_decide as Hin.
  - rewrite H1 by (apply sortedKeys_In, elem_of_list_In; exact Hin). reflexivity.
  - rewrite H2; [reflexivity|]. intros Hn. apply Hin, elem_of_list_In, sortedKeys_In, Hn.
Qed.

Theorem fromGoMap_ok m :
  exists t', fromGoMap m = Ok t' /\ ok t' /\ forall k, l_get k (elems t') = l_get k m.
Proof.
  destruct (setAll_ok E m ok_empty) as (t' & Hr & Hok & Hg). exists t'.
  split; [exact Hr|]. split; [exact Hok|]. intros k. rewrite Hg. unfold l_setAll_get. simpl.
  destruct (l_get k m); reflexivity.
Qed.

Theorem deleteAll_ok t ks :
  ok t -> exists t', deleteAll t ks = Ok t' /\ ok t' /\
    forall k, l_get k (elems t') = l_deleteAll_get ks (elems t) k.
Proof.
  unfold deleteAll, l_deleteAll_get. revert t. induction ks as [|key ks IH]; intros t Hok; cbn [rfold].
  - exists t. split; [reflexivity|]. split; [exact Hok|].
    intros k. case_bool_decide as H; [|reflexivity].
    apply elem_of_nil in H. destruct H.
  - destruct (remove_ok t key Hok) as (t1 & -> & Hok1 & El1). simpl rbind.
    destruct (IH t1 Hok1) as (t' & Hr & Hok' & Hg). exists t'. split; [exact Hr|]. split; [exact Hok'|].
    intros k. rewrite Hg, El1, l_get_delete by (apply ok_sorted; exact Hok).
    destruct (Z.eqb_spec k key) as [->|Hne]; repeat case_bool_decide; try reflexivity; exfalso; set_solver.
Qed.

(* every operation of the package, on any map it handed out: no fault, the result is again
   a sorted balanced tree with right caches, and it answers lookups as the reference does *)
Theorem apply_op_ok t o :
  ok t -> exists t', apply_op t o = Ok t' /\ ok t' /\
    forall k, get t' k = spec_get (elems t) o k.
Proof.
  intros Hok. destruct o as [k0 v0|k0|m|ks]; simpl.
  - destruct (insert_ok t k0 v0 Hok) as (t' & Hr & Hok' & El). exists t'.
    split; [exact Hr|]. split; [exact Hok'|]. intros k.
    rewrite get_spec by (apply ok_sorted; exact Hok').
    rewrite El. apply l_get_insert, ok_sorted, Hok.
  - destruct (remove_ok t k0 Hok) as (t' & Hr & Hok' & El). exists t'.
    split; [exact Hr|]. split; [exact Hok'|]. intros k.
    rewrite get_spec by (apply ok_sorted; exact Hok').
    rewrite El. apply l_get_delete, ok_sorted, Hok.
  - destruct (setAll_ok t m Hok) as (t' & Hr & Hok' & Hg). exists t'.
    split; [exact Hr|]. split; [exact Hok'|]. intros k.
    rewrite get_spec by (apply ok_sorted; exact Hok'). apply Hg.
  - destruct (deleteAll_ok t ks Hok) as (t' & Hr & Hok' & Hg). exists t'.
    split; [exact Hr|]. split; [exact Hok'|]. intros k.
    rewrite get_spec by (apply ok_sorted; exact Hok'). apply Hg.
Qed.

(* histories that are trees of versions: every version ever made is ok, earlier versions
   are still there unchanged, and each new version relates to its source as the reference
   says *)
Theorem run_history_ok h : forall vs,
  Forall ok vs -> valid_history (length vs) h ->
  exists vs', run_history vs h = Some vs' /\ Forall ok vs' /\
    length vs' = (length vs + length h)%nat /\
    take (length vs) vs' = vs /\
    forall i src o, h !! i = Some (src, o) ->
      exists ts t', vs' !! src = Some ts /\ vs' !! (length vs + i)%nat = Some t' /\
                    forall k, get t' k = spec_get (elems ts) o k.
Proof.
  induction h as [|[src o] h IH]; intros vs Hvs Hval; simpl.
  - exists vs. split; [reflexivity|]. split; [exact Hvs|]. split; [lia|].
    split; [apply firstn_all|]. intros i ? ? Hi. rewrite lookup_nil in Hi. discriminate.
  - pose proof (Hval 0%nat src o eq_refl) as Hsrc.
    destruct (lookup_lt_is_Some_2 vs src ltac:(lia)) as [ts Hts]. rewrite Hts.
    assert (ok ts) as Hokts by (eapply Forall_lookup_1; eauto).
    destruct (apply_op_ok ts o Hokts) as (t' & -> & Hok' & Hg).
    destruct (IH (vs ++ [t'])) as (vs' & Hrun & Hall & Hlen & Htake & Hsteps).
    { apply Forall_app. split; [exact Hvs|]. constructor; [exact Hok'|constructor]. }
    { intros i s' o' Hi. rewrite app_length. simpl.
      pose proof (Hval (S i) s' o' Hi). lia. }
    rewrite app_length in Hlen, Htake, Hsteps. simpl in Hlen, Htake, Hsteps.
    exists vs'. split; [exact Hrun|]. split; [exact Hall|]. split; [lia|].
    assert (forall j x, (vs ++ [t']) !! j = Some x -> vs' !! j = Some x) as Hpre.
    { intros j x Hj. rewrite <- Htake in Hj. apply lookup_take_Some in Hj. tauto. }
    split.
    + transitivity (take (length vs) (vs ++ [t'])).
      * rewrite <- Htake. rewrite take_take. f_equal. lia.
      * rewrite take_app_le by lia. apply take_ge. lia.
    + intros [|i] s' o' Hi; simpl in Hi.
      * injection Hi as <- <-. exists ts, t'. split; [|split; [|exact Hg]].
        -- apply Hpre. apply lookup_app_l_Some. exact Hts.
        -- apply Hpre. rewrite Nat.add_0_r. apply list_lookup_middle. reflexivity.
      * destruct (Hsteps i s' o' Hi) as (ts' & t'' & H1 & H2 & H3).
        exists ts', t''. split; [exact H1|]. split; [|exact H3].
        replace (length vs + S i)%nat with (length vs + 1 + i)%nat by lia. exact H2.
Qed.

(** * What the reference diff means

    [merge_diff] is characterised extensionally: its keys are strictly increasing (so no
    key occurs twice and the order is key order), and a change is in it exactly when it is
    the change the two lists call for at its key ([change_at]): Added when the key is only
    in the newer list, Removed when only in the older, Updated when in both and [equal]
    says the values differ, nothing when in neither or [equal] says they are the same (or
    [equal] is nil). *)

Lemma l_get_In k v l : sorted l -> (In (k, v) l <-> l_get k l = Some v).
Proof.
  induction l as [|[k' v'] l IH]; simpl; [intros _; split; [tauto|discriminate]|].
  intros [Hk Hs]. destruct (k' =? k) eqn:He.
  - assert (k' = k) by lia. subst k'. split.
    + intros [[= ->]|Hin]; [reflexivity|].
      exfalso. rewrite Forall_forall in Hk. specialize (Hk _ Hin). simpl in Hk. lia.
    + intros [= ->]. left. reflexivity.
  - rewrite <- (IH Hs). split; [intros [[= -> ->]|Hin]; [lia|exact Hin]|tauto].
Qed.

Lemma l_get_Some_key k v l : l_get k l = Some v -> In k (map fst l).
Proof.
  induction l as [|[k' v'] l IH]; simpl; [discriminate|].
  destruct (k' =? k) eqn:He; [intros _; left; lia|intros H; right; auto].
Qed.

Lemma l_get_below_ge k0 k l : k0 <= k -> l_get k (below k0 l) = None.
Proof. intros Hk. apply l_get_none_lt. eapply Forall_lt_trans; [|apply below_lt]. lia. Qed.

Lemma l_get_above_le k0 k l : k <= k0 -> l_get k (above k0 l) = None.
Proof. intros Hk. apply l_get_none_gt. eapply Forall_gt_trans; [|apply above_gt]. lia. Qed.

Lemma In_added c l : In c (added l) <-> exists k v, c = Added k v /\ In (k, v) l.
Proof.
  unfold added. rewrite in_map_iff. split.
  - intros ([k v] & <- & Hin). eauto.
  - intros (k & v & -> & Hin). exists (k, v). auto.
Qed.

Section MergeDiffMeaning.
  Variable equal : option (Z -> Z -> bool).

  Lemma In_verdict c k old newer :
    In c (verdict equal k old newer) <->
    change_key c = k /\
    match newer with
    | None => Some (Removed k old)
    | Some new => match equal with
                  | Some eqf => if eqf old new then None else Some (Updated k old new)
                  | None => None
                  end
    end = Some c.
  Proof.
    unfold verdict. destruct newer as [new|].
    - destruct equal as [eqf|]; [destruct (eqf old new)|]; simpl;
        (split; [intros H; try tauto; destruct H as [<-|[]]; auto|]);
        intros [_ [= <-]]. auto.
    - simpl. split; [intros [<-|[]]; auto|]. intros [_ [= <-]]. auto.
  Qed.

  Theorem merge_diff_In la : forall lb c,
    sorted la -> sorted lb ->
    (In c (merge_diff equal la lb) <-> change_at equal la lb (change_key c) = Some c).
  Proof.
    induction la as [|[k0 v0] la IH]; intros lb c Hsa Hsb.
    - simpl merge_diff. rewrite In_added. unfold change_at. simpl l_get. split.
      + intros (k & v & -> & Hin). simpl. apply (l_get_In _ _ _ Hsb) in Hin. rewrite Hin. reflexivity.
      + destruct (l_get (change_key c) lb) as [v|] eqn:Hg; [|discriminate].
        intros [= <-]. exists (change_key c), v. split; [reflexivity|].
        apply (l_get_In _ _ _ Hsb). exact Hg.
    - destruct Hsa as [Hk0 Hsa]. simpl merge_diff. rewrite !in_app_iff.
      rewrite In_added, In_verdict, (IH _ _ Hsa (above_sorted k0 lb Hsb)).
      unfold change_at. simpl l_get.
      remember (change_key c) as k eqn:Hkd.
      destruct (Z.lt_trichotomy k k0) as [Hlt|[Heq|Hgt]].
      + (* below the pivot: only an addition from the newer list *)
        destruct (k0 =? k) eqn:He; [lia|].
        rewrite (l_get_none_gt k la) by (eapply Forall_gt_trans; [|exact Hk0]; lia).
        rewrite (l_get_above_le k0 k lb) by lia.
        split.
        * intros [(k' & v & -> & Hin)|[[Hk _]|Hc]]; [|lia|discriminate].
          simpl in Hkd. subst k'.
          assert (In (k, v) lb) as Hin'.
          { clear -Hin. induction lb as [|p lb IHb]; simpl in *; [tauto|].
            destruct (fst p <? k0); simpl in Hin; tauto. }
          apply (l_get_In _ _ _ Hsb) in Hin'. rewrite Hin'. reflexivity.
        * destruct (l_get k lb) as [v|] eqn:Hg; [|discriminate].
          intros [= <-]. left. exists k, v. split; [reflexivity|].
          apply (l_get_In _ _ _ (below_sorted k0 lb Hsb)).
          rewrite l_get_below by lia. exact Hg.
      + (* at the pivot: the verdict *)
        subst k0. rewrite Z.eqb_refl.
        rewrite (l_get_none_gt k la) by exact Hk0.
        rewrite (l_get_above_le k k lb) by lia.
        split.
        * intros [(k' & v & -> & Hin)|[[_ Hv]|Hc]]; [|exact Hv|discriminate].
          exfalso. apply (l_get_In _ _ _ (below_sorted k lb Hsb)) in Hin.
          simpl in Hkd. subst k'. rewrite l_get_below_ge in Hin by lia. discriminate.
        * intros Hv. right. left. split; [reflexivity|exact Hv].
      + (* above the pivot: whatever the rest calls for *)
        destruct (k0 =? k) eqn:He; [lia|].
        rewrite (l_get_above k0 k lb) by lia.
        split.
        * intros [(k' & v & -> & Hin)|[[Hk _]|Hc]]; [|lia|exact Hc].
          exfalso. apply (l_get_In _ _ _ (below_sorted k0 lb Hsb)) in Hin.
          simpl in Hkd. subst k'. rewrite l_get_below_ge in Hin by lia. discriminate.
        * intros Hc. right. right. exact Hc.
  Qed.

  Lemma merge_diff_keys (P : Z -> Prop) la : forall lb,
    Forall (fun p => P (fst p)) la -> Forall (fun p => P (fst p)) lb ->
    Forall (fun c => P (change_key c)) (merge_diff equal la lb).
  Proof.
    induction la as [|[k0 v0] la IH]; intros lb Ha Hb; simpl.
    - unfold added. apply Forall_map. eapply Forall_mono; [exact Hb|]. intros [k v]; auto.
    - apply Forall_cons_iff in Ha. destruct Ha as [Hk0 Ha]. simpl in Hk0.
      apply Forall_app. split; [|apply Forall_app; split].
      + unfold added. apply Forall_map. eapply Forall_mono; [apply Forall_below; exact Hb|].
        intros [k v]; auto.
      + unfold verdict. destruct (l_get k0 lb); [destruct equal as [eqf|]; [destruct (eqf v0 z)|]|];
          repeat constructor; auto.
      + apply IH; [exact Ha|apply Forall_above; exact Hb].
  Qed.

  Lemma key_sorted_app l1 l2 :
    key_sorted l1 -> key_sorted l2 ->
    (forall c1 c2, In c1 l1 -> In c2 l2 -> change_key c1 < change_key c2) ->
    key_sorted (l1 ++ l2).
  Proof.
    induction l1 as [|c l1 IH]; simpl; [auto|]. intros [Hc Hs1] Hs2 Hlt. split.
    - apply Forall_app. split; [exact Hc|]. apply Forall_forall. intros c2 Hin. apply Hlt; auto.
    - apply IH; auto.
  Qed.

  Lemma key_sorted_added l : sorted l -> key_sorted (added l).
  Proof.
    induction l as [|[k v] l IH]; simpl; [auto|]. intros [Hk Hs]. split; [|auto].
    unfold added. apply Forall_map. eapply Forall_mono; [exact Hk|]. intros [k' v']; auto.
  Qed.

  Theorem merge_diff_key_sorted la : forall lb,
    sorted la -> sorted lb -> key_sorted (merge_diff equal la lb).
  Proof.
    induction la as [|[k0 v0] la IH]; intros lb Hsa Hsb; simpl.
    - apply key_sorted_added. exact Hsb.
    - destruct Hsa as [Hk0 Hsa].
      assert (Forall (fun c => k0 < change_key c) (merge_diff equal la (above k0 lb))) as Hrest.
      { apply (merge_diff_keys (fun k => k0 < k)); [exact Hk0|apply above_gt]. }
      assert (Forall (fun c => change_key c < k0) (added (below k0 lb))) as Hadd.
      { unfold added. apply Forall_map. eapply Forall_mono; [apply below_lt|]. intros [k v]; auto. }
      assert (Forall (fun c => change_key c = k0) (verdict equal k0 v0 (l_get k0 lb))) as Hver.
      { unfold verdict. destruct (l_get k0 lb); [destruct equal as [eqf|]; [destruct (eqf v0 z)|]|];
          repeat constructor. }
      rewrite Forall_forall in Hrest, Hadd, Hver.
      apply key_sorted_app; [apply key_sorted_added, below_sorted, Hsb| |].
      + apply key_sorted_app; [|apply IH; [exact Hsa|apply above_sorted, Hsb]|].
        * unfold verdict. destruct (l_get k0 lb); [destruct equal as [eqf|]; [destruct (eqf v0 z)|]|];
            simpl; auto.
        * intros c1 c2 H1 H2. rewrite (Hver _ H1). apply Hrest, H2.
      + intros c1 c2 H1 H2. apply in_app_iff in H2. destruct H2 as [H2|H2].
        * rewrite (Hver _ H2). apply Hadd, H1.
        * pose proof (Hadd _ H1). pose proof (Hrest _ H2). lia.
  Qed.
End MergeDiffMeaning.

(* with a nil [equal] only additions and removals are reported *)
Theorem merge_diff_nil_no_updates la : forall lb,
  Forall (fun c => match c with Updated _ _ _ => False | _ => True end) (merge_diff None la lb).
Proof.
  induction la as [|[k0 v0] la IH]; intros lb; simpl.
  - unfold added. apply Forall_map. apply Forall_forall. intros [k v] _. exact I.
  - apply Forall_app. split; [|apply Forall_app; split; [|apply IH]].
    + unfold added. apply Forall_map. apply Forall_forall. intros [k v] _. exact I.
    + unfold verdict. destruct (l_get k0 lb); repeat constructor.
Qed.

(** * Statements packaged for Properties/C16.v *)

Theorem reference_insert_meaning k v l :
  sorted l ->
  sorted (l_insert k v l) /\
  forall k', l_get k' (l_insert k v l) = if k' =? k then Some v else l_get k' l.
Proof. intros Hs. split; [apply l_insert_sorted; exact Hs|]. intros k'. apply l_get_insert, Hs. Qed.

Theorem reference_delete_meaning k l :
  sorted l ->
  sorted (l_delete k l) /\
  forall k', l_get k' (l_delete k l) = if k' =? k then None else l_get k' l.
Proof. intros Hs. split; [apply l_delete_sorted; exact Hs|]. intros k'. apply l_get_delete, Hs. Qed.

Theorem ok_elems_sorted t : ok t -> sorted (elems t).
Proof. apply ok_sorted. Qed.

Theorem lookup_family t :
  ok t ->
  (forall k, get t k = l_get k (elems t)) /\
  (forall k, has t k = is_some (l_get k (elems t))) /\
  len t = Z.of_nat (length (elems t)) /\
  min t = l_head (elems t) /\
  max t = l_last (elems t) /\
  (forall i, nth t i = if i <? 0 then None else elems t !! Z.to_nat i) /\
  (forall k, rank t k = (Z.of_nat (length (below k (elems t))), is_some (l_get k (elems t)))) /\
  (forall lo hi, range t lo hi = between lo hi (elems t)) /\
  all t = elems t /\
  keys t = map fst (elems t).
Proof.
  intros Hok. pose proof (ok_sorted t Hok) as Hs. destruct Hok as (_ & _ & Hc).
  split; [intros; apply get_spec; auto|].
  split; [intros; apply has_spec; auto|].
  split; [apply len_spec; auto|].
  split; [apply min_spec|].
  split; [apply max_spec|].
  split; [intros; apply nth_spec; auto|].
  split; [intros; apply rank_spec; auto|].
  split; [intros; apply range_spec; auto|].
  split; [apply all_spec|].
  unfold keys. rewrite all_spec. reflexivity.
Qed.

Theorem symmetricDiff_exact same equal a b stop :
  (forall x y, same x y = true -> x = y) -> eq_reflexive equal ->
  wf a -> wf b ->
  symmetricDiff same equal a b stop =
  Ok (match stop with
      | Some j => take j (merge_diff equal (elems a) (elems b))
      | None => merge_diff equal (elems a) (elems b)
      end).
Proof.
  intros Hsame Hrefl (Ba & Ca) (Bb & Cb).
  apply symmetricDiff_spec; auto; apply bst_sorted; auto.
Qed.

(* the sharing the two maps happen to have does not matter *)
Theorem diff_sharing_irrelevant same1 same2 equal a b :
  (forall x y, same1 x y = true -> x = y) -> (forall x y, same2 x y = true -> x = y) ->
  eq_reflexive equal -> wf a -> wf b ->
  diff same1 equal a b = diff same2 equal a b.
Proof. intros H1 H2 Hr Ha Hb. rewrite !diff_exact by auto. reflexivity. Qed.

Theorem merge_diff_meaning equal la lb :
  sorted la -> sorted lb ->
  key_sorted (merge_diff equal la lb) /\
  forall c, In c (merge_diff equal la lb) <-> change_at equal la lb (change_key c) = Some c.
Proof.
  intros Ha Hb. split; [apply merge_diff_key_sorted; auto|].
  intros c. apply merge_diff_In; auto.
Qed.

(** the instances used for execution satisfy the hypotheses *)
From incr Require Import PMapRun.

Lemma tree_eqb_sound a b : tree_eqb a b = true -> a = b.
Proof.
  revert b. induction a as [|l IHl k v r IHr h s]; intros [|l' k' v' r' h' s']; simpl;
    try discriminate; [reflexivity|].
  rewrite !andb_true_iff. intros (((((Hk & Hv) & Hh) & Hs) & Hl) & Hr).
  apply IHl in Hl. apply IHr in Hr. subst.
  f_equal; lia.
Qed.

Lemma no_sharing_sound a b : no_sharing a b = true -> a = b.
Proof. discriminate. Qed.

Lemma eq_of_reflexive e : eq_reflexive (eq_of e).
Proof. destruct e; simpl; auto; intros; apply Z.eqb_refl. Qed.

(** ** Non-vacuity *)

Definition ex_balanced : tree := T (T E 1 10 E 1 1) 2 20 (T E 3 30 E 1 1) 2 3.
(* a right spine, as split produces them: a search tree with right caches, not AVL *)
Definition ex_spine : tree := T E 1 11 (T E 2 20 (T E 4 40 E 1 1) 2 2) 3 3.

Example ok_ex_balanced : ok ex_balanced /\ elems ex_balanced = [(1, 10); (2, 20); (3, 30)].
Proof.
  split; [|reflexivity].
  repeat split; simpl; try lia; repeat constructor; simpl; lia.
Qed.

Example wf_ex_spine : wf ex_spine /\ ~ avl ex_spine.
Proof.
  split.
  - repeat split; simpl; try lia; repeat constructor; simpl; lia.
  - simpl. lia.
Qed.

Example diff_ex :
  diff tree_eqb (Some Z.eqb) ex_balanced ex_spine =
    Ok [Updated 1 10 11; Removed 3 30; Added 4 40] /\
  diff no_sharing (Some Z.eqb) ex_balanced ex_spine =
    Ok [Updated 1 10 11; Removed 3 30; Added 4 40] /\
  diff no_sharing None ex_balanced ex_spine = Ok [Removed 3 30; Added 4 40] /\
  merge_diff (Some Z.eqb) (elems ex_balanced) (elems ex_spine) =
    [Updated 1 10 11; Removed 3 30; Added 4 40].
Proof. vm_compute. auto. Qed.

Definition ex_history : list (nat * mop) :=
  [(0%nat, OSet 2 20); (1%nat, OSet 1 10); (1%nat, ODelete 2); (2%nat, OSetAll [(3, 30); (1, 11)])].

Example history_ex : run_history [E] ex_history <> None /\ valid_history 1 ex_history.
Proof.
  split; [vm_compute; discriminate|].
  intros i src o H. unfold ex_history in H.
  destruct i as [|[|[|[|i]]]]; simpl in H; try (injection H as <- <-; lia).
  rewrite lookup_nil in H. discriminate.
Qed.

(* a non-commutative associative combine: list concatenation *)
Example reducer_ex :
  reduceSeq (fun k v => [k; v]) (@app Z) tree_eqb [] [ex_balanced; ex_spine; ex_balanced; E] =
  [Some [1; 10; 2; 20; 3; 30]; Some [1; 11; 2; 20; 4; 40]; Some [1; 10; 2; 20; 3; 30]; None].
Proof. vm_compute. reflexivity. Qed.
